import Hl7.Lemmas.HeapViews
/-! The successful outcomes of the element-graph operations, as explicit heaps (one disjunct per path of
    the Python code).  The C09/C10 theorems are proved from these. -/
namespace Hl7.Heap

variable (R : Rules)

theorem validCheck_ok (p c : Nat) (h : Heap) (u : Unit) (hv : (validCheck R p c h).2 = .ok u) :
    ∃ pn cn, h[p]? = some pn ∧ h[c]? = some cn ∧ R.valid pn cn = true := by
  unfold validCheck at hv
  split at hv
  · next pn cn hp hc =>
    split at hv
    · next hval => exact ⟨pn, cn, hp, hc, hval⟩
    · simp at hv
  · simp at hv

/-- what a successful admission establishes: same level, same version -/
theorem admission_ok (p c : Nat) (h : Heap) (u : Unit) (ha : (admission R p c h).2 = .ok u) :
    ∃ pn cn, h[p]? = some pn ∧ h[c]? = some cn ∧ pn.level = cn.level ∧ pn.version = cn.version := by
  unfold admission at ha
  split at ha
  · next pn cn hp hc =>
    split at ha
    · simp at ha
    · split at ha
      · simp at ha
      · split at ha
        · simp at ha
        · next h1 h2 => exact ⟨pn, cn, hp, hc, by simpa using h1, by simpa using h2⟩
  · simp at ha

inductive AppendPath (p c : Nat) (h h' : Heap) (pn cn : Node) : Prop
  | fresh (h1 : cn.parent ≠ some p) (h2 : cn.tparent ≠ some p)
      (ha : (admission R p c (setPtr c (some p) none h)).2 = .ok ())
      (he : h' = detach cn.parent p c (pushList p c (setPtr c (some p) none h)))
  | mine (h1 : cn.parent = some p) (ha : (admission R p c h).2 = .ok ()) (he : h' = pushList p c h)
  | traversal (h1 : cn.parent ≠ some p) (h2 : cn.tparent = some p) (ha : (admission R p c h).2 = .ok ())
      (he : h' = modify p (fun n => { n with tidx := n.tidx ++ [c] }) h)

theorem append_ok (p c : Nat) (h : Heap) (hok : (append R p c h).2 = .ok ()) :
    ∃ pn cn, h[p]? = some pn ∧ h[c]? = some cn ∧ R.valid pn cn = true ∧ AppendPath R p c h (append R p c h).1 pn cn := by
  unfold append at hok ⊢
  cases hv : (validCheck R p c h).2 with
  | error e => simp [hv] at hok
  | ok u =>
    obtain ⟨pn, cn, hp, hc, hval⟩ := validCheck_ok R p c h u hv
    refine ⟨pn, cn, hp, hc, hval, ?_⟩
    simp only [hv, hc] at hok ⊢
    by_cases hcond : cn.parent ≠ some p ∧ cn.tparent ≠ some p
    · rw [if_pos hcond] at hok ⊢
      cases ha : (admission R p c (setPtr c (some p) none h)).2 with
      | error e => simp [ha] at hok
      | ok u' =>
        simp only [ha]
        exact AppendPath.fresh hcond.1 hcond.2 ha rfl
    · rw [if_neg hcond] at hok ⊢
      cases ha : (admission R p c h).2 with
      | error e => simp [ha] at hok
      | ok u' =>
        simp only [ha]
        by_cases hpar : cn.parent = some p
        · rw [if_pos hpar]
          exact AppendPath.mine hpar ha rfl
        · rw [if_neg hpar]
          have : cn.tparent = some p := by
            by_cases ht : cn.tparent = some p
            · exact ht
            · exact absurd ⟨hpar, ht⟩ hcond
          exact AppendPath.traversal hpar this ha rfl

inductive InsertPath (p c li : Nat) (h h' : Heap) (pn cn : Node) : Prop
  | fresh (h1 : cn.parent ≠ some p)
      (ha : (admission R p c (setPtr c (some p) none h)).2 = .ok ())
      (he : h' = insertList p c li (detach cn.parent p c (untrav cn.tparent p c (setPtr c (some p) none h))))
  | mine (h1 : cn.parent = some p) (ha : (admission R p c h).2 = .ok ()) (he : h' = insertList p c li h)

/-- `h` below is the heap after `insert` has moved out a child it already listed -/
theorem insertAt_ok (p c li : Nat) (h0 : Heap) (hok : (insertAt R p c li h0).2 = .ok ()) :
    ∃ pn cn, (eraseList p c h0)[p]? = some pn ∧ (eraseList p c h0)[c]? = some cn ∧ R.valid pn cn = true ∧
      InsertPath R p c li (eraseList p c h0) (insertAt R p c li h0).1 pn cn := by
  unfold insertAt at hok ⊢
  dsimp only at hok ⊢
  cases hc : (eraseList p c h0)[c]? with
  | none => simp [hc] at hok
  | some cn =>
    simp only [hc] at hok ⊢
    cases hv : (validCheck R p c (eraseList p c h0)).2 with
    | error e => simp [hv] at hok
    | ok u =>
      obtain ⟨pn, cn', hp, hc', hval⟩ := validCheck_ok R p c _ u hv
      rw [hc] at hc'; cases hc'
      refine ⟨pn, cn, hp, rfl, hval, ?_⟩
      simp only [hv] at hok ⊢
      by_cases hcond : cn.parent ≠ some p
      · rw [if_pos hcond] at hok ⊢
        cases ha : (admission R p c (setPtr c (some p) none (eraseList p c h0))).2 with
        | error e => simp [ha] at hok
        | ok u' =>
          simp only [ha]
          exact InsertPath.fresh hcond ha rfl
      · rw [if_neg hcond] at hok ⊢
        cases ha : (admission R p c (eraseList p c h0)).2 with
        | error e => simp [ha] at hok
        | ok u' =>
          simp only [ha]
          exact InsertPath.mine (by simpa using hcond) ha rfl

inductive RemovePath (p c : Nat) (h h' : Heap) (pn cn : Node) : Prop
  | traversal (h1 : cn.tparent = some p) (he : h' = modify p (fun n => { n with tidx := n.tidx.erase c }) h)
  | listed (h1 : cn.tparent ≠ some p) (hm : c ∈ pn.list) (he : h' = eraseList p c h)

theorem remove_ok (p c : Nat) (h : Heap) (hok : (remove p c h).2 = .ok ()) :
    ∃ pn cn, h[p]? = some pn ∧ h[c]? = some cn ∧ RemovePath p c h (remove p c h).1 pn cn := by
  unfold remove at hok ⊢
  cases hc : h[c]? with
  | none => simp [hc] at hok
  | some cn =>
    cases hp : h[p]? with
    | none => simp [hc, hp] at hok
    | some pn =>
      refine ⟨pn, cn, rfl, rfl, ?_⟩
      simp only [hc, hp] at hok ⊢
      by_cases ht : cn.tparent = some p
      · rw [if_pos ht]; exact RemovePath.traversal ht rfl
      · rw [if_neg ht] at hok ⊢
        by_cases hm : pn.list.contains c = true
        · rw [if_pos hm]; exact RemovePath.listed ht (by simpa using hm) rfl
        · rw [if_neg hm] at hok; simp at hok

end Hl7.Heap
