/-! The ordinal-slots round trip (DESIGN-appendix B.6): the arithmetic core of C01/C02 -/
namespace Hl7.Slots

abbrev Str := List Char

/-- parse side: keep the non-empty pieces, remembering their 0-based position -/
def pieces : Nat → List Str → List (Nat × Str)
  | _, [] => []
  | i, x :: xs => if x = [] then pieces (i+1) xs else (i, x) :: pieces (i+1) xs

/-- encode side: for table positions `i, i+1, … , i+k-1` collect the children filed under that position -/
def slots (cs : List (Nat × Str)) : Nat → Nat → List (List Str)
  | _, 0 => []
  | i, k+1 => ((cs.filter (·.1 = i)).map (·.2)) :: slots cs (i+1) k

/-- `_remove_trailing` on groups -/
def dropTrailing : List (List Str) → List (List Str)
  | [] => []
  | g :: gs =>
    match dropTrailing gs with
    | [] => if g = [] then [] else [g]
    | r => g :: r

def render (gs : List (List Str)) : List Str :=
  gs.flatMap fun g => if g = [] then [[]] else g

def canon (xs : List Str) : List (List Str) := xs.map fun x => if x = [] then [] else [x]

theorem pieces_lower (i : Nat) (xs : List Str) : ∀ p ∈ pieces i xs, i ≤ p.1 := by
  induction xs generalizing i with
  | nil => simp [pieces]
  | cons x xs ih =>
    intro p hp
    unfold pieces at hp
    split at hp
    · exact Nat.le_of_succ_le (ih (i+1) p hp)
    · rcases List.mem_cons.mp hp with h | h
      · subst h; exact Nat.le_refl _
      · exact Nat.le_of_succ_le (ih (i+1) p h)

theorem filter_pieces_lt (i j : Nat) (xs : List Str) (h : j < i) :
    (pieces i xs).filter (·.1 = j) = [] := by
  apply List.filter_eq_nil_iff.mpr
  intro p hp
  have := pieces_lower i xs p hp
  simp; omega

/-- filing by position and reading back in table order reproduces the pieces, padded with empty groups -/
theorem slots_pieces (i : Nat) (xs : List Str) (k : Nat) (hk : xs.length ≤ k) :
    slots (pieces i xs) i k = canon xs ++ List.replicate (k - xs.length) [] := by
  induction xs generalizing i k with
  | nil =>
    simp only [pieces, canon, List.map_nil, List.nil_append, List.length_nil, Nat.sub_zero]
    induction k generalizing i with
    | zero => simp [slots]
    | succ k ih => simp [slots, List.replicate_succ, ih]
  | cons x xs ih =>
    cases k with
    | zero => simp at hk
    | succ k =>
      have hk' : xs.length ≤ k := by simpa using hk
      unfold pieces
      by_cases hx : x = []
      · subst hx
        simp only [↓reduceIte, slots, canon, List.map_cons]
        rw [filter_pieces_lt (i+1) i xs (by omega)]
        -- tail: slots over the same children, starting one position later
        have := ih (i+1) k hk'
        simp only [canon] at this
        simp [this]
      · simp only [hx, ↓reduceIte, slots, canon, List.map_cons]
        have hf : ((i, x) :: pieces (i+1) xs).filter (·.1 = i) = [(i, x)] := by
          simp [List.filter_cons, filter_pieces_lt (i+1) i xs (by omega)]
        rw [hf]
        -- in the tail, the head child (position i) is never selected again
        have htail : ∀ j k', i < j → slots ((i, x) :: pieces (i+1) xs) j k' = slots (pieces (i+1) xs) j k' := by
          intro j k' hj
          induction k' generalizing j with
          | zero => simp [slots]
          | succ k' ih2 =>
            have hne : ¬ (i = j) := by omega
            simp [slots, List.filter_cons, hne, ih2 (j+1) (by omega)]
        rw [htail (i+1) k (by omega)]
        have := ih (i+1) k hk'
        simp only [canon] at this
        simp [this]

theorem render_canon (xs : List Str) : render (canon xs) = xs := by
  induction xs with
  | nil => simp [render, canon]
  | cons x xs ih =>
    simp only [render, canon, List.map_cons, List.flatMap_cons] at ih ⊢
    by_cases hx : x = []
    · subst hx; simp [ih]
    · simp [hx, ih]

theorem dropTrailing_replicate (m : Nat) : dropTrailing (List.replicate m ([] : List Str)) = [] := by
  induction m with
  | zero => simp [dropTrailing]
  | succ m ih => simp [List.replicate_succ, dropTrailing, ih]

/-- no trailing empty piece (the canonical-text condition) -/
def NoTrailingEmpty : List Str → Prop
  | [] => True
  | [x] => x ≠ []
  | _ :: y :: ys => NoTrailingEmpty (y :: ys)

theorem dropTrailing_canon_pad (xs : List Str) (m : Nat) (h : NoTrailingEmpty xs) :
    dropTrailing (canon xs ++ List.replicate m []) = canon xs := by
  induction xs with
  | nil => simpa [canon] using dropTrailing_replicate m
  | cons x xs ih =>
    cases xs with
    | nil =>
      have hx : x ≠ [] := h
      simp [canon, dropTrailing, hx, dropTrailing_replicate]
    | cons y ys =>
      have h' : NoTrailingEmpty (y :: ys) := h
      have ih' := ih h'
      simp only [canon, List.map_cons, List.cons_append] at ih' ⊢
      rw [dropTrailing, ih']

/-- The ordinal-slots round trip: split pieces, named by position, filed under a gap-free ordered
    table of `k ≥ |xs|` positions, read back in table order with trailing empties trimmed, give `xs`. -/
theorem slots_roundtrip (xs : List Str) (k : Nat) (hk : xs.length ≤ k) (h : NoTrailingEmpty xs) :
    render (dropTrailing (slots (pieces 0 xs) 0 k)) = xs := by
  rw [slots_pieces 0 xs k hk, dropTrailing_canon_pad xs _ h, render_canon]

example : NoTrailingEmpty ["a".toList, [], "b".toList] ∧ render (dropTrailing (slots (pieces 0 ["a".toList, [], "b".toList]) 0 5)) = ["a".toList, [], "b".toList] := by
  constructor
  · simp [NoTrailingEmpty]
  · decide
end Hl7.Slots
