import Hl7.Lemmas.Groups
/-!
# The group finder is sound: every group it builds is a declared child of the element it is put in

`GSound rows n`: a group node is one of the group rows of `rows`, carrying exactly that row's own rows, and its
children are sound with respect to those.  The zipper invariant `St.Ok` says this of everything built so far
(closed nodes and open frames); every step of `place` preserves it.
-/
namespace Hl7.Msg
open Hl7 Hl7.G

def declGrp (rows : List SRow) (g : String) (grows : List SRow) : Prop := ∃ mn mx, SRow.grp g mn mx grows ∈ rows

variable (P : Pe.Seg → List SRow → Prop)

mutual
def GSound : List SRow → Node → Prop
  | rows, .seg s => P s rows
  | rows, .grp g grows kids => declGrp rows g grows ∧ GSoundL grows kids
def GSoundL : List SRow → List Node → Prop
  | _, [] => True
  | rows, k :: ks => GSound rows k ∧ GSoundL rows ks
end

theorem GSoundL_append (rows : List SRow) (a b : List Node) : GSoundL P rows (a ++ b) ↔ GSoundL P rows a ∧ GSoundL P rows b := by
  induction a with
  | nil => simp [GSoundL]
  | cons x xs ih => simp [GSoundL, ih, and_assoc]

def framesOk (top : List SRow) : List Frame → Prop
  | [] => True
  | [f] => declGrp top f.name f.rows ∧ GSoundL P f.rows f.kids
  | f :: g :: fs => declGrp g.rows f.name f.rows ∧ GSoundL P f.rows f.kids ∧ framesOk top (g :: fs)

def St.Ok (s : St) : Prop := GSoundL P s.topRows s.topKids ∧ framesOk P s.topRows s.frames

/-- the rows a new frame must be declared in -/
theorem framesOk_cons (top : List SRow) (f : Frame) (fs : List Frame) :
    framesOk P top (f :: fs) ↔ declGrp (match fs with | g :: _ => g.rows | [] => top) f.name f.rows ∧ GSoundL P f.rows f.kids ∧ framesOk P top fs := by
  cases fs with
  | nil => simp [framesOk]
  | cons g gs => simp [framesOk]

theorem ok_closeTop (s : St) (h : St.Ok P s) : St.Ok P (closeTop s) ∧ (closeTop s).topRows = s.topRows := by
  unfold closeTop
  cases hf : s.frames with
  | nil => exact ⟨h, rfl⟩
  | cons f fs =>
    obtain ⟨ht, hfr⟩ := h
    rw [hf] at hfr
    cases fs with
    | nil =>
      simp only [framesOk] at hfr
      refine ⟨⟨?_, by simp [framesOk]⟩, rfl⟩
      simp only
      rw [GSoundL_append]
      exact ⟨ht, by simp [GSoundL, GSound, hfr.1, hfr.2]⟩
    | cons g gs =>
      simp only [framesOk] at hfr
      obtain ⟨hd, hk, hrest⟩ := hfr
      refine ⟨⟨ht, ?_⟩, rfl⟩
      simp only
      rw [framesOk_cons] at hrest ⊢
      refine ⟨hrest.1, ?_, hrest.2.2⟩
      simp only
      rw [GSoundL_append]
      exact ⟨hrest.2.1, by simp [GSoundL, GSound, hd, hk]⟩

theorem curRows_eq (s : St) : s.curRows = (match s.frames with | g :: _ => g.rows | [] => s.topRows) := by
  unfold St.curRows; cases s.frames <;> rfl

theorem ok_openFrame (T : Tables) (strict : Bool) (s s' : St) (g : String) (rows : List SRow)
    (ho : openFrame T strict s g rows = .ok s') (h : St.Ok P s) (hd : declGrp s.curRows g rows) :
    St.Ok P s' ∧ s'.topRows = s.topRows ∧ s'.curRows = rows := by
  unfold openFrame at ho
  cases hc : structCheck rows with
  | error e => simp [hc, bind, Except.bind] at ho
  | ok u =>
    simp only [hc, bind, Except.bind] at ho
    have key : ∀ s1 : St, s1 = { s with frames := ⟨g, rows, []⟩ :: s.frames } → St.Ok P s1 ∧ s1.topRows = s.topRows ∧ s1.curRows = rows := by
      intro s1 e; subst e
      refine ⟨⟨h.1, ?_⟩, rfl, rfl⟩
      simp only
      rw [framesOk_cons]
      rw [curRows_eq] at hd
      exact ⟨hd, by simp [GSoundL], h.2⟩
    cases hf : s.frames with
    | nil =>
      simp only [hf, pure, Except.pure] at ho
      cases ho
      have := key { s with frames := ⟨g, rows, []⟩ :: s.frames } rfl
      simpa [hf] using this
    | cons f fs =>
      simp only [hf] at ho
      cases ha : admitChild T strict false (some f.name) (some f.rows) f.kids (.grp g rows []) with
      | error e => simp [ha] at ho
      | ok u2 =>
        simp only [ha, pure, Except.pure] at ho
        cases ho
        have := key { s with frames := ⟨g, rows, []⟩ :: s.frames } rfl
        simpa [hf] using this

theorem ok_addSeg (T : Tables) (strict : Bool) (s s' : St) (sg : Pe.Seg)
    (ha : addNode T strict s (.seg sg) = .ok s') (h : St.Ok P s) (hP : P sg s.curRows) : St.Ok P s' ∧ s'.topRows = s.topRows := by
  unfold addNode at ha
  cases hf : s.frames with
  | nil =>
    simp only [hf, pure, Except.pure] at ha
    cases ha
    refine ⟨⟨?_, by simpa [hf] using h.2⟩, rfl⟩
    simp only
    rw [GSoundL_append]
    have : s.curRows = s.topRows := by unfold St.curRows; simp [hf]
    rw [this] at hP
    exact ⟨h.1, by simp [GSoundL, GSound, hP]⟩
  | cons f fs =>
    simp only [hf] at ha
    cases hadm : admitChild T strict false (some f.name) (some f.rows) f.kids (.seg sg) with
    | error e => simp [hadm, bind, Except.bind] at ha
    | ok u =>
      simp only [hadm, bind, Except.bind, pure, Except.pure] at ha
      cases ha
      refine ⟨⟨h.1, ?_⟩, rfl⟩
      have hfr := h.2
      rw [hf, framesOk_cons] at hfr
      simp only
      rw [framesOk_cons]
      refine ⟨hfr.1, ?_, hfr.2.2⟩
      simp only
      rw [GSoundL_append]
      have : s.curRows = f.rows := by unfold St.curRows; simp [hf]
      rw [this] at hP
      exact ⟨hfr.2.1, by simp [GSoundL, GSound, hP]⟩

/-- a path found by `_get_segment_reference`: each group is a declared group row of the one before, and the last
    level has the segment as a direct row -/
def pathOk (name : String) : List SRow → List (String × List SRow) → Prop
  | rows, [] => direct name rows = some true
  | rows, (g, grows) :: p => declGrp rows g grows ∧ pathOk name grows p

theorem declGrp_cons (r : SRow) (rs : List SRow) (g : String) (grows : List SRow) (h : declGrp rs g grows) : declGrp (r :: rs) g grows := by
  obtain ⟨mn, mx, hm⟩ := h
  exact ⟨mn, mx, List.mem_cons_of_mem _ hm⟩

/-- what the tail search returns is never the empty path, and starts at a group declared in the rows searched -/
def tailOk (name : String) (rs : List SRow) (p : List (String × List SRow)) : Prop :=
  match p with
  | [] => False
  | (g, grows) :: q => declGrp rs g grows ∧ pathOk name grows q

mutual
theorem findInRows_sound (name : String) : ∀ (rows : List SRow) (p : List (String × List SRow)), findInRows name rows = some p → pathOk name rows p
  | [], p, h => by simp [findInRows] at h
  | r :: rs, p, h => by
    unfold findInRows at h
    split at h
    · next hd => cases h; exact hd
    · cases h
    · have lift : tailOk name rs p → pathOk name (r :: rs) p := by
        intro ht
        cases p with
        | nil => exact absurd ht (by simp [tailOk])
        | cons x xs =>
          obtain ⟨g, grows⟩ := x
          exact ⟨declGrp_cons _ _ _ _ ht.1, ht.2⟩
      cases r with
      | grp g mn mx grows =>
        simp only at h
        cases hin : findInRows name grows with
        | some q =>
          simp only [hin] at h
          cases h
          exact ⟨⟨mn, mx, List.mem_cons_self⟩, findInRows_sound name grows q hin⟩
        | none =>
          simp only [hin] at h
          exact lift (findGroupsTail_sound name rs p h)
      | seg n mn mx hr =>
        simp only at h
        exact lift (findGroupsTail_sound name rs p h)
      | other n =>
        simp only at h
        exact lift (findGroupsTail_sound name rs p h)
theorem findGroupsTail_sound (name : String) : ∀ (rs : List SRow) (p : List (String × List SRow)), findGroupsTail name rs = some p → tailOk name rs p
  | [], p, h => by simp [findGroupsTail] at h
  | .grp g mn mx grows :: rs, p, h => by
    unfold findGroupsTail at h
    cases hin : findInRows name grows with
    | some q =>
      simp only [hin] at h
      cases h
      exact ⟨⟨mn, mx, List.mem_cons_self⟩, findInRows_sound name grows q hin⟩
    | none =>
      simp only [hin] at h
      have := findGroupsTail_sound name rs p h
      cases p with
      | nil => exact absurd this (by simp [tailOk])
      | cons x xs => obtain ⟨g', grows'⟩ := x; exact ⟨declGrp_cons _ _ _ _ this.1, this.2⟩
  | .seg n mn mx hr :: rs, p, h => by
    unfold findGroupsTail at h
    have := findGroupsTail_sound name rs p h
    cases p with
    | nil => exact absurd this (by simp [tailOk])
    | cons x xs => obtain ⟨g', grows'⟩ := x; exact ⟨declGrp_cons _ _ _ _ this.1, this.2⟩
  | .other n :: rs, p, h => by
    unfold findGroupsTail at h
    have := findGroupsTail_sound name rs p h
    cases p with
    | nil => exact absurd this (by simp [tailOk])
    | cons x xs => obtain ⟨g', grows'⟩ := x; exact ⟨declGrp_cons _ _ _ _ this.1, this.2⟩
end

/-- opening a found path: the invariant is kept and the innermost open level has the segment as a direct row -/
theorem ok_openPath (T : Tables) (strict : Bool) (name : String) (p : List (String × List SRow)) :
    ∀ (s s' : St), openPath T strict s p = .ok s' → St.Ok P s → pathOk name s.curRows p →
      St.Ok P s' ∧ s'.topRows = s.topRows ∧ direct name s'.curRows = some true := by
  induction p with
  | nil => intro s s' h hok hp; simp [openPath, pure, Except.pure] at h; cases h; exact ⟨hok, rfl, hp⟩
  | cons x xs ih =>
    intro s s' h hok hp
    obtain ⟨g, rows⟩ := x
    unfold openPath at h
    simp only [bind, Except.bind] at h
    cases ho : openFrame T strict s g rows with
    | error e => simp [ho] at h
    | ok s1 =>
      simp only [ho] at h
      obtain ⟨h1, h2, h3⟩ := ok_openFrame P T strict s s1 g rows ho hok hp.1
      have := ih s1 s' h h1 (by rw [h3]; exact hp.2)
      exact ⟨this.1, by rw [this.2.1, h2], this.2.2⟩

/-- every step of the group finder keeps the invariant; `hmk`: the segment built for this line satisfies `P` wherever
    the line's name is a direct segment row -/
theorem place_ok (T : Tables) (strict : Bool) (name : String) (mk : Unit → R Pe.Seg)
    (hmk : ∀ sg, mk () = .ok sg → ∀ rows, direct name rows = some true → P sg rows) (fuel : Nat) :
    ∀ (s s' : St), place T strict name mk fuel s = .ok s' → St.Ok P s → St.Ok P s' ∧ s'.topRows = s.topRows := by
  induction fuel with
  | zero => intro s s' h hok; simp [place, pure, Except.pure] at h; cases h; exact ⟨hok, rfl⟩
  | succ fuel ih =>
    intro s s' h hok
    unfold place at h
    split at h
    · split at h
      · simp [pure, Except.pure] at h; cases h; exact ⟨hok, rfl⟩
      · obtain ⟨hc, ht⟩ := ok_closeTop P s hok
        have := ih (closeTop s) s' h hc
        exact ⟨this.1, by rw [this.2, ht]⟩
    · next hfound =>
      have hdir : direct name s.curRows = some true := findInRows_sound name s.curRows [] hfound
      split at h
      · split at h
        · next f fs hfr hrep =>
          simp only [bind, Except.bind] at h
          obtain ⟨hc, ht⟩ := ok_closeTop P s hok
          have hcur : s.curRows = f.rows := by unfold St.curRows; simp [hfr]
          have hd : declGrp (closeTop s).curRows f.name f.rows := by
            have hf := hok.2
            rw [hfr] at hf
            cases fs with
            | nil =>
              have : (closeTop s).curRows = s.topRows := by unfold closeTop St.curRows; simp [hfr]
              rw [this]; simp only [framesOk] at hf; exact hf.1
            | cons g gs =>
              have : (closeTop s).curRows = g.rows := by unfold closeTop St.curRows; simp [hfr]
              rw [this]; simp only [framesOk] at hf; exact hf.1
          cases ho : openFrame T strict (closeTop s) f.name f.rows with
          | error e => simp [ho] at h
          | ok s2 =>
            simp only [ho] at h
            obtain ⟨h1, h2, h3⟩ := ok_openFrame P T strict _ s2 _ _ ho hc hd
            cases hm : mk () with
            | error e => simp [hm] at h
            | ok sg =>
              simp only [hm] at h
              have := ok_addSeg P T strict s2 s' sg h h1 (hmk sg hm _ (by rw [h3, ← hcur]; exact hdir))
              exact ⟨this.1, by rw [this.2, h2, ht]⟩
        · simp only [bind, Except.bind] at h
          cases hm : mk () with
          | error e => simp [hm] at h
          | ok sg =>
            simp only [hm] at h
            exact ok_addSeg P T strict s s' sg h hok (hmk sg hm _ hdir)
      · simp only [bind, Except.bind] at h
        cases hm : mk () with
        | error e => simp [hm] at h
        | ok sg =>
          simp only [hm] at h
          exact ok_addSeg P T strict s s' sg h hok (hmk sg hm _ hdir)
    · next p hne hp =>
      simp only [bind, Except.bind] at h
      cases ho : openPath T strict s p with
      | error e => simp [ho] at h
      | ok s1 =>
        simp only [ho] at h
        obtain ⟨h1, h2, h3⟩ := ok_openPath P T strict name p s s1 ho hok (findInRows_sound name s.curRows p hp)
        cases hm : mk () with
        | error e => simp [hm] at h
        | ok sg =>
          simp only [hm] at h
          have := ok_addSeg P T strict s1 s' sg h h1 (hmk sg hm _ h3)
          exact ⟨this.1, by rw [this.2, h2]⟩

theorem finish_ok (fuel : Nat) (s : St) (hok : St.Ok P s) (hlen : s.frames.length ≤ fuel) : GSoundL P s.topRows (finish fuel s) := by
  induction fuel generalizing s with
  | zero => unfold finish; exact hok.1
  | succ fuel ih =>
    unfold finish
    cases hf : s.frames with
    | nil => exact hok.1
    | cons f fs =>
      simp only
      obtain ⟨hc, ht⟩ := ok_closeTop P s hok
      have hl : (closeTop s).frames.length ≤ fuel := by
        unfold closeTop
        simp only [hf]
        cases fs with
        | nil => simp
        | cons g gs => simp [hf] at hlen ⊢; omega
      have := ih (closeTop s) hc hl
      rw [ht] at this
      simpa [hf] using this

end Hl7.Msg

namespace Hl7.Msg
open Hl7 Hl7.G

/-- the structure levels a line can still be placed in: the open groups, innermost first, then the message level -/
def St.pathRows (s : St) : List (List SRow) := s.frames.map (·.rows) ++ [s.topRows]

theorem pathRows_closeTop (s : St) (f : Frame) (fs : List Frame) (hf : s.frames = f :: fs) :
    s.pathRows = f.rows :: (closeTop s).pathRows := by
  unfold St.pathRows closeTop
  simp only [hf]
  cases fs with
  | nil => simp
  | cons g gs => simp

theorem ne_append_singleton {α} (l : List α) (x : α) : l ++ [x] ≠ l := by
  intro h
  have := congrArg List.length h
  simp at this

/-- **a line is dropped only when no open level can place it.**  If `place` leaves the segments built so far unchanged although
    the line's segment parses, then the line's name is found neither in the innermost open group, nor in any group around it,
    nor at the message level (finding D4 is exactly this case: the text is accepted and the line silently left out). -/
theorem place_dropped_unplaceable (T : Tables) (strict : Bool) (name : String) (mk : Unit → R Pe.Seg) (fuel : Nat) :
    ∀ (s s' : St), s.frames.length < fuel → place T strict name mk fuel s = .ok s' → s'.flatAll = s.flatAll →
      ∀ rows ∈ s.pathRows, findInRows name rows = none := by
  induction fuel with
  | zero => intro s s' hl; exact absurd hl (Nat.not_lt_zero _)
  | succ fuel ih =>
    intro s s' hl h hsame
    unfold place at h
    split at h
    · next hnone =>
      split at h
      · next hfr =>
        intro rows hr
        have : s.curRows = s.topRows := by unfold St.curRows; simp [hfr]
        simp only [St.pathRows, hfr, List.map_nil, List.nil_append, List.mem_singleton] at hr
        subst hr; rw [← this]; exact hnone
      · next f fs hfr =>
        have hlen : (closeTop s).frames.length < fuel := by
          unfold closeTop
          simp only [hfr]
          cases fs with
          | nil => rw [hfr] at hl; simp at hl ⊢; omega
          | cons g gs => rw [hfr] at hl; simp at hl ⊢; omega
        have hrec := ih (closeTop s) s' hlen h (by rw [hsame, flatAll_closeTop])
        intro rows hr
        rw [pathRows_closeTop s f fs hfr] at hr
        rcases List.mem_cons.mp hr with e | e
        · subst e
          have : s.curRows = f.rows := by unfold St.curRows; simp [hfr]
          rw [← this]; exact hnone
        · exact hrec rows e
    · -- placed directly: the flat list grew, contradiction
      exfalso
      have hgrow : ∃ sg, s'.flatAll = s.flatAll ++ [sg] := by
        have := place_flat T strict name mk (fuel + 1) s s' (by
          unfold place
          rename_i hsome
          simp only [hsome]
          exact h)
        rcases this with hs | ⟨sg, _, hg⟩
        · -- `place_flat` allows "unchanged" in general; here the direct branch always adds
          exact absurd hs (by
            intro _
            -- re-derive from the branch structure
            split at h
            · split at h
              · next f fs hfr hrep =>
                simp only [bind, Except.bind] at h
                cases ho : openFrame T strict (closeTop s) f.name f.rows with
                | error e => simp [ho] at h
                | ok s2 =>
                  simp only [ho] at h
                  cases hm : mk () with
                  | error e => simp [hm] at h
                  | ok sg =>
                    simp only [hm] at h
                    have := flatAll_addNode T strict s2 s' sg h
                    rw [flatAll_openFrame T strict _ s2 _ _ ho, flatAll_closeTop, hsame] at this
                    exact ne_append_singleton _ _ this.symm
              · simp only [bind, Except.bind] at h
                cases hm : mk () with
                | error e => simp [hm] at h
                | ok sg =>
                  simp only [hm] at h
                  have := flatAll_addNode T strict s s' sg h
                  rw [hsame] at this
                  exact ne_append_singleton _ _ this.symm
            · simp only [bind, Except.bind] at h
              cases hm : mk () with
              | error e => simp [hm] at h
              | ok sg =>
                simp only [hm] at h
                have := flatAll_addNode T strict s s' sg h
                rw [hsame] at this
                exact ne_append_singleton _ _ this.symm)
        · exact ⟨sg, hg⟩
      obtain ⟨sg, hg⟩ := hgrow
      rw [hsame] at hg
      exact ne_append_singleton _ _ hg.symm
    · next p hne hp =>
      exfalso
      simp only [bind, Except.bind] at h
      cases ho : openPath T strict s p with
      | error e => simp [ho] at h
      | ok s1 =>
        simp only [ho] at h
        cases hm : mk () with
        | error e => simp [hm] at h
        | ok sg =>
          simp only [hm] at h
          have := flatAll_addNode T strict s1 s' sg h
          rw [flatAll_openPath T strict p s s1 ho, hsame] at this
          exact ne_append_singleton _ _ this.symm

end Hl7.Msg
