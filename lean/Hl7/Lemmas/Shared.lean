/-!
# Interleaving semantics for threads that share state (C19, C16 isolation)

A thread is a local state and a list of atomic steps `σ → ℓ → ℓ × σ`; a schedule is any list of thread
indices.  `sched_invariant`: if every step leaves the shared state as it found it, then under EVERY
schedule the shared state never changes and each thread's eventual result equals its solo result.
-/
namespace Hl7.Shared
/-- a thread: its local state and the remaining atomic steps; each step reads the shared state σ -/
structure Thread (σ ℓ : Type) where
  loc : ℓ
  steps : List (σ → ℓ → ℓ × σ)

variable {σ ℓ : Type}

/-- run one thread alone to completion -/
def runAlone (s : σ) (t : Thread σ ℓ) : ℓ × σ :=
  t.steps.foldl (fun (acc : ℓ × σ) st => st acc.2 acc.1) (t.loc, s)

/-- one scheduling decision: thread `i` performs its next step (no-op if finished / out of range) -/
def stepAt (s : σ) (ts : List (Thread σ ℓ)) (i : Nat) : σ × List (Thread σ ℓ) :=
  match ts[i]? with
  | some t =>
    match t.steps with
    | [] => (s, ts)
    | st :: rest =>
      let (l', s') := st s t.loc
      (s', ts.set i { loc := l', steps := rest })
  | none => (s, ts)

def runSched (s : σ) (ts : List (Thread σ ℓ)) : List Nat → σ × List (Thread σ ℓ)
  | [] => (s, ts)
  | i :: sched => let (s', ts') := stepAt s ts i; runSched s' ts' sched

/-- every step of every thread leaves the shared state as it found it -/
def ReadOnly (ts : List (Thread σ ℓ)) : Prop :=
  ∀ t ∈ ts, ∀ st ∈ t.steps, ∀ s l, (st s l).2 = s

/-- what thread t will compute from here if run alone on shared state s -/
def finalLoc (s : σ) (t : Thread σ ℓ) : ℓ := (runAlone s t).1

theorem runAlone_shared (s : σ) (t : Thread σ ℓ) (h : ∀ st ∈ t.steps, ∀ s l, (st s l).2 = s) :
    (runAlone s t).2 = s := by
  obtain ⟨loc, steps⟩ := t
  unfold runAlone
  simp only at h ⊢
  induction steps generalizing loc with
  | nil => rfl
  | cons st rest ih =>
    simp only [List.foldl_cons]
    have h1 : (st s loc).2 = s := h st (by simp) s loc
    have := ih (st s loc).1 (fun st' hst' => h st' (by simp [hst']))
    rw [show (st s loc) = ((st s loc).1, s) from Prod.ext rfl h1]
    exact this

/-- the schedule-independence invariant: at every point of every schedule, each thread's eventual solo result is unchanged -/
theorem sched_invariant (s : σ) (ts : List (Thread σ ℓ)) (hro : ReadOnly ts) (sched : List Nat) :
    (runSched s ts sched).1 = s ∧
    ((runSched s ts sched).2.map (finalLoc s)) = ts.map (finalLoc s) ∧
    ReadOnly (runSched s ts sched).2 := by
  induction sched generalizing ts with
  | nil => exact ⟨rfl, rfl, hro⟩
  | cons i sched ih =>
    unfold runSched
    unfold stepAt
    cases hi : ts[i]? with
    | none => simpa using ih ts hro
    | some t =>
      cases hst : t.steps with
      | nil => simpa [hst] using ih ts hro
      | cons st rest =>
        have hmem : t ∈ ts := List.mem_of_getElem? hi
        have hs : (st s t.loc).2 = s := hro t hmem st (by simp [hst]) s t.loc
        simp only [hst]
        have hro' : ReadOnly (ts.set i { loc := (st s t.loc).1, steps := rest }) := by
          intro t' ht' st' hst' s' l'
          rcases List.mem_or_eq_of_mem_set ht' with h | h
          · exact hro t' h st' hst' s' l'
          · subst h; exact hro t hmem st' (by simp [hst]; right; exact hst') s' l'
        have hfin : (ts.set i { loc := (st s t.loc).1, steps := rest }).map (finalLoc s) = ts.map (finalLoc s) := by
          rw [List.map_set]
          have : finalLoc s { loc := (st s t.loc).1, steps := rest } = finalLoc s t := by
            obtain ⟨loc, steps⟩ := t
            simp only at hst; subst hst
            simp only [finalLoc, runAlone, List.foldl_cons]
            rw [show (st s loc) = ((st s loc).1, s) from Prod.ext rfl hs]
          rw [this]
          apply List.ext_getElem?
          intro j
          by_cases hij : i = j
          · subst hij
            have hlt : i < ts.length := by
              rcases Nat.lt_or_ge i ts.length with hl | hl
              · exact hl
              · simp [List.getElem?_eq_none hl] at hi
            simp [List.getElem?_set, hi, hlt]
            have := List.getElem?_eq_getElem hlt
            rw [hi] at this; cases this; rfl
          · simp [List.getElem?_set, hij]
        have := ih _ hro'
        rw [show (st s t.loc) = ((st s t.loc).1, s) from Prod.ext rfl hs]
        simp only
        refine ⟨this.1, ?_, this.2.2⟩
        rw [this.2.1, hfin]
end Hl7.Shared
