import Hl7.Model.Heap
/-! Basic facts about single-node updates of the element-graph core. -/
namespace Hl7.Heap

theorem lt_of_get {h : Heap} {i : Nat} {n : Node} (hi : h[i]? = some n) : i < h.length := by
  rcases Nat.lt_or_ge i h.length with hl | hl
  · exact hl
  · simp [List.getElem?_eq_none hl] at hi

theorem get_set_self (h : Heap) (i : Nat) (n : Node) (hi : i < h.length) : (h.set i n)[i]? = some n := by
  simp [List.getElem?_set, hi]
theorem get_set_ne (h : Heap) (i j : Nat) (n : Node) (hij : i ≠ j) : (h.set i n)[j]? = h[j]? := by
  simp [List.getElem?_set, hij]

/-- reading after one update -/
theorem get_modify (h : Heap) (i j : Nat) (f : Node → Node) :
    (modify i f h)[j]? = if i = j then (h[j]?).map f else h[j]? := by
  unfold modify
  split
  · next n hn =>
    by_cases hij : i = j
    · subst hij
      simp [hn, get_set_self h i (f n) (lt_of_get hn)]
    · simp [hij, get_set_ne h i j (f n) hij]
  · next hn =>
    by_cases hij : i = j
    · subst hij; simp [hn]
    · simp [hij]

/-- writing back the node that is already there changes nothing -/
theorem set_same (h : Heap) (i : Nat) (n : Node) (hi : h[i]? = some n) : h.set i n = h := by
  apply List.ext_getElem?
  intro j
  by_cases hij : i = j
  · subst hij; rw [get_set_self h i n (lt_of_get hi), hi]
  · rw [get_set_ne h i j n hij]

theorem modify_modify (h : Heap) (i : Nat) (f g : Node → Node) :
    modify i g (modify i f h) = modify i (fun n => g (f n)) h := by
  unfold modify
  cases hi : h[i]? with
  | none => simp [hi]
  | some n =>
    simp only [hi]
    rw [get_set_self h i (f n) (lt_of_get hi)]
    simp [List.set_set]

theorem modify_id (h : Heap) (i : Nat) (f : Node → Node) (hf : ∀ n, h[i]? = some n → f n = n) : modify i f h = h := by
  unfold modify
  cases hi : h[i]? with
  | none => rfl
  | some n => simp only; rw [hf n hi, set_same h i n hi]

/-- setting a node's pointers and then restoring them gives the heap back -/
theorem setPtr_restore (h : Heap) (c : Nat) (cn : Node) (hc : h[c]? = some cn) (a b : Option Nat) :
    setPtr c cn.parent cn.tparent (setPtr c a b h) = h := by
  unfold setPtr
  rw [modify_modify]
  apply modify_id
  intro n hn
  rw [hc] at hn
  cases hn
  cases cn; rfl

def listOf' (h : Heap) (p : Nat) : List Nat := listOf h p

end Hl7.Heap
