import Hl7.Model.Escape
/-! Helper lemmas about the escape pass (idempotence of the regex pass; DESIGN-appendix B.2) -/
namespace Hl7.Escape
open Py
variable (e : Char) (L : List Char)

theorem ahead_pass (hE : e ∉ L) (p1 : Option Char) (rest : List Char)
    (h : ahead e L rest = true) : ahead e L (escPass e L p1 (some e) rest) = true := by
  match rest, h with
  | l :: e2 :: r, h =>
    simp only [ahead, Bool.and_eq_true, beq_iff_eq] at h
    obtain ⟨hl, he2⟩ := h
    subst he2
    have hl' : l ∈ L := by simpa using hl
    have hle : l ≠ e2 := fun h => hE (h ▸ hl')
    have h1 : escPass e2 L p1 (some e2) (l :: e2 :: r) = l :: escPass e2 L (some e2) (some l) (e2 :: r) := by
      simp [escPass, hle]
    have h2 : escPass e2 L (some e2) (some l) (e2 :: r) = e2 :: escPass e2 L (some l) (some e2) r := by
      simp [escPass, behind, hl']
    rw [h1, h2]; simp [ahead, hl']

theorem pass_idem_aux (hE : e ∉ L) (hEL : 'E' ∈ L) :
    ∀ (s : List Char) (p2 p1 q2 q1 : Option Char),
      q1 = p1 → (p1 ≠ some e → q2 = p2) →
      escPass e L q2 q1 (escPass e L p2 p1 s) = escPass e L p2 p1 s := by
  intro s
  induction s with
  | nil => intros; simp [escPass]
  | cons c rest ih =>
    intro p2 p1 q2 q1 h1 h2
    subst h1
    have hb : behind e L q2 q1 = behind e L p2 q1 := by
      by_cases hq : q1 = some e
      · subst hq
        simp [behind, hE]
      · rw [h2 hq]
    by_cases hc : c = e
    · subst hc
      by_cases hprot : (!behind c L p2 q1 && !ahead c L rest) = true
      · -- unprotected: replaced by c E c
        have hne : 'E' ≠ c := fun h => hE (h ▸ hEL)
        have hb1 : behind c L p2 q1 = false := by
          simp only [Bool.and_eq_true, Bool.not_eq_true'] at hprot; exact hprot.1
        have : escPass c L p2 q1 (c :: rest) = c :: 'E' :: c :: escPass c L q1 (some c) rest := by
          simp [escPass, hprot]
        rw [this]
        have hih := ih q1 (some c) (some 'E') (some c) rfl (by simp)
        simp [escPass, hb, hb1, ahead, behind, hEL, hne, hih]
      · -- protected: kept
        have : escPass c L p2 q1 (c :: rest) = c :: escPass c L q1 (some c) rest := by
          simp [escPass, hprot]
        rw [this]
        have hih := ih q1 (some c) q1 (some c) rfl (by simp)
        have hkeep : (!behind c L q2 q1 && !ahead c L (escPass c L q1 (some c) rest)) = false := by
          rw [hb]
          by_cases hbb : behind c L p2 q1 = true
          · simp [hbb]
          · have ha : ahead c L rest = true := by
              simp only [Bool.and_eq_true, Bool.not_eq_true', not_and, Bool.not_eq_false] at hprot
              simp only [Bool.not_eq_true] at hbb
              exact hprot hbb
            simp [ahead_pass c L hE q1 rest ha]
        simp [escPass, hkeep, hih]
    · have : escPass e L p2 q1 (c :: rest) = c :: escPass e L q1 (some c) rest := by
        simp [escPass, hc]
      rw [this]
      have hih := ih q1 (some c) q1 (some c) rfl (by simp)
      simp [escPass, hc, hih]

theorem pass_idem (hE : e ∉ L) (hEL : 'E' ∈ L) (s : List Char) :
    escPass e L none none (escPass e L none none s) = escPass e L none none s :=
  pass_idem_aux e L hE hEL s none none none none rfl (fun _ => rfl)

end Hl7.Escape
