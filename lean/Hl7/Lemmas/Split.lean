import Hl7.Py.Str
/-! `split`/`join` round-trip lemmas (DESIGN-appendix B.1) -/
namespace Hl7.Py
theorem splitOn_ne_nil (sep : Char) (s : List Char) : splitOn sep s ≠ [] := by
  induction s with
  | nil => simp [splitOn]
  | cons c cs ih =>
    unfold splitOn
    split
    · simp
    · split <;> simp

theorem join_splitOn (sep : Char) (s : List Char) : join sep (splitOn sep s) = s := by
  induction s with
  | nil => simp [splitOn, join]
  | cons c cs ih =>
    unfold splitOn
    split
    · next h =>
      subst h
      cases hs : splitOn c cs with
      | nil => exact absurd hs (splitOn_ne_nil _ _)
      | cons x xs => rw [hs] at ih; simp [join, ih]
    · cases hs : splitOn sep cs with
      | nil => exact absurd hs (splitOn_ne_nil _ _)
      | cons x xs =>
        rw [hs] at ih
        cases xs with
        | nil => simp [join] at ih ⊢; exact ih
        | cons y ys => simp [join] at ih ⊢; exact ih

theorem splitOn_join (sep : Char) (xs : List (List Char)) (hne : xs ≠ [])
    (h : ∀ x ∈ xs, sep ∉ x) : splitOn sep (join sep xs) = xs := by
  induction xs with
  | nil => exact absurd rfl hne
  | cons x rest ih =>
    cases rest with
    | nil =>
      simp [join]
      have hx : sep ∉ x := h x (by simp)
      clear ih h hne
      induction x with
      | nil => simp [splitOn]
      | cons c cs ihc =>
        have hc : c ≠ sep := by intro e; apply hx; simp [e]
        have hcs : sep ∉ cs := by intro e; apply hx; simp [e]
        simp [splitOn, hc, ihc hcs]
    | cons y ys =>
      have hrest := ih (by simp) (fun z hz => h z (by simp [hz]))
      have hx : sep ∉ x := h x (by simp)
      simp only [join]
      clear ih h hne
      induction x with
      | nil => simp [splitOn, hrest]
      | cons c cs ihc =>
        have hc : c ≠ sep := by intro e; apply hx; simp [e]
        have hcs : sep ∉ cs := by intro e; apply hx; simp [e]
        have := ihc hcs
        simp [splitOn, hc]
        rw [this]

end Hl7.Py
