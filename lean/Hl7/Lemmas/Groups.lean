import Hl7.Model.Message
/-!
# The group finder only appends, in document order (DESIGN-appendix B.11, ported to the full model)

`flatAll` = every segment placed so far, in document order, without closing anything.
Each input line either leaves `flatAll` unchanged (the line was dropped: finding D4) or appends the
segment parsed from that very line.
-/
namespace Hl7.Msg
open Hl7 Hl7.G

mutual
def flat : Node → List Pe.Seg
  | .seg s => [s]
  | .grp _ _ ks => flatL ks
def flatL : List Node → List Pe.Seg
  | [] => []
  | t :: ts => flat t ++ flatL ts
end

theorem flatL_append (a b : List Node) : flatL (a ++ b) = flatL a ++ flatL b := by
  induction a with
  | nil => simp [flatL]
  | cons x xs ih => simp [flatL, ih, List.append_assoc]

def pending : List Frame → List Pe.Seg
  | [] => []
  | f :: fs => pending fs ++ flatL f.kids

def St.flatAll (s : St) : List Pe.Seg := flatL s.topKids ++ pending s.frames

theorem flatAll_addNode (T : Tables) (strict : Bool) (s s' : St) (sg : Pe.Seg)
    (h : addNode T strict s (.seg sg) = .ok s') : s'.flatAll = s.flatAll ++ [sg] := by
  unfold addNode at h
  cases hf : s.frames with
  | nil =>
    simp only [hf] at h
    cases h
    simp [St.flatAll, hf, pending, flatL_append, flatL, flat]
  | cons f fs =>
    simp only [hf] at h
    cases ha : admitChild T strict false (some f.name) (some f.rows) f.kids (.seg sg) with
    | error e => simp [ha, bind, Except.bind] at h
    | ok u =>
      simp only [ha, bind, Except.bind, pure, Except.pure] at h
      cases h
      simp [St.flatAll, hf, pending, flatL_append, flatL, flat, List.append_assoc]

theorem flatAll_closeTop (s : St) : (closeTop s).flatAll = s.flatAll := by
  unfold closeTop
  cases hf : s.frames with
  | nil => rfl
  | cons f fs =>
    cases fs with
    | nil => simp [St.flatAll, hf, pending, flatL_append, flatL, flat]
    | cons g gs => simp [St.flatAll, hf, pending, flatL_append, flatL, flat, List.append_assoc]

theorem flatAll_openFrame (T : Tables) (strict : Bool) (s s' : St) (g : String) (rows : List SRow)
    (h : openFrame T strict s g rows = .ok s') : s'.flatAll = s.flatAll := by
  unfold openFrame at h
  cases hc : structCheck rows with
  | error e => simp [hc, bind, Except.bind] at h
  | ok u =>
    simp only [hc, bind, Except.bind] at h
    cases hf : s.frames with
    | nil =>
      simp only [hf, pure, Except.pure] at h
      cases h
      simp [St.flatAll, hf, pending, flatL]
    | cons f fs =>
      simp only [hf] at h
      cases ha : admitChild T strict false (some f.name) (some f.rows) f.kids (.grp g rows []) with
      | error e => simp [ha] at h
      | ok u2 =>
        simp only [ha, pure, Except.pure] at h
        cases h
        simp [St.flatAll, hf, pending, flatL]

theorem flatAll_openPath (T : Tables) (strict : Bool) (p : List (String × List SRow)) :
    ∀ (s s' : St), openPath T strict s p = .ok s' → s'.flatAll = s.flatAll := by
  induction p with
  | nil => intro s s' h; simp [openPath, pure, Except.pure] at h; cases h; rfl
  | cons x xs ih =>
    intro s s' h
    obtain ⟨g, rows⟩ := x
    simp only [openPath, bind, Except.bind] at h
    cases ho : openFrame T strict s g rows with
    | error e => simp [ho] at h
    | ok s1 =>
      simp only [ho] at h
      rw [ih s1 s' h, flatAll_openFrame T strict s s1 g rows ho]

/-- **one line**: it is appended at the end of the document order, or dropped; what is appended is the
    segment parsed from that line -/
theorem place_flat (T : Tables) (strict : Bool) (name : String) (mk : Unit → R Pe.Seg) (fuel : Nat) :
    ∀ (s s' : St), place T strict name mk fuel s = .ok s' →
      s'.flatAll = s.flatAll ∨ ∃ sg, mk () = .ok sg ∧ s'.flatAll = s.flatAll ++ [sg] := by
  induction fuel with
  | zero => intro s s' h; simp [place, pure, Except.pure] at h; cases h; exact Or.inl rfl
  | succ fuel ih =>
    intro s s' h
    unfold place at h
    split at h
    · -- not found at this level
      split at h
      · simp [pure, Except.pure] at h; cases h; exact Or.inl rfl
      · have := ih (closeTop s) s' h
        rw [flatAll_closeTop] at this
        exact this
    · -- direct member
      split at h
      · split at h
        · -- new repetition of the current group
          next f fs hfr hrep =>
          simp only [bind, Except.bind] at h
          cases ho : openFrame T strict (closeTop s) f.name f.rows with
          | error e => simp [ho] at h
          | ok s2 =>
            simp only [ho] at h
            cases hm : mk () with
            | error e => simp [hm] at h
            | ok sg =>
              simp only [hm] at h
              refine Or.inr ⟨sg, rfl, ?_⟩
              rw [flatAll_addNode T strict s2 s' sg h, flatAll_openFrame T strict _ s2 _ _ ho, flatAll_closeTop]
        · simp only [bind, Except.bind] at h
          cases hm : mk () with
          | error e => simp [hm] at h
          | ok sg =>
            simp only [hm] at h
            exact Or.inr ⟨sg, rfl, flatAll_addNode T strict s s' sg h⟩
      · simp only [bind, Except.bind] at h
        cases hm : mk () with
        | error e => simp [hm] at h
        | ok sg =>
          simp only [hm] at h
          exact Or.inr ⟨sg, rfl, flatAll_addNode T strict s s' sg h⟩
    · -- found below: open the path
      next p hne hp =>
      simp only [bind, Except.bind] at h
      cases ho : openPath T strict s p with
      | error e => simp [ho] at h
      | ok s1 =>
        simp only [ho] at h
        cases hm : mk () with
        | error e => simp [hm] at h
        | ok sg =>
          simp only [hm] at h
          refine Or.inr ⟨sg, rfl, ?_⟩
          rw [flatAll_addNode T strict s1 s' sg h, flatAll_openPath T strict p s s1 ho]

theorem finish_flat (fuel : Nat) (s : St) (h : s.frames.length ≤ fuel) :
    flatL (finish fuel s) = s.flatAll := by
  induction fuel generalizing s with
  | zero =>
    have : s.frames = [] := List.length_eq_zero_iff.mp (Nat.le_zero.mp h)
    simp [finish, St.flatAll, this, pending]
  | succ fuel ih =>
    unfold finish
    cases hf : s.frames with
    | nil => simp [St.flatAll, hf, pending]
    | cons f fs =>
      simp only
      have hlen : (closeTop s).frames.length ≤ fuel := by
        unfold closeTop
        simp only [hf]
        cases fs with
        | nil => simp
        | cons g gs => simp [hf] at h ⊢; omega
      have := ih (closeTop s) hlen
      rw [flatAll_closeTop] at this
      simpa [hf] using this

end Hl7.Msg
