import Hl7.Lemmas.HeapCases
/-! The graph invariant of C10 and the two generic preservation lemmas (attach / shrink). -/
namespace Hl7.Heap

/-- **The invariant of C10** on the element graph:
    * no element lists a child twice,
    * every listed child exists and reports the listing element as its parent
      (hence is listed by no other element — `Inv.unique`),
    * a listed child has the validation level and HL7 version of the element that lists it. -/
structure Inv (h : Heap) : Prop where
  nodup : ∀ p, (listOf h p).Nodup
  back : ∀ p c, c ∈ listOf h p → parentOf h c = some p ∧ has h c = true
  same : ∀ p c, c ∈ listOf h p → lvOf h p = lvOf h c

theorem Inv.unique {h : Heap} (inv : Inv h) {p q c : Nat} (hp : c ∈ listOf h p) (hq : c ∈ listOf h q) : p = q := by
  have h1 := (inv.back p c hp).1
  have h2 := (inv.back q c hq).1
  rw [h1] at h2
  exact Option.some.inj h2

/-- a heap on which nothing is listed satisfies the invariant (freshly constructed elements) -/
theorem Inv_of_empty (h : Heap) (he : ∀ p, listOf h p = []) : Inv h :=
  ⟨fun p => by rw [he p]; exact List.nodup_nil, fun p c hc => by rw [he p] at hc; simp at hc,
   fun p c hc => by rw [he p] at hc; simp at hc⟩

/-- generic step: `c` becomes (or stays) a child of `p`; every other list only loses elements and does not hold `c` -/
theorem Inv_attach {h h' : Heap} {p c : Nat} (inv : Inv h)
    (hhas : ∀ i, has h' i = has h i) (hlv : ∀ i, lvOf h' i = lvOf h i)
    (hpar : ∀ x, x ≠ c → parentOf h' x = parentOf h x) (hparc : parentOf h' c = some p)
    (hc : has h c = true) (hlvpc : lvOf h p = lvOf h c)
    (hnd : (listOf h' p).Nodup) (hmem : ∀ y, y ∈ listOf h' p → y = c ∨ y ∈ listOf h p)
    (hoth : ∀ x, x ≠ p → (listOf h' x).Nodup ∧ c ∉ listOf h' x ∧ ∀ y, y ∈ listOf h' x → y ∈ listOf h x) : Inv h' := by
  refine ⟨?_, ?_, ?_⟩
  · intro x
    by_cases hx : x = p
    · subst hx; exact hnd
    · exact (hoth x hx).1
  · intro x y hy
    by_cases hx : x = p
    · subst hx
      by_cases hyc : y = c
      · subst hyc; exact ⟨hparc, by rw [hhas]; exact hc⟩
      · rcases hmem y hy with h1 | h1
        · exact absurd h1 hyc
        · rw [hpar y hyc, hhas]; exact inv.back x y h1
    · obtain ⟨_, hcn, hsub⟩ := hoth x hx
      have hyc : y ≠ c := fun e => hcn (e ▸ hy)
      rw [hpar y hyc, hhas]; exact inv.back x y (hsub y hy)
  · intro x y hy
    rw [hlv, hlv]
    by_cases hx : x = p
    · subst hx
      rcases hmem y hy with h1 | h1
      · subst h1; exact hlvpc
      · exact inv.same x y h1
    · exact inv.same x y ((hoth x hx).2.2 y hy)

/-- generic step: lists only lose elements, the children that stay keep their parent pointer -/
theorem Inv_shrink {h h' : Heap} (inv : Inv h)
    (hhas : ∀ i, has h' i = has h i) (hlv : ∀ i, lvOf h' i = lvOf h i)
    (hl : ∀ x, (listOf h' x).Nodup ∧ ∀ y, y ∈ listOf h' x → y ∈ listOf h x ∧ parentOf h' y = parentOf h y) : Inv h' := by
  refine ⟨fun x => (hl x).1, ?_, ?_⟩
  · intro x y hy
    obtain ⟨h1, h2⟩ := (hl x).2 y hy
    rw [h2, hhas]; exact inv.back x y h1
  · intro x y hy
    rw [hlv, hlv]; exact inv.same x y ((hl x).2 y hy).1

theorem nodup_snoc (l : List Nat) (c : Nat) (hn : l.Nodup) (hc : c ∉ l) : (l ++ [c]).Nodup := by
  rw [List.nodup_append]
  refine ⟨hn, by simp, ?_⟩
  intro a ha b hb
  simp at hb; subst hb
  intro e; subst e; exact hc ha

/-- attach at the end: `detach (old parent) (pushList p c h1)` where `h1` is `h` with `c` pointing at `p` -/
theorem Inv_attach_end {h h1 : Heap} {p c : Nat} (inv : Inv h)
    (hl : ∀ x, listOf h1 x = listOf h x) (hh : ∀ x, has h1 x = has h x) (hv : ∀ x, lvOf h1 x = lvOf h x)
    (hpar : ∀ x, parentOf h1 x = if c = x then some p else parentOf h x)
    (hp : has h p = true) (hc : has h c = true) (hlv : lvOf h p = lvOf h c) :
    Inv (detach (parentOf h c) p c (pushList p c h1)) := by
  have hp1 : has h1 p = true := by rw [hh]; exact hp
  have L : ∀ x, listOf (detach (parentOf h c) p c (pushList p c h1)) x =
      if parentOf h c = some x ∧ x ≠ p then
        (if p = x then (if c ∈ listOf h p then listOf h p else listOf h p ++ [c]) else listOf h x).erase c
      else (if p = x then (if c ∈ listOf h p then listOf h p else listOf h p ++ [c]) else listOf h x) := by
    intro x
    rw [listOf_detach, listOf_pushList' _ _ _ _ hp1, hl, hl]
  apply Inv_attach inv (p := p) (c := c)
  · intro i; simp [hh]
  · intro i; simp [hv]
  · intro x hx
    have : ¬ c = x := fun e => hx e.symm
    simp [hpar, this]
  · simp [hpar]
  · exact hc
  · exact hlv
  · rw [L]; simp only [ne_eq, not_true_eq_false, and_false, if_false, if_true]
    by_cases hm : c ∈ listOf h p
    · simp only [hm, if_true]; exact inv.nodup p
    · simp only [hm, if_false]; exact nodup_snoc _ _ (inv.nodup p) hm
  · intro y hy
    rw [L] at hy; simp only [ne_eq, not_true_eq_false, and_false, if_false, if_true] at hy
    by_cases hm : c ∈ listOf h p
    · simp only [hm, if_true] at hy; exact Or.inr hy
    · simp only [hm, if_false] at hy
      rcases List.mem_append.mp hy with h' | h'
      · exact Or.inr h'
      · simp at h'; exact Or.inl h'
  · intro x hx
    have hpx : ¬ p = x := fun e => hx e.symm
    rw [L]; simp only [hpx, if_false, hx, ne_eq, not_false_eq_true, and_true]
    by_cases hq : parentOf h c = some x
    · simp only [hq, if_true]
      refine ⟨(inv.nodup x).erase c, ?_, fun y hy => List.mem_of_mem_erase hy⟩
      intro hm
      exact ((inv.nodup x).mem_erase_iff.mp hm).1 rfl
    · simp only [hq, if_false]
      refine ⟨inv.nodup x, ?_, fun y hy => hy⟩
      intro hm
      exact hq (inv.back x c hm).1

/-- attach at a position: `insertList p c li (detach (old parent) h1)`, `c` not listed by `p` -/
theorem Inv_attach_at {h h1 : Heap} {p c li : Nat} (inv : Inv h)
    (hl : ∀ x, listOf h1 x = listOf h x) (hh : ∀ x, has h1 x = has h x) (hv : ∀ x, lvOf h1 x = lvOf h x)
    (hpar : ∀ x, parentOf h1 x = if c = x then some p else parentOf h x)
    (hp : has h p = true) (hc : has h c = true) (hlv : lvOf h p = lvOf h c) (hnew : c ∉ listOf h p) :
    Inv (insertList p c li (detach (parentOf h c) p c h1)) := by
  have hp1 : has (detach (parentOf h c) p c h1) p = true := by simp [hh, hp]
  have L : ∀ x, listOf (insertList p c li (detach (parentOf h c) p c h1)) x =
      if p = x then (listOf h p).take li ++ c :: (listOf h p).drop li
      else if parentOf h c = some x ∧ x ≠ p then (listOf h x).erase c else listOf h x := by
    intro x
    rw [listOf_insertList' _ _ _ _ _ hp1, listOf_detach, listOf_detach, hl, hl]
    simp
  apply Inv_attach inv (p := p) (c := c)
  · intro i; simp [hh]
  · intro i; simp [hv]
  · intro x hx
    have : ¬ c = x := fun e => hx e.symm
    simp [hpar, this]
  · simp [hpar]
  · exact hc
  · exact hlv
  · rw [L]; simp only [if_true]
    exact nodup_insert _ _ _ (inv.nodup p) hnew
  · intro y hy
    rw [L] at hy; simp only [if_true] at hy
    exact (mem_insert _ _ _ _).mp hy
  · intro x hx
    have hpx : ¬ p = x := fun e => hx e.symm
    rw [L]; simp only [hpx, if_false, hx, ne_eq, not_false_eq_true, and_true]
    by_cases hq : parentOf h c = some x
    · simp only [hq, if_true]
      refine ⟨(inv.nodup x).erase c, ?_, fun y hy => List.mem_of_mem_erase hy⟩
      intro hm
      exact ((inv.nodup x).mem_erase_iff.mp hm).1 rfl
    · simp only [hq, if_false]
      refine ⟨inv.nodup x, ?_, fun y hy => hy⟩
      intro hm
      exact hq (inv.back x c hm).1

/-- what admission establishes, in terms of the observations -/
theorem admission_ok_lv (R : Rules) (p c : Nat) (h : Heap) (u : Unit) (ha : (admission R p c h).2 = .ok u) :
    lvOf h p = lvOf h c ∧ has h p = true ∧ has h c = true := by
  obtain ⟨pn, cn, hp, hc, h1, h2⟩ := admission_ok R p c h u ha
  rw [lvOf_eq h p pn hp, lvOf_eq h c cn hc, h1, h2]
  exact ⟨rfl, has_of_get hp, has_of_get hc⟩

end Hl7.Heap
