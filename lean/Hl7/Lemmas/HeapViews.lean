import Hl7.Lemmas.Heap
/-! How each primitive heap update changes the three observations used by the C09/C10 theorems:
    the child list of a node (`listOf`), the parent pointer (`parentOf`) and level/version (`lvOf`). -/
namespace Hl7.Heap

def lvOf (h : Heap) (i : Nat) : Option (Nat × Nat) := match h[i]? with | some n => some (n.level, n.version) | none => none

theorem listOf_modify (h : Heap) (i p : Nat) (f : Node → Node) :
    listOf (modify i f h) p = if i = p then (match h[p]? with | some n => (f n).list | none => []) else listOf h p := by
  unfold listOf
  rw [get_modify]
  by_cases hip : i = p
  · subst hip; cases h[i]? <;> simp
  · simp [hip]

theorem parentOf_modify (h : Heap) (i c : Nat) (f : Node → Node) :
    parentOf (modify i f h) c = if i = c then (match h[c]? with | some n => (f n).parent | none => none) else parentOf h c := by
  unfold parentOf
  rw [get_modify]
  by_cases hip : i = c
  · subst hip; cases h[i]? <;> simp
  · simp [hip]

theorem lvOf_modify (h : Heap) (i c : Nat) (f : Node → Node)
    (hf : ∀ n, (f n).level = n.level ∧ (f n).version = n.version) : lvOf (modify i f h) c = lvOf h c := by
  unfold lvOf
  rw [get_modify]
  by_cases hip : i = c
  · subst hip
    cases hh : h[i]? with
    | none => simp
    | some n => simp [(hf n).1, (hf n).2]
  · simp [hip]

/-- updates that keep every parent pointer -/
theorem parentOf_modify_keep (h : Heap) (i c : Nat) (f : Node → Node) (hf : ∀ n, (f n).parent = n.parent) :
    parentOf (modify i f h) c = parentOf h c := by
  rw [parentOf_modify]
  by_cases hip : i = c
  · subst hip; unfold parentOf; cases h[i]? <;> simp [hf]
  · simp [hip]

/-- updates that keep every child list -/
theorem listOf_modify_keep (h : Heap) (i p : Nat) (f : Node → Node) (hf : ∀ n, (f n).list = n.list) :
    listOf (modify i f h) p = listOf h p := by
  rw [listOf_modify]
  by_cases hip : i = p
  · subst hip; unfold listOf; cases h[i]? <;> simp [hf]
  · simp [hip]

/-! ### `setPtr` -/
@[simp] theorem listOf_setPtr (h : Heap) (c p : Nat) (a b : Option Nat) : listOf (setPtr c a b h) p = listOf h p :=
  listOf_modify_keep h c p _ (fun _ => rfl)
@[simp] theorem lvOf_setPtr (h : Heap) (c i : Nat) (a b : Option Nat) : lvOf (setPtr c a b h) i = lvOf h i :=
  lvOf_modify h c i _ (fun _ => ⟨rfl, rfl⟩)
theorem parentOf_setPtr (h : Heap) (c x : Nat) (a b : Option Nat) (cn : Node) (hc : h[c]? = some cn) :
    parentOf (setPtr c a b h) x = if c = x then a else parentOf h x := by
  unfold setPtr
  rw [parentOf_modify]
  by_cases hcx : c = x
  · subst hcx; simp [hc]
  · simp [hcx]

/-! ### list updates keep pointers and level/version -/
@[simp] theorem parentOf_pushList (h : Heap) (p c x : Nat) : parentOf (pushList p c h) x = parentOf h x :=
  parentOf_modify_keep h p x _ (fun n => by by_cases hh : c ∈ n.list <;> simp [hh])
@[simp] theorem parentOf_eraseList (h : Heap) (p c x : Nat) : parentOf (eraseList p c h) x = parentOf h x :=
  parentOf_modify_keep h p x _ (fun _ => rfl)
@[simp] theorem parentOf_insertList (h : Heap) (p c li x : Nat) : parentOf (insertList p c li h) x = parentOf h x :=
  parentOf_modify_keep h p x _ (fun _ => rfl)
@[simp] theorem parentOf_detach (h : Heap) (q : Option Nat) (p c x : Nat) : parentOf (detach q p c h) x = parentOf h x := by
  unfold detach
  cases q with
  | none => rfl
  | some q => by_cases hq : q = p <;> simp [hq]

@[simp] theorem lvOf_pushList (h : Heap) (p c x : Nat) : lvOf (pushList p c h) x = lvOf h x :=
  lvOf_modify h p x _ (fun n => by by_cases hh : c ∈ n.list <;> simp [hh])
@[simp] theorem lvOf_eraseList (h : Heap) (p c x : Nat) : lvOf (eraseList p c h) x = lvOf h x :=
  lvOf_modify h p x _ (fun _ => ⟨rfl, rfl⟩)
@[simp] theorem lvOf_insertList (h : Heap) (p c li x : Nat) : lvOf (insertList p c li h) x = lvOf h x :=
  lvOf_modify h p x _ (fun _ => ⟨rfl, rfl⟩)
@[simp] theorem lvOf_detach (h : Heap) (q : Option Nat) (p c x : Nat) : lvOf (detach q p c h) x = lvOf h x := by
  unfold detach
  cases q with
  | none => rfl
  | some q => by_cases hq : q = p <;> simp [hq]

/-! ### list updates on the lists -/
theorem listOf_pushList (h : Heap) (p c x : Nat) (pn : Node) (hp : h[p]? = some pn) :
    listOf (pushList p c h) x = if p = x then (if c ∈ pn.list then pn.list else pn.list ++ [c]) else listOf h x := by
  unfold pushList
  rw [listOf_modify]
  by_cases hpx : p = x
  · subst hpx
    simp only [hp, if_true]
    by_cases hh : c ∈ pn.list <;> simp [hh]
  · simp [hpx]

theorem listOf_eraseList (h : Heap) (p c x : Nat) :
    listOf (eraseList p c h) x = if p = x then (listOf h x).erase c else listOf h x := by
  unfold eraseList
  rw [listOf_modify]
  by_cases hpx : p = x
  · subst hpx; unfold listOf; cases h[p]? <;> simp
  · simp [hpx]

theorem listOf_insertList (h : Heap) (p c li x : Nat) (pn : Node) (hp : h[p]? = some pn) :
    listOf (insertList p c li h) x = if p = x then pn.list.take li ++ c :: pn.list.drop li else listOf h x := by
  unfold insertList
  rw [listOf_modify]
  by_cases hpx : p = x
  · subst hpx; simp [hp]
  · simp [hpx]

theorem listOf_detach (h : Heap) (q : Option Nat) (p c x : Nat) :
    listOf (detach q p c h) x = if q = some x ∧ x ≠ p then (listOf h x).erase c else listOf h x := by
  unfold detach
  cases q with
  | none => simp
  | some q =>
    by_cases hq : q = p
    · subst hq
      by_cases hx : q = x
      · subst hx; simp
      · simp [hx]
    · simp only [hq, if_false]
      rw [listOf_eraseList]
      by_cases hx : q = x
      · subst hx; simp [hq]
      · simp [hx]

theorem listOf_eq (h : Heap) (p : Nat) (pn : Node) (hp : h[p]? = some pn) : listOf h p = pn.list := by
  unfold listOf; simp [hp]
theorem parentOf_eq (h : Heap) (c : Nat) (cn : Node) (hc : h[c]? = some cn) : parentOf h c = cn.parent := by
  unfold parentOf; simp [hc]

/-- the presence of a node survives every update -/
theorem isSome_modify (h : Heap) (i j : Nat) (f : Node → Node) : ((modify i f h)[j]?).isSome = (h[j]?).isSome := by
  rw [get_modify]
  by_cases hij : i = j
  · subst hij; cases h[i]? <;> simp
  · simp [hij]

/-! ### presence of nodes -/
def has (h : Heap) (i : Nat) : Bool := (h[i]?).isSome
theorem has_of_get {h : Heap} {i : Nat} {n : Node} (hi : h[i]? = some n) : has h i = true := by simp [has, hi]
@[simp] theorem has_modify (h : Heap) (i j : Nat) (f : Node → Node) : has (modify i f h) j = has h j := isSome_modify h i j f
@[simp] theorem has_setPtr (h : Heap) (c j : Nat) (a b : Option Nat) : has (setPtr c a b h) j = has h j := has_modify ..
@[simp] theorem has_pushList (h : Heap) (p c j : Nat) : has (pushList p c h) j = has h j := has_modify ..
@[simp] theorem has_eraseList (h : Heap) (p c j : Nat) : has (eraseList p c h) j = has h j := has_modify ..
@[simp] theorem has_insertList (h : Heap) (p c li j : Nat) : has (insertList p c li h) j = has h j := has_modify ..
@[simp] theorem has_detach (h : Heap) (q : Option Nat) (p c j : Nat) : has (detach q p c h) j = has h j := by
  unfold detach
  cases q with
  | none => rfl
  | some q => by_cases hq : q = p <;> simp [hq]

/-! ### edits of the traversal index only -/
theorem listOf_tidx (h : Heap) (p x : Nat) (g : Node → List Nat) :
    listOf (modify p (fun n => { n with tidx := g n }) h) x = listOf h x := listOf_modify_keep h p x _ (fun _ => rfl)
theorem parentOf_tidx (h : Heap) (p x : Nat) (g : Node → List Nat) :
    parentOf (modify p (fun n => { n with tidx := g n }) h) x = parentOf h x := parentOf_modify_keep h p x _ (fun _ => rfl)

/-! ### `untrav` changes only the traversal index -/
@[simp] theorem listOf_untrav (h : Heap) (t : Option Nat) (p c x : Nat) : listOf (untrav t p c h) x = listOf h x := by
  unfold untrav; split
  · exact listOf_modify_keep h p x _ (fun _ => rfl)
  · rfl
@[simp] theorem parentOf_untrav (h : Heap) (t : Option Nat) (p c x : Nat) : parentOf (untrav t p c h) x = parentOf h x := by
  unfold untrav; split
  · exact parentOf_modify_keep h p x _ (fun _ => rfl)
  · rfl
@[simp] theorem lvOf_untrav (h : Heap) (t : Option Nat) (p c x : Nat) : lvOf (untrav t p c h) x = lvOf h x := by
  unfold untrav; split
  · exact lvOf_modify h p x _ (fun _ => ⟨rfl, rfl⟩)
  · rfl
@[simp] theorem has_untrav (h : Heap) (t : Option Nat) (p c j : Nat) : has (untrav t p c h) j = has h j := by
  unfold untrav; split
  · exact has_modify ..
  · rfl

theorem listOf_pushList' (h : Heap) (p c x : Nat) (hp : has h p = true) :
    listOf (pushList p c h) x = if p = x then (if c ∈ listOf h p then listOf h p else listOf h p ++ [c]) else listOf h x := by
  unfold has at hp
  cases hh : h[p]? with
  | none => simp [hh] at hp
  | some pn => rw [listOf_pushList h p c x pn hh, listOf_eq h p pn hh]

theorem listOf_insertList' (h : Heap) (p c li x : Nat) (hp : has h p = true) :
    listOf (insertList p c li h) x = if p = x then (listOf h p).take li ++ c :: (listOf h p).drop li else listOf h x := by
  unfold has at hp
  cases hh : h[p]? with
  | none => simp [hh] at hp
  | some pn => rw [listOf_insertList h p c li x pn hh, listOf_eq h p pn hh]

theorem parentOf_setPtr' (h : Heap) (c x : Nat) (a b : Option Nat) (hc : has h c = true) :
    parentOf (setPtr c a b h) x = if c = x then a else parentOf h x := by
  unfold has at hc
  cases hh : h[c]? with
  | none => simp [hh] at hc
  | some cn => exact parentOf_setPtr h c x a b cn hh

theorem lvOf_eq (h : Heap) (i : Nat) (n : Node) (hi : h[i]? = some n) : lvOf h i = some (n.level, n.version) := by
  unfold lvOf; simp [hi]

/-! ### list facts -/
theorem take_drop_erase_set (l : List Nat) (a b : Nat) (ha : a ∈ l) :
    (l.erase a).take (l.idxOf a) ++ b :: (l.erase a).drop (l.idxOf a) = l.set (l.idxOf a) b := by
  induction l with
  | nil => simp at ha
  | cons x xs ih =>
    by_cases hx : x = a
    · subst hx; simp
    · have ha' : a ∈ xs := by
        rcases List.mem_cons.mp ha with h' | h'
        · exact absurd h'.symm hx
        · exact h'
      have hx' : (x == a) = false := by simp [hx]
      rw [List.erase_cons, List.idxOf_cons]
      simp only [hx', cond_false, Bool.false_eq_true, if_false]
      simp [ih ha']

theorem take_drop_erase_self (l : List Nat) (a : Nat) (ha : a ∈ l) :
    (l.erase a).take (l.idxOf a) ++ a :: (l.erase a).drop (l.idxOf a) = l := by
  rw [take_drop_erase_set l a a ha]
  induction l with
  | nil => simp at ha
  | cons x xs ih =>
    by_cases hx : x = a
    · subst hx; simp
    · have ha' : a ∈ xs := by
        rcases List.mem_cons.mp ha with h' | h'
        · exact absurd h'.symm hx
        · exact h'
      have hx' : (x == a) = false := by simp [hx]
      rw [List.idxOf_cons]
      simp only [hx', cond_false]
      simp [ih ha']

/-- on a duplicate-free list, editing the first occurrence is the reference model's in-place replacement -/
theorem set_idxOf_eq_specReplace (l : List Nat) (a b : Nat) (hn : l.Nodup) (ha : a ∈ l) :
    l.set (l.idxOf a) b = specReplace l a b := by
  unfold specReplace
  induction l with
  | nil => simp at ha
  | cons x xs ih =>
    have hnx := (List.nodup_cons.mp hn)
    by_cases hx : x = a
    · subst hx
      have : ∀ y ∈ xs, (if y = x then b else y) = y := by
        intro y hy
        have : y ≠ x := fun e => hnx.1 (e ▸ hy)
        simp [this]
      simp [List.map_congr_left this]
    · have ha' : a ∈ xs := by
        rcases List.mem_cons.mp ha with h' | h'
        · exact absurd h'.symm hx
        · exact h'
      have hx' : (x == a) = false := by simp [hx]
      rw [List.idxOf_cons]
      simp only [hx', cond_false]
      simp [hx, ih hnx.2 ha']

theorem nodup_insert (l : List Nat) (c li : Nat) (hn : l.Nodup) (hc : c ∉ l) : (l.take li ++ c :: l.drop li).Nodup := by
  have h1 : (l.take li ++ l.drop li).Nodup := by rw [List.take_append_drop]; exact hn
  rw [List.nodup_append] at h1 ⊢
  refine ⟨h1.1, ?_, ?_⟩
  · rw [List.nodup_cons]
    exact ⟨fun hm => hc (List.mem_of_mem_drop hm), h1.2.1⟩
  · intro a ha b hb
    rcases List.mem_cons.mp hb with hb | hb
    · subst hb; intro e; subst e; exact hc (List.mem_of_mem_take ha)
    · exact h1.2.2 a ha b hb

theorem mem_insert (l : List Nat) (c li x : Nat) : x ∈ l.take li ++ c :: l.drop li ↔ x = c ∨ x ∈ l := by
  constructor
  · intro hx
    rcases List.mem_append.mp hx with hx | hx
    · exact Or.inr (List.mem_of_mem_take hx)
    · rcases List.mem_cons.mp hx with hx | hx
      · exact Or.inl hx
      · exact Or.inr (List.mem_of_mem_drop hx)
  · intro hx
    rcases hx with hx | hx
    · subst hx; simp
    · have : x ∈ l.take li ++ l.drop li := by rw [List.take_append_drop]; exact hx
      rcases List.mem_append.mp this with h' | h'
      · exact List.mem_append_left _ h'
      · exact List.mem_append_right _ (List.mem_cons_of_mem _ h')

end Hl7.Heap
