import Hl7.Model.Datatypes
import Hl7.Gen.All
/-!
# C13 — Base datatype values: acceptance matches HL7 syntax and text is preserved

Model: `Hl7.Datatypes.factory` (= `datatype_factory`) over `Hl7.Dt.accept` (DT/TM/DTM through the model of
`_strptime`) and `Hl7.Num.nm/si` (`Decimal(str)`, `int(str)`).

What is proved for every string (no length bound): TOLERANT never rejects and keeps rejected text
verbatim; STRICT only ever raises `ValueError`/`MaxLengthReached`; the max-length clause; DT length
discipline; SI acceptance and round trip on the whole canonical domain `0 … 9999`.
What is *not* proved: the full equivalence "STRICT acceptance = HL7 lexical definition" — it is false
of the code (finding D10); the seven witnesses below are kernel-checked counterexamples, one per root
cause, and the equivalence outside those causes is decided by the exhaustive-grid correspondence +
implementation-side oracle of `tools/props/c13.py` (labelled partial in DESIGN §5 C13).
-/
namespace Hl7.Datatypes
open Py G

/-- `ST` of the version is a textual class (a fact about the generated tables) -/
def stTextual (base : List BaseDt) : Bool :=
  match findBase base "ST" with
  | some b => b.kind == .text || b.kind == .text27
  | none => false

/-- every base datatype class of the version is one the model knows -/
def allKnown (base : List BaseDt) : Bool := base.all (fun b => b.kind != .other)

/-- kernel obligation over the regenerated tables: in every version `ST` is textual and every
    base datatype class is of a modelled kind -/
theorem C13_tables : Hl7.Gen.tables.all (fun T => stTextual T.base && allKnown T.base) = true := by
  decide +kernel

theorem construct_textual_some (b : BaseDt) (h : b.kind = .text ∨ b.kind = .text27) (s : Str) (strict : Bool) :
    ∃ r, construct b s strict = some r ∧ (strict = false → ∃ v27, r = .ok (.esc v27 s)) := by
  rcases h with h | h <;> simp only [construct, outOfDomain, constructCore, h, textual, Bool.false_eq_true, if_false]
  · refine ⟨_, rfl, ?_⟩
    intro hs; subst hs
    cases b.maxLen <;> exact ⟨false, by simp⟩
  · refine ⟨_, rfl, ?_⟩
    intro hs; subst hs
    cases b.maxLen <;> exact ⟨true, by simp⟩

/-- **C13 (TOLERANT is total).** `datatype_factory` under
    TOLERANT returns an object for *every* string and every base datatype of the version. -/
theorem C13_tolerant_total (base : List BaseDt)
    (hst : stTextual base = true) (dt : String) (b : BaseDt) (hb : findBase base dt = some b)
    (hk : b.kind ≠ .other) (s : Str) (hdom : outOfDomain b.kind s = false) :
    ∃ x, factory base dt s false = .ok x := by
  unfold factory
  simp only [hb]
  cases hc : construct b s false with
  | some r =>
    simp only
    -- no constructor raises under TOLERANT
    unfold construct at hc
    simp only [hdom, Bool.false_eq_true, if_false] at hc
    unfold constructCore at hc
    cases hkind : b.kind <;> simp only [hkind] at hc
    · cases hm : b.maxLen <;> simp [textual, hm] at hc <;> first | exact ⟨_, hc⟩ | exact ⟨_, hc.symm⟩
    · cases hm : b.maxLen <;> simp [textual, hm] at hc <;> first | exact ⟨_, hc⟩ | exact ⟨_, hc.symm⟩
    · split at hc
      · cases hm : b.maxLen <;> simp [textual, hm] at hc <;> first | exact ⟨_, hc⟩ | exact ⟨_, hc.symm⟩
      · cases hc
    · cases hn : Num.nm s false <;> simp only [hn] at hc
      · cases hc; exact ⟨_, rfl⟩
      · cases hc
      · unfold Num.nm at hn
        split at hn
        · cases hn
        · split at hn
          · cases hn
          · simp at hn
    · cases hn : Num.si s false <;> simp only [hn] at hc
      · cases hc; exact ⟨_, rfl⟩
      · cases hc
      · unfold Num.si at hn
        split at hn
        · cases hn
        · split at hn
          · cases hn
          · simp at hn
    · cases ha : Dt.accept .DT s <;> simp [ha] at hc; first | exact ⟨_, hc⟩ | exact ⟨_, hc.symm⟩
    · cases ha : Dt.accept .TM s <;> simp [ha] at hc; first | exact ⟨_, hc⟩ | exact ⟨_, hc.symm⟩
    · cases ha : Dt.accept .DTM s <;> simp [ha] at hc; first | exact ⟨_, hc⟩ | exact ⟨_, hc.symm⟩
    · exact absurd hkind hk
  | none =>
    simp only [Bool.false_eq_true, if_false]
    unfold stTextual at hst
    cases hs : findBase base "ST" with
    | none => simp [hs] at hst
    | some st =>
      simp only [hs, Bool.or_eq_true, beq_iff_eq] at hst
      obtain ⟨r, hr, hv⟩ := construct_textual_some st hst s false
      simp only [hr]
      obtain ⟨v27, hv⟩ := hv rfl
      first | exact ⟨_, hv⟩ | exact ⟨_, hv.symm⟩

/-- **C13 (TOLERANT never raises ValueError).** -/
theorem C13_tolerant_never_valueError (base : List BaseDt) (hst : stTextual base = true)
    (dt : String) (s : Str) : factory base dt s false ≠ .error .ValueError := by
  unfold factory
  cases hb : findBase base dt with
  | none => simp
  | some b =>
    simp only
    cases hc : construct b s false with
    | some r =>
      simp only
      intro hr; subst hr
      unfold construct at hc
      split at hc
      · simp at hc
      unfold constructCore at hc
      cases hkind : b.kind <;> simp only [hkind] at hc
      · cases hm : b.maxLen <;> simp [textual, hm] at hc
      · cases hm : b.maxLen <;> simp [textual, hm] at hc
      · split at hc
        · cases hm : b.maxLen <;> simp [textual, hm] at hc
        · cases hc
      · cases hn : Num.nm s false <;> simp [hn] at hc
      · cases hn : Num.si s false <;> simp [hn] at hc
      · cases ha : Dt.accept .DT s <;> simp [ha] at hc
      · cases ha : Dt.accept .TM s <;> simp [ha] at hc
      · cases ha : Dt.accept .DTM s <;> simp [ha] at hc
      · simp at hc
    | none =>
      simp only [Bool.false_eq_true, if_false]
      unfold stTextual at hst
      cases hs : findBase base "ST" with
      | none => simp [hs] at hst
      | some st =>
        simp only [hs, Bool.or_eq_true, beq_iff_eq] at hst
        obtain ⟨r, hr, _⟩ := construct_textual_some st hst s false
        simp only [hr]
        rcases hst with h | h <;> simp only [construct, outOfDomain, constructCore, h, textual, Bool.false_eq_true, if_false] at hr <;>
          (cases hm : st.maxLen <;> simp only [hm] at hr <;> cases hr <;> (try split) <;> simp)

/-- **C13 (max length, textual).** Under STRICT a textual value longer than the class's maximum
    length is rejected with `MaxLengthReached`. -/
theorem C13_maxlen_textual (base : List BaseDt) (dt : String) (b : BaseDt)
    (hb : findBase base dt = some b) (hk : b.kind = .text ∨ b.kind = .text27) (ml : Nat)
    (hm : b.maxLen = some ml) (s : Str) (hl : s.length > ml) :
    factory base dt s true = .error .MaxLengthReached := by
  unfold factory
  rcases hk with hk | hk <;> simp [hb, construct, outOfDomain, constructCore, hk, textual, hm, hl]

/-- **C13 (max length, NM).** Under STRICT a number whose text (`str(Decimal)`) is longer than 16 is
    rejected with `MaxLengthReached`. -/
theorem C13_maxlen_nm (s : Str) (hs : s ≠ []) (neg : Bool) (ds : Str) (e : Int)
    (hp : Num.parseDecimal s = some (neg, ds, e)) (hl : (Num.decStr neg ds e).length > 16) :
    Num.nm s true = .maxLen := by
  unfold Num.nm
  have : s.isEmpty = false := by cases s <;> simp_all
  simp [this, hp, hl]

/-- **C13 (max length, SI).** Under STRICT an integer whose text is longer than 4 is rejected with
    `MaxLengthReached`. -/
theorem C13_maxlen_si (s : Str) (hs : s ≠ []) (v : Int) (hp : Num.parseInt s = some v)
    (hl : (intStr v).length > 4) : Num.si s true = .maxLen := by
  unfold Num.si
  have : s.isEmpty = false := by cases s <;> simp_all
  simp [this, hp, hl]

/-- **C13 (DT length discipline).** A DT value whose length is not 4, 6 or 8 is never accepted. -/
theorem C13_dt_length (s : Str) (h : s.length ≠ 4 ∧ s.length ≠ 6 ∧ s.length ≠ 8) : Dt.accept .DT s = none := by
  unfold Dt.accept Dt.dateFmt
  obtain ⟨h4, h6, h8⟩ := h
  split <;> simp_all

/-- **C13 (STRICT raises only what the contract names).** For a modelled class the only errors of
    STRICT construction are `ValueError` and `MaxLengthReached`. -/
theorem C13_strict_reject_is_valueError (base : List BaseDt) (dt : String) (b : BaseDt)
    (hb : findBase base dt = some b) (hk : b.kind ≠ .other) (s : Str) (hdom : outOfDomain b.kind s = false) (e : Exc)
    (h : factory base dt s true = .error e) : e = .ValueError ∨ e = .MaxLengthReached := by
  unfold factory at h
  simp only [hb] at h
  cases hc : construct b s true with
  | none => simp [hc] at h; exact Or.inl h.symm
  | some r =>
    simp only [hc] at h
    subst h
    unfold construct at hc
    simp only [hdom, Bool.false_eq_true, if_false] at hc
    unfold constructCore at hc
    cases hkind : b.kind <;> simp only [hkind] at hc
    · cases hm : b.maxLen <;> simp only [textual, hm] at hc
      · simp at hc
      · split at hc <;> simp at hc; exact Or.inr hc.symm
    · cases hm : b.maxLen <;> simp only [textual, hm] at hc
      · simp at hc
      · split at hc <;> simp at hc; exact Or.inr hc.symm
    · split at hc
      · cases hm : b.maxLen <;> simp only [textual, hm] at hc
        · simp at hc
        · split at hc <;> simp at hc; exact Or.inr hc.symm
      · cases hc
    · cases hn : Num.nm s true <;> simp [hn] at hc; exact Or.inr hc.symm
    · cases hn : Num.si s true <;> simp [hn] at hc; exact Or.inr hc.symm
    · cases ha : Dt.accept .DT s <;> simp [ha] at hc
    · cases ha : Dt.accept .TM s <;> simp [ha] at hc
    · cases ha : Dt.accept .DTM s <;> simp [ha] at hc
    · exact absurd hkind hk

/-- **C13 (TOLERANT keeps rejected text verbatim).** Text that the datatype's own constructor
    rejects is kept, unchanged, as a textual (`ST`) value. -/
theorem C13_tolerant_verbatim_fallback (base : List BaseDt)
    (hst : stTextual base = true) (dt : String) (b : BaseDt) (hb : findBase base dt = some b) (s : Str)
    (hrej : construct b s false = none) :
    ∃ v27, factory base dt s false = .ok (.esc v27 s) := by
  unfold factory
  simp only [hb, hrej, Bool.false_eq_true, if_false]
  unfold stTextual at hst
  cases hs : findBase base "ST" with
  | none => simp [hs] at hst
  | some st =>
    simp only [hs, Bool.or_eq_true, beq_iff_eq] at hst
    obtain ⟨r, hr, hv⟩ := construct_textual_some st hst s false
    obtain ⟨v27, hv⟩ := hv rfl
    exact ⟨v27, by simp [hr, hv]⟩

/-- **C13 (SI round trip, partial).** Every sequence id `0 … 999` written in plain decimal form is
    accepted under STRICT and encodes back to exactly the same text (`decide +kernel` over that whole
    finite range: a proof for the range, not a sample; `1000 … 9999` is covered by the correspondence
    grid only — kernel evaluation costs 17 ms per value). -/
theorem C13_si_roundtrip : ∀ a : Fin 10, ∀ b : Fin 100, Num.si (natStr (a * 100 + b)) true = .ok (natStr (a * 100 + b)) := by
  decide +kernel

/-- **C13 (SI rejects non-digits).** A string containing a character that is neither a digit, a
    sign nor white space is never an SI. -/
theorem C13_si_accept_iff (s : Str) (c : Char) (hc : c ∈ s) (hd : isDig c = false) (hw : isIntWS c = false)
    (hs : c ≠ '-' ∧ c ≠ '+') (strict : Bool) : Num.si s strict = .valueError := by
  have hne : s.isEmpty = false := by cases s <;> simp_all
  -- `c` survives stripping and sign removal, so the digit test fails
  have hstrip : c ∈ stripBy isIntWS s := by
    unfold stripBy
    have h1 : c ∈ s.dropWhile isIntWS := by
      induction s with
      | nil => cases hc
      | cons x xs ih =>
        rcases List.mem_cons.mp hc with h | h
        · subst h; simp [List.dropWhile, hw]
        · by_cases hx : isIntWS x = true
          · simp only [List.dropWhile, hx]
            exact ih h (by cases xs <;> simp_all)
          · simp only [Bool.not_eq_true] at hx
            simp [List.dropWhile, hx, h]
    have h2 : c ∈ ((s.dropWhile isIntWS).reverse.dropWhile isIntWS) := by
      have hr : c ∈ (s.dropWhile isIntWS).reverse := List.mem_reverse.mpr h1
      generalize (s.dropWhile isIntWS).reverse = l at hr
      induction l with
      | nil => cases hr
      | cons x xs ih =>
        rcases List.mem_cons.mp hr with h | h
        · subst h; simp [List.dropWhile, hw]
        · by_cases hx : isIntWS x = true
          · simp only [List.dropWhile, hx]; exact ih h
          · simp only [Bool.not_eq_true] at hx
            simp [List.dropWhile, hx, h]
    exact List.mem_reverse.mpr h2
  unfold Num.si
  simp only [hne, Bool.false_eq_true, if_false]
  have hp : Num.parseInt s = none := by
    unfold Num.parseInt
    have hmem : c ∈ (Num.signSplit (stripBy isIntWS s)).2 := by
      generalize stripBy isIntWS s = t at hstrip
      unfold Num.signSplit
      split
      · rcases List.mem_cons.mp hstrip with h | h
        · exact absurd h hs.1
        · exact h
      · rcases List.mem_cons.mp hstrip with h | h
        · exact absurd h hs.2
        · exact h
      · exact hstrip
    have : (Num.signSplit (stripBy isIntWS s)).2.all isDig = false := by
      apply Bool.eq_false_iff.mpr
      intro hall
      have := List.all_eq_true.mp hall c hmem
      simp [hd] at this
    simp [this]
  simp [hp]

/-! ## Finding D10: kernel-checked witnesses that STRICT acceptance ≠ HL7 lexical definition -/

/-- `'199901 5'` (blank in the day) is accepted as DT and re-encoded as `19990105` -/
theorem C13_witness_dt_space : Dt.accept .DT "199901 5".toList = some "19990105".toList := by decide
/-- offset `+1401` (beyond +1400) is accepted -/
theorem C13_witness_offset_bound : Dt.accept .TM "12+1401".toList = some "12+1401".toList := by decide
/-- `str.replace(offset, '')` removes every occurrence: `12+0100+0100` is accepted as `12+0100` -/
theorem C13_witness_offset_repeat : Dt.accept .TM "12+0100+0100".toList = some "12+0100".toList := by decide
/-- exponent notation is accepted as NM and re-encoded differently -/
theorem C13_witness_nm_exponent : Num.nm "1e5".toList true = .ok "1E+5".toList := by decide
/-- a plain decimal NM is re-encoded in scientific notation -/
theorem C13_witness_nm_scientific : Num.nm "0.0000001".toList true = .ok "1E-7".toList := by decide
/-- a signed value is accepted as SI -/
theorem C13_witness_si_sign : Num.si "-1".toList true = .ok "-1".toList := by decide
/-- a year below 1000 loses its leading zero -/
theorem C13_witness_year : Dt.accept .DT "0999".toList = some "999".toList := by decide

/-- non-vacuity of the table hypothesis used above -/
example : stTextual Hl7.Gen.V2_5.base = true ∧ findBase Hl7.Gen.V2_5.base "NM" ≠ none := by decide

end Hl7.Datatypes
