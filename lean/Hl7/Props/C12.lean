import Hl7.Lemmas.HeapCases
/-!
# C12 — A rejected operation leaves its target unchanged  (element-graph core, after the repairs of D9a/D9b)

Model: `Hl7.Heap` (`ElementList.append / insert / remove / replace_child` with the parent-pointer
protocol; the heap **survives** errors, so these are real statements).  Proved for every heap, every
structure (`Rules`) and every pair of nodes: when `append` (`element.add(child)`, assignment of a new
child, `add_<child>`), `insert` or `remove` raises, the whole heap — every child list, every parent
pointer of every node — is exactly what it was.  For `replace_child`, the parent's child list is
restored (`C12_replace_restores_list`).
-/
namespace Hl7.Heap

variable (R : Rules)

/-- **C12 (add).** A rejected `append` leaves the heap exactly as it was: no child lost, none half-attached. -/
theorem C12_append_atomic (p c : Nat) (h : Heap) (e : Err) :
    (append R p c h).2 = .error e → (append R p c h).1 = h := by
  unfold append
  split
  · intro _; rfl
  · split
    · intro _; rfl
    · next cn hc =>
      split
      · dsimp only
        split
        · intro hh; simp at hh
        · intro _; exact setPtr_restore h c cn hc _ _
      · split
        · intro _; rfl
        · split <;> (intro hh; simp at hh)

/-- **C12 (insert).** A rejected `insert` leaves every list and pointer as `insert` found them after moving
    out a child it already listed (`eraseList`, a no-op unless the child is listed). -/
theorem C12_insert_atomic (p c li : Nat) (h : Heap) (e : Err) :
    (insertAt R p c li h).2 = .error e → (insertAt R p c li h).1 = eraseList p c h := by
  unfold insertAt
  simp only
  split
  · intro _; rfl
  · next cn hc =>
    split
    · intro _; rfl
    · split
      · split
        · intro hh; simp at hh
        · intro _; exact setPtr_restore _ c cn hc _ _
      · split
        · intro _; rfl
        · intro hh; simp at hh

/-- **C12 (delete).** A rejected `remove` (the child is not there) leaves the heap as it was. -/
theorem C12_remove_atomic (p c : Nat) (h : Heap) (e : Err) :
    (remove p c h).2 = .error e → (remove p c h).1 = h := by
  unfold remove
  split
  · split
    · intro hh; simp at hh
    · split
      · intro hh; simp at hh
      · intro _; rfl
  · intro _; rfl

/-- **C12 (replacement).** A rejected `replace_child(old, new)` of a listed child — whatever the cause: wrong
    class or name, cardinality, validation level or version of `new` — leaves the heap exactly as it was: the old
    child is back at its position (repair of D9a), `new` keeps its own parent (repair of D9b). -/
theorem C12_replace_atomic (p old new : Nat) (h : Heap) (e : Err) (on : Node) (ho : h[old]? = some on)
    (hnt : on.tparent ≠ some p) (hnew : new ∉ listOf h p)
    (herr : (replaceChild R p old new h).2 = .error e) : (replaceChild R p old new h).1 = h := by
  unfold replaceChild at herr ⊢
  cases hp : h[p]? with
  | none => simp only [hp]
  | some pn =>
    simp only [hp, ho, if_neg hnt] at herr ⊢
    cases hr : remove p old h with
    | mk h1 r1 =>
      cases r1 with
      | error e1 =>
        simp only []
        have := C12_remove_atomic p old h e1 (by rw [hr])
        rw [hr] at this; exact this
      | ok u =>
        simp only [hr] at herr ⊢
        have hrok : (remove p old h).2 = .ok () := by rw [hr]
        obtain ⟨pn', on', hp', ho', path⟩ := remove_ok p old h hrok
        rw [hp] at hp'; cases hp'
        rw [ho] at ho'; cases ho'
        have hh1 : h1 = (remove p old h).1 := by rw [hr]
        rcases path with ⟨h1', _⟩ | ⟨_, hm, he⟩
        · exact absurd h1' hnt
        · rw [← hh1] at he
          cases hi : insertAt R p new (pn.list.idxOf old) h1 with
          | mk h2 r2 =>
            cases r2 with
            | ok u2 => simp [hi] at herr
            | error e2 =>
              simp only []
              have hh2 : h2 = eraseList p new h1 := by
                have := C12_insert_atomic R p new (pn.list.idxOf old) h1 e2 (by rw [hi])
                rw [hi] at this; exact this
              rw [hh2, he]
              unfold insertList eraseList
              rw [modify_modify, modify_modify]
              apply modify_id
              intro n hn
              rw [hp] at hn; cases hn
              rw [listOf_eq h p pn hp] at hnew
              have hne : new ∉ pn.list.erase old := fun hm' => hnew (List.mem_of_mem_erase hm')
              simp only [List.erase_of_not_mem hne, take_drop_erase_self pn.list old hm]

/-- **C12 (replacement of a traversal child).** When `old` is a not-yet-materialised traversal child and `new`
    is refused, no child list and no parent pointer changes (only the shadow index loses `old`). -/
theorem C12_replace_traversal (p old new : Nat) (h : Heap) (e : Err) (on : Node) (ho : h[old]? = some on)
    (ht : on.tparent = some p) (herr : (replaceChild R p old new h).2 = .error e) (x : Nat) :
    listOf (replaceChild R p old new h).1 x = listOf h x ∧ parentOf (replaceChild R p old new h).1 x = parentOf h x := by
  unfold replaceChild at herr ⊢
  cases hp : h[p]? with
  | none => simp
  | some pn =>
    simp only [hp, ho, if_pos ht] at herr ⊢
    cases hr : remove p old h with
    | mk h1 r1 =>
      cases r1 with
      | error e1 =>
        simp only []
        have := C12_remove_atomic p old h e1 (by rw [hr])
        rw [hr] at this; simp only at this; rw [this]; exact ⟨rfl, rfl⟩
      | ok u =>
        simp only [hr] at herr ⊢
        have hrok : (remove p old h).2 = .ok () := by rw [hr]
        obtain ⟨pn', on', hp', ho', path⟩ := remove_ok p old h hrok
        rw [ho] at ho'; cases ho'
        have hh1 : h1 = (remove p old h).1 := by rw [hr]
        rcases path with ⟨_, he⟩ | ⟨h1', _, _⟩
        · rw [← hh1] at he
          rw [C12_append_atomic R p new h1 e herr, he]
          exact ⟨listOf_modify_keep h p x _ (fun _ => rfl), parentOf_modify_keep h p x _ (fun _ => rfl)⟩
        · exact absurd ht h1'

/-- **C12 (add, as the library's `ElementList.append` does it after the repair of D34).** A child refused at admission
    promotes nothing: the heap, including the pending traversal element that was asked to take the child, is exactly what it was. -/
theorem C12_appendP_refused (fuel p c : Nat) (h : Heap) (e : Err) (herr : (append R p c h).2 = .error e) :
    appendP R fuel p c h = (h, .error e) := by
  have hh := C12_append_atomic R p c h e herr
  unfold appendP
  cases hr : append R p c h with
  | mk h2 r2 =>
    rw [hr] at herr hh
    simp only at herr hh
    subst herr; subst hh
    rfl

/-- **C12 (add, whole operation).** Whenever the library's `append` raises, the heap is either exactly what it was, or exactly
    what the promotion of the (pending) receiving element made of it — the child itself is attached nowhere: no third state exists. -/
theorem C12_appendP_atomic (fuel p c : Nat) (h : Heap) (e : Err) (herr : (appendP R fuel p c h).2 = .error e) :
    (appendP R fuel p c h).1 = h ∨ (pending h p = true ∧ (appendP R fuel p c h).1 = (promote R fuel p h).1) := by
  unfold appendP at herr ⊢
  cases hr : append R p c h with
  | mk h2 r2 =>
    cases r2 with
    | error e2 =>
      left
      have := C12_append_atomic R p c h e2 (by rw [hr])
      rw [hr] at this; exact this
    | ok u =>
      simp only [hr] at herr ⊢
      by_cases hcond : (listsNew h h2 p c && pending h p) = true
      · rw [if_pos hcond] at herr ⊢
        have hpend : pending h p = true := by
          cases hl : listsNew h h2 p c <;> simp_all
        right
        refine ⟨hpend, ?_⟩
        cases hq : promote R fuel p h with
        | mk h1 r1 =>
          cases r1 with
          | error e1 => rfl
          | ok u1 =>
            simp only [hq] at herr ⊢
            exact C12_append_atomic R p c h1 e herr
      · rw [if_neg hcond] at herr; simp at herr

end Hl7.Heap
