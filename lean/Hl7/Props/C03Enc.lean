import Hl7.Props.C03Casc
import Hl7.Props.C07Casc
/-!
# C03 — inside a segment, at every depth: what is read is written back

`C03_parse_keeps_every_piece` (Props/C03Casc) says the parsed tree holds every piece of the text, in order.  This file proves the other half on
the same cascade model (`Hl7.Casc`, compared with the real element tree under C01): `C03_encode_keeps_every_piece` — for every list of levels
with pairwise distinct separators and every text that fits the widths, canonical or not, `enc (parse s)` consists of the same pieces as `s`.
Trimming trailing empties, padding, and filing under positions never lose or reorder content.  The lemmas before `Fits` are helpers
(splitting, slots under a map, rendering); the property theorem is the last one.
-/
namespace Hl7.Casc
open Hl7 Hl7.Py Hl7.Slots Hl7.C07
open Hl7.C02 (sepOf)

theorem splitOn_no_sep (c : Char) : ∀ (s : Str) (x : Str), x ∈ splitOn c s → c ∉ x
  | [], x, h => by simp [splitOn] at h; subst h; simp
  | d :: ds, x, h => by
    unfold splitOn at h
    split at h
    · rcases List.mem_cons.mp h with e | e
      · subst e; simp
      · exact splitOn_no_sep c ds x e
    · next hd =>
      cases hs : splitOn c ds with
      | nil => exact absurd hs (splitOn_ne_nil c ds)
      | cons y ys =>
        rw [hs] at h
        simp only [List.mem_cons] at h
        rcases h with e | e
        · subst e
          have := splitOn_no_sep c ds y (by rw [hs]; simp)
          intro hm
          rcases List.mem_cons.mp hm with e' | e'
          · exact hd e'.symm
          · exact this e'
        · exact splitOn_no_sep c ds x (by rw [hs]; simp [e])

theorem mem_join_of_mem (c : Char) : ∀ (xs : List Str) (x : Str) (ch : Char), x ∈ xs → ch ∈ x → ch ∈ join c xs
  | [], _, _, h, _ => by simp at h
  | [y], x, ch, h, hc => by simp at h; subst h; simpa [join] using hc
  | y :: z :: zs, x, ch, h, hc => by
    simp only [join, List.mem_append, List.mem_cons]
    rcases List.mem_cons.mp h with e | e
    · subst e; exact Or.inl hc
    · exact Or.inr (Or.inr (mem_join_of_mem c (z :: zs) x ch e hc))

theorem mem_of_mem_splitOn (c : Char) (s x : Str) (ch : Char) (hx : x ∈ splitOn c s) (hc : ch ∈ x) : ch ∈ s := by
  have := mem_join_of_mem c (splitOn c s) x ch hx hc
  rwa [join_splitOn] at this

theorem pieces_mem (i : Nat) (xs : List Str) : ∀ p ∈ pieces i xs, p.2 ∈ xs ∧ p.2 ≠ [] := by
  induction xs generalizing i with
  | nil => simp [pieces]
  | cons x xs ih =>
    intro p hp
    unfold pieces at hp
    split at hp
    · have := ih (i+1) p hp; exact ⟨by simp [this.1], this.2⟩
    · rcases List.mem_cons.mp hp with e | e
      · subst e; exact ⟨by simp, by assumption⟩
      · have := ih (i+1) p e; exact ⟨by simp [this.1], this.2⟩

/-- the characters of the leaves of a parsed text are characters of the text -/
theorem leafChars_parse : ∀ (ls : List Lvl) (s : Str) (ch : Char), ch ∈ leafChars ls (parse ls s) → ch ∈ s
  | [], s, ch, h => by simpa [leafChars, parse] using h
  | .pos c w :: ls, s, ch, h => by
    simp only [leafChars, parse, List.mem_flatMap, List.mem_map] at h
    obtain ⟨q, ⟨p, hp, rfl⟩, hq⟩ := h
    have := leafChars_parse ls p.2 ch hq
    exact mem_of_mem_splitOn c s p.2 ch (pieces_mem 0 _ p hp).1 this
  | .rep c :: ls, s, ch, h => by
    simp only [leafChars, parse, List.mem_flatMap, List.mem_map] at h
    obtain ⟨t, ⟨x, hx, rfl⟩, ht⟩ := h
    exact mem_of_mem_splitOn c s x ch hx (leafChars_parse ls x ch ht)

/-- every character of `enc (parse s)` is a separator of one of the levels or a character of `s` -/
theorem enc_parse_chars (ls : List Lvl) (s : Str) (ch : Char) (h : ch ∈ enc ls (parse ls s)) : ch ∈ ls.map sepOf ∨ ch ∈ s := by
  rcases C07_only_own_separators ls _ ch h with h' | h'
  · exact Or.inl h'
  · exact Or.inr (leafChars_parse ls s ch h')
end Hl7.Casc

namespace Hl7.Casc
open Hl7 Hl7.Py Hl7.Slots Hl7.C07
open Hl7.C02 (sepOf)

theorem slots_map (g : Str → Str) (cs : List (Nat × Str)) : ∀ (i k : Nat),
    slots (cs.map (fun p => (p.1, g p.2))) i k = (slots cs i k).map (·.map g)
  | _, 0 => by simp [slots]
  | i, k+1 => by
    simp only [slots, List.map_cons, slots_map g cs (i+1) k, List.filter_map, List.map_map]
    congr 1

theorem flatMap_id_dropTrailing : ∀ (gs : List (List Str)), (Slots.dropTrailing gs).flatMap id = gs.flatMap id
  | [] => by simp [Slots.dropTrailing]
  | g :: gs => by
    have ih := flatMap_id_dropTrailing gs
    unfold Slots.dropTrailing
    cases hd : Slots.dropTrailing gs with
    | nil =>
      rw [hd] at ih
      simp only [List.flatMap_nil] at ih
      by_cases hg : g = []
      · subst hg; simp [← ih]
      · simp [hg, ← ih]
    | cons r rs =>
      rw [hd] at ih
      simp only [List.flatMap_cons, id, ih]

theorem filter_render (gs : List (List Str)) : (render gs).filter (· ≠ []) = (gs.flatMap id).filter (· ≠ []) := by
  induction gs with
  | nil => simp [render]
  | cons g gs ih =>
    simp only [render, List.flatMap_cons, List.filter_append, id] at ih ⊢
    rw [ih]
    by_cases hg : g = []
    · subst hg; simp
    · simp [hg]

theorem canon_flatMap (g : Str → Str) (xs : List Str) :
    ((canon xs).map (·.map g)).flatMap id = (xs.filter (· ≠ [])).map g := by
  induction xs with
  | nil => simp [canon]
  | cons x xs ih =>
    simp only [canon, List.map_cons, List.flatMap_cons, id] at ih ⊢
    by_cases hx : x = []
    · subst hx; simpa using ih
    · simp only [hx, ↓reduceIte, List.map_cons, List.map_nil, List.cons_append, List.nil_append, ne_eq, not_false_eq_true,
        decide_true, List.filter_cons_of_pos]
      rw [ih]

theorem join_eq_nil (c : Char) : ∀ (zs : List Str), join c zs = [] → zs = [] ∨ zs = [[]]
  | [], _ => Or.inl rfl
  | [x], h => by simp [join] at h; subst h; exact Or.inr rfl
  | x :: y :: ys, h => by simp [join] at h

/-- the non-empty pieces of the text written back by a positional level are the non-empty encodings of the non-empty input pieces -/
theorem pos_pieces (g : Str → Str) (c : Char) (w : Nat) (xs : List Str) (hw : xs.length ≤ w)
    (hc : ∀ x ∈ xs, c ∉ g x) :
    (splitOn c (join c (render (Slots.dropTrailing (slots ((pieces 0 xs).map (fun p => (p.1, g p.2))) 0 w))))).filter (· ≠ [])
      = ((xs.filter (· ≠ [])).map g).filter (· ≠ []) := by
  have hz : (render (Slots.dropTrailing (slots ((pieces 0 xs).map (fun p => (p.1, g p.2))) 0 w))).filter (· ≠ [])
      = ((xs.filter (· ≠ [])).map g).filter (· ≠ []) := by
    rw [filter_render, flatMap_id_dropTrailing, slots_map, slots_pieces 0 xs w hw, List.map_append, List.flatMap_append, canon_flatMap]
    simp
  generalize hzs : render (Slots.dropTrailing (slots ((pieces 0 xs).map (fun p => (p.1, g p.2))) 0 w)) = zs at hz ⊢
  by_cases hne : zs = []
  · subst hne
    simp only [join, splitOn] at hz ⊢
    simpa using hz
  · rw [splitOn_join c zs hne ?_, hz]
    intro z hz'
    rw [← hzs] at hz'
    rcases mem_render _ z hz' with e | ⟨gr, hgr, hzg⟩
    · subst e; simp
    · obtain ⟨p, hp, hpv⟩ := mem_slots _ 0 w gr (mem_dropTrailing _ gr hgr) z hzg
      obtain ⟨q, hq, rfl⟩ := List.mem_map.mp hp
      simp only at hpv
      subst hpv
      exact hc q.2 (pieces_mem 0 xs q hq).1
end Hl7.Casc

namespace Hl7.Casc
open Hl7 Hl7.Py Hl7.Slots Hl7.C07
open Hl7.C02 (sepOf)

/-- the text stays within the widths of the positional levels (no piece beyond the table), at every depth -/
def Fits : List Lvl → Str → Prop
  | [], _ => True
  | .pos c w :: ls, s => (splitOn c s).length ≤ w ∧ ∀ x ∈ splitOn c s, Fits ls x
  | .rep c :: ls, s => ∀ x ∈ splitOn c s, Fits ls x

theorem tokens_nil_pos (c : Char) (w : Nat) (ls : List Lvl) : tokens (.pos c w :: ls) [] = [] := by
  simp [tokens, splitOn]

theorem tokens_nil_rep (c : Char) (ls : List Lvl) : tokens (.rep c :: ls) [] = tokens ls [] := by
  simp [tokens, splitOn]

/-- an encoding is empty only for the empty text, or below a positional level (where the empty text has no token) -/
theorem enc_parse_nil : ∀ (ls : List Lvl) (s : Str), enc ls (parse ls s) = [] → s = [] ∨ tokens ls [] = []
  | [], s, h => by simp [enc, parse] at h; exact Or.inl h
  | .pos c w :: ls, _, _ => Or.inr (tokens_nil_pos c w ls)
  | .rep c :: ls, s, h => by
    simp only [enc, parse, List.map_map] at h
    rcases join_eq_nil c _ h with e | e
    · exact absurd (List.map_eq_nil_iff.mp e) (splitOn_ne_nil c s)
    · cases hs : splitOn c s with
      | nil => exact absurd hs (splitOn_ne_nil c s)
      | cons x xs =>
        rw [hs] at e
        cases xs with
        | cons y ys => simp at e
        | nil =>
          simp only [List.map_cons, List.map_nil, Function.comp, List.cons.injEq, and_true] at e
          have hsx : s = x := by
            have := join_splitOn c s
            rw [hs] at this
            simpa [join] using this.symm
          rcases enc_parse_nil ls x e with h1 | h1
          · exact Or.inl (by rw [hsx, h1])
          · exact Or.inr (by rw [tokens_nil_rep]; exact h1)

theorem flatMap_filter_map (g : Str → Str) (tk : Str → List Str) : ∀ (ys : List Str),
    (∀ y ∈ ys, (g y ≠ [] → tk (g y) = tk y) ∧ (g y = [] → tk y = [])) →
    ((ys.map g).filter (· ≠ [])).flatMap tk = ys.flatMap tk
  | [], _ => by simp
  | y :: ys, h => by
    have ih := flatMap_filter_map g tk ys (fun z hz => h z (by simp [hz]))
    have hy := h y (by simp)
    have ih' : List.flatMap tk (List.filter (fun x => !decide (x = [])) (List.map g ys)) = List.flatMap tk ys := by
      simpa using ih
    by_cases e : g y = []
    · simp [e, ih', hy.2 e]
    · simp [e, ih', hy.1 e]

/-- **C03 (inside a segment, every depth): encoding gives every piece back.** For every list of levels with pairwise distinct separators
    and every text that stays within the widths of its positional levels — canonical or not: trailing empty pieces, empty repetitions,
    components made of separators only — the text written back by `enc ∘ parse` consists of exactly the same pieces, in the same order, as the
    text that was read.  (With `C03_parse_keeps_every_piece`: what is in the text is in the tree, and what is in the tree is in the encoding.) -/
theorem C03_encode_keeps_every_piece : ∀ (ls : List Lvl), (ls.map sepOf).Nodup → ∀ (s : Str), Fits ls s →
    tokens ls (enc ls (parse ls s)) = tokens ls s
  | [], _, s, _ => by simp [enc, parse]
  | .pos c w :: ls, hnd, s, hf => by
    have hnd' : (ls.map sepOf).Nodup := (List.nodup_cons.mp hnd).2
    have hcn : c ∉ ls.map sepOf := (List.nodup_cons.mp hnd).1
    have ih := C03_encode_keeps_every_piece ls hnd'
    obtain ⟨hw, hfx⟩ := hf
    have hc : ∀ x ∈ splitOn c s, c ∉ enc ls (parse ls x) := by
      intro x hx hm
      rcases enc_parse_chars ls x c hm with h1 | h1
      · exact hcn h1
      · exact splitOn_no_sep c s x hx h1
    have hkids : ((pieces 0 (splitOn c s)).map (fun p => (p.1, parse ls p.2))).map (fun p => (p.1, enc ls p.2))
        = (pieces 0 (splitOn c s)).map (fun p => (p.1, (fun x => enc ls (parse ls x)) p.2)) := by
      simp [List.map_map, Function.comp]
    simp only [enc, parse, tokens]
    rw [hkids, pos_pieces (fun x => enc ls (parse ls x)) c w (splitOn c s) hw hc]
    apply flatMap_filter_map
    intro y hy
    have hy' := List.mem_filter.mp hy
    have hyne : y ≠ [] := by simpa using hy'.2
    have hih := ih y (hfx y hy'.1)
    refine ⟨fun _ => hih, fun e => ?_⟩
    rcases enc_parse_nil ls y e with h1 | h1
    · exact absurd h1 hyne
    · rw [← hih, e, h1]
  | .rep c :: ls, hnd, s, hf => by
    have hnd' : (ls.map sepOf).Nodup := (List.nodup_cons.mp hnd).2
    have hcn : c ∉ ls.map sepOf := (List.nodup_cons.mp hnd).1
    have ih := C03_encode_keeps_every_piece ls hnd'
    simp only [enc, parse, tokens, List.map_map]
    rw [splitOn_join c _ (by simpa using splitOn_ne_nil c s)]
    · rw [List.flatMap_map]
      have hfx : ∀ x ∈ splitOn c s, Fits ls x := hf
      generalize splitOn c s = xs at hfx
      induction xs with
      | nil => simp
      | cons x xs ihx =>
        have h2 := ihx (fun z hz => hfx z (by simp [hz]))
        simp only [List.flatMap_cons, Function.comp] at h2 ⊢
        rw [ih x (hfx x (by simp)), h2]
    · intro z hz
      obtain ⟨x, hx, rfl⟩ := List.mem_map.mp hz
      intro hm
      rcases enc_parse_chars ls x c hm with h1 | h1
      · exact hcn h1
      · exact splitOn_no_sep c s x hx h1

/-- non-vacuity: a non-canonical field body (trailing empty component, a repetition made of separators only) fits the four ER7 levels of
    a segment body and has tokens -/
example : tokens [.pos '|' 5, .rep '~', .pos '^' 3, .pos '&' 2] "a^b&c^|~^^|x".toList = ["a".toList, "b".toList, "c".toList, "x".toList] := by decide
end Hl7.Casc
