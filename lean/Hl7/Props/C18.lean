import Hl7.Model.ProfileMsg
/-!
# C18 — A message profile replaces the standard structure wherever it speaks

In the model a profile is the standard tables with its deviations applied (`Prof.applyAll edits T`) and every
function of the model — parser, group finder, admission checks, validator, encoders — takes the tables as a
parameter and has no other source of structure knowledge.  So "children take datatype, cardinality and allowed
children from the profile" and "validate judges against the profile" hold in the model by construction: the
theorems of C01–C05, C08, C14 are stated for an arbitrary `T` and therefore for `applyAll edits T`.  That the
*implementation* threads the profile's reference down every creation path is what the correspondence
(real library given the synthesised profile vs model given `applyAll edits T`) and the creation-path oracle decide.

Proved here: the selection clauses (absent → `MessageProfileNotFound`, legacy → `LegacyMessageProfile`, both after
the header errors, as in the code), what an edit changes and what it leaves alone, and that a profile restating
the standard changes nothing.
-/
namespace Hl7.Prof
open Hl7 Hl7.G Hl7.Py

/-- a profile lacking the message's structure: `MessageProfileNotFound` (for every text whose header parses) -/
theorem C18_not_found (tables : List Tables) (d : Defaults) (p : Profile) (text : Str) (strict fg : Bool)
    (ec : EC) (st ver : Option Str) (hinfo : Msg.getMessageInfo (lstrip text) = .ok (ec, st, ver))
    (h : slotOf p st = .absent) :
    parseMessageP tables d p text strict fg = .error .MessageProfileNotFound := by
  unfold parseMessageP
  simp [hinfo, bind, Except.bind, h, select]

/-- a legacy-format entry: `LegacyMessageProfile` (repair of finding D29 makes the parser do what `Message()` does) -/
theorem C18_legacy (tables : List Tables) (d : Defaults) (p : Profile) (text : Str) (strict fg : Bool)
    (ec : EC) (st ver : Option Str) (hinfo : Msg.getMessageInfo (lstrip text) = .ok (ec, st, ver))
    (h : slotOf p st = .legacy) :
    parseMessageP tables d p text strict fg = .error .LegacyMessageProfile := by
  unfold parseMessageP
  simp [hinfo, bind, Except.bind, h, select]

/-- a bad header fails as without a profile, before the profile is looked at -/
theorem C18_header_first (tables : List Tables) (d : Defaults) (p : Profile) (text : Str) (strict fg : Bool) (e : Exc)
    (hinfo : Msg.getMessageInfo (lstrip text) = .error e) : parseMessageP tables d p text strict fg = .error e := by
  unfold parseMessageP
  simp [hinfo, bind, Except.bind]

/-- with an entry present, parsing is the standard parser run on the profiled tables -/
theorem C18_present (tables : List Tables) (d : Defaults) (p : Profile) (text : Str) (strict fg : Bool)
    (ec : EC) (st ver : Option Str) (hinfo : Msg.getMessageInfo (lstrip text) = .ok (ec, st, ver))
    (h : slotOf p st = .present) :
    parseMessageP tables d p text strict fg = Msg.parseMessage (tables.map (applyAll p.edits)) d text strict fg := by
  unfold parseMessageP
  simp [hinfo, bind, Except.bind, h, select]

theorem map_id' {α} (l : List α) : l.map (fun x => x) = l := by simp

/-- **a profile that merely restates the standard structure changes nothing**: no deviations, same tables, hence
    the same parse, the same children, the same validation report -/
theorem C18_restating (tables : List Tables) (d : Defaults) (keys : List (String × Bool)) (text : Str) (strict fg : Bool)
    (ec : EC) (st ver : Option Str) (hinfo : Msg.getMessageInfo (lstrip text) = .ok (ec, st, ver))
    (h : slotOf ⟨keys, []⟩ st = .present) :
    parseMessageP tables d ⟨keys, []⟩ text strict fg = Msg.parseMessage tables d text strict fg := by
  rw [C18_present tables d ⟨keys, []⟩ text strict fg ec st ver hinfo h]
  have : tables.map (applyAll ([] : List Edit)) = tables := by
    have : (applyAll ([] : List Edit)) = fun T => T := by funext T; rfl
    rw [this]; exact map_id' tables
  simp only [this]

/-! ### what an edit changes, and what it leaves alone -/

theorem editRows_other (child : String) (f : Row → Option Row) (rows : List Row) (r : Row) (hr : r ∈ rows) (hn : r.name ≠ child) :
    r ∈ editRows child f rows := by
  unfold editRows
  rw [List.mem_filterMap]
  exact ⟨r, hr, by simp [hn]⟩

theorem editRows_card (child : String) (mn : Nat) (mx : Int) (rows : List Row) (r : Row)
    (hr : r ∈ editRows child (fun r => some { r with min := mn, max := mx }) rows) (hn : r.name = child) :
    r.min = mn ∧ r.max = mx := by
  unfold editRows at hr
  rw [List.mem_filterMap] at hr
  obtain ⟨a, _, ha⟩ := hr
  by_cases hc : a.name = child
  · simp [hc] at ha; subst ha; exact ⟨rfl, rfl⟩
  · simp [hc] at ha; subst ha; exact absurd hn hc

theorem editRows_forbid (child : String) (rows : List Row) (r : Row)
    (hr : r ∈ editRows child (fun _ => none) rows) : r.name ≠ child := by
  unfold editRows at hr
  rw [List.mem_filterMap] at hr
  obtain ⟨a, _, ha⟩ := hr
  by_cases hc : a.name = child
  · simp [hc] at ha
  · simp [hc] at ha; subst ha; exact hc

/-- restating a row's own cardinality is no edit at all -/
theorem editRows_same (child : String) (mn : Nat) (mx : Int) (rows : List Row)
    (h : ∀ r ∈ rows, r.name = child → r.min = mn ∧ r.max = mx) :
    editRows child (fun r => some { r with min := mn, max := mx }) rows = rows := by
  unfold editRows
  induction rows with
  | nil => rfl
  | cons a as ih =>
    have ha := h a (List.mem_cons_self)
    have ih' := ih (fun r hr => h r (List.mem_cons_of_mem _ hr))
    by_cases hc : a.name = child
    · obtain ⟨h1, h2⟩ := ha hc
      have : ({ a with min := mn, max := mx } : Row) = a := by cases a; simp_all
      rw [List.filterMap_cons]
      subst hc
      simp only [if_true, this, ih']
    · simp [List.filterMap_cons, hc, ih']

/-- entries of other parents are untouched -/
theorem editEntries_other (parent child : String) (f : Row → Option Row) (es : List Entry) (e : Entry) (he : e ∈ es)
    (hn : e.name ≠ parent) : e ∈ editEntries parent child f es := by
  unfold editEntries
  rw [List.mem_map]
  exact ⟨e, he, by simp [hn]⟩

/-- **the profile speaks**: after a cardinality edit every row named `child` of every entry named `parent`
    carries the profile's cardinality -/
theorem C18_card_speaks (parent child : String) (mn : Nat) (mx : Int) (es : List Entry) (e : Entry)
    (he : e ∈ editEntries parent child (fun r => some { r with min := mn, max := mx }) es) (hp : e.name = parent)
    (r : Row) (hr : r ∈ e.rows) (hn : r.name = child) : r.min = mn ∧ r.max = mx := by
  unfold editEntries at he
  rw [List.mem_map] at he
  obtain ⟨a, _, ha⟩ := he
  by_cases hc : a.name = parent
  · simp [hc] at ha; subst ha
    exact editRows_card child mn mx a.rows r hr hn
  · simp [hc] at ha; subst ha; exact absurd hp hc

/-- after `forbid` no entry named `parent` has a row named `child` -/
theorem C18_forbid_speaks (parent child : String) (es : List Entry) (e : Entry)
    (he : e ∈ editEntries parent child (fun _ => none) es) (hp : e.name = parent) (r : Row) (hr : r ∈ e.rows) :
    r.name ≠ child := by
  unfold editEntries at he
  rw [List.mem_map] at he
  obtain ⟨a, _, ha⟩ := he
  by_cases hc : a.name = parent
  · simp [hc] at ha; subst ha
    exact editRows_forbid child a.rows r hr
  · simp [hc] at ha; subst ha; exact absurd hp hc

/-- an edit touches one table only: the by-name tables the code falls back on for names the profile does not
    mention (`find_reference`: FIELDS, DATATYPES) and the base datatypes are never changed -/
theorem C18_fallback_untouched (e : Edit) (T : Tables) :
    (e.apply T).fields = T.fields ∧ (e.apply T).datatypes = T.datatypes ∧ (e.apply T).base = T.base ∧ (e.apply T).version = T.version := by
  cases e with
  | card t p c mn mx => cases t <;> exact ⟨rfl, rfl, rfl, rfl⟩
  | forbid t p c => cases t <;> exact ⟨rfl, rfl, rfl, rfl⟩
  | retype p c k dt st => exact ⟨rfl, rfl, rfl, rfl⟩

end Hl7.Prof
