import Hl7.Model.Validate
/-!
# C04 — validate() accepts conforming messages and pinpoints each structural defect

Model: `Hl7.Val.validateMessage` (errors of `Validator.validate`); `combine` assembles the report of a
message/group from its structure rows, its children and the children's reports.
Proved, for every structure and every list of children (one level; the recursion is `validNode`):
* `C04_missing_required` – a required row without a matching child yields "Missing required child";
* `C04_limit_exceeded`   – more children than a row's maximum yields "Child limit exceeded";
* `C04_foreign_child`    – a non-Z child whose name is no row yields "Invalid children detected" naming it;
* `C04_conforming_level` – if every row's count is within bounds, every child is declared and the
  children's own reports are empty, the report is empty;
* `C04_report`           – the report is a pure function of the tree; `is_valid` iff no errors; the raising
  form raises the first error.
The end-to-end equivalence `Conforms ↔ no errors` over the whole tree is decided by the correspondence
+ oracle on generated instances and their single-point mutations (partial); it is false for
structures with duplicate rows (finding D17).
-/
namespace Hl7.Val
open Hl7 Hl7.Py Hl7.Msg

theorem checkReps_missing (p c : String) (mn : Nat) (mx : Int) (h : 0 < mn) :
    VErr.missing p c ∈ checkReps p c mn mx 0 := by
  unfold checkReps
  split <;> simp [h]

theorem checkReps_exceeded (p c : String) (mn : Nat) (mx : Int) (k : Nat) (hmx : mx ≠ -1) (hk : (k : Int) > mx)
    (hmn : ¬ k < mn) : VErr.exceeded p c ∈ checkReps p c mn mx k := by
  unfold checkReps
  simp [hmx, hmn, hk]

theorem checkReps_ok (p c : String) (mn : Nat) (mx : Int) (k : Nat) (h1 : mn ≤ k) (h2 : mx = -1 ∨ (k : Int) ≤ mx) :
    checkReps p c mn mx k = [] := by
  unfold checkReps
  rcases h2 with h2 | h2
  · simp [h2]; omega
  · by_cases hm : mx = -1
    · simp [hm]; omega
    · have : ¬ k < mn := by omega
      have h3 : ¬ (k : Int) > mx := by omega
      simp [hm, this, h3]

/-- **C04 (missing required child).** -/
theorem C04_missing_required (pname : String) (rows : List SRow) (kids : List Node) (per : List (List VErr))
    (r : SRow) (hr : r ∈ rows) (hmin : 0 < r.card.1) (hnone : ∀ k ∈ kids, k.name ≠ r.name) :
    VErr.missing pname r.name ∈ combine pname rows kids per := by
  unfold combine
  simp only [List.mem_append]
  refine Or.inl (Or.inr ?_)
  apply List.mem_flatMap.mpr
  refine ⟨r, hr, ?_⟩
  have hempty : (kids.zip per).filter (fun x => x.1.name == r.name) = [] := by
    apply List.filter_eq_nil_iff.mpr
    intro x hx
    have := hnone x.1 (List.of_mem_zip hx).1
    simpa using this
  simp only [hempty, List.length_nil, List.map_nil, List.flatten_nil, List.append_nil]
  exact checkReps_missing pname r.name r.card.1 r.card.2 hmin

/-- **C04 (maximum cardinality exceeded).** -/
theorem C04_limit_exceeded (pname : String) (rows : List SRow) (kids : List Node) (per : List (List VErr))
    (r : SRow) (hr : r ∈ rows) (hmx : r.card.2 ≠ -1)
    (hcount : (((kids.zip per).filter (fun x => x.1.name == r.name)).length : Int) > r.card.2)
    (hmin : ¬ ((kids.zip per).filter (fun x => x.1.name == r.name)).length < r.card.1) :
    VErr.exceeded pname r.name ∈ combine pname rows kids per := by
  unfold combine
  simp only [List.mem_append]
  refine Or.inl (Or.inr ?_)
  apply List.mem_flatMap.mpr
  refine ⟨r, hr, ?_⟩
  apply List.mem_append_left
  exact checkReps_exceeded pname r.name r.card.1 r.card.2 _ hmx hcount hmin

theorem mem_dedup (l : List String) : ∀ x : String, x ∈ dedup l ↔ x ∈ l := by
  induction l with
  | nil => intro x; simp [dedup]
  | cons y ys ih =>
    intro x
    have hstep : dedup (y :: ys) = if (dedup ys).contains y then dedup ys else y :: dedup ys := rfl
    rw [hstep]
    split
    · next hc =>
      have hy : y ∈ ys := (ih y).mp (by simpa using hc)
      constructor
      · intro h; exact List.mem_cons_of_mem _ ((ih x).mp h)
      · intro h
        rcases List.mem_cons.mp h with h | h
        · subst h; exact (ih x).mpr hy
        · exact (ih x).mpr h
    · constructor
      · intro h
        rcases List.mem_cons.mp h with h | h
        · subst h; simp
        · exact List.mem_cons_of_mem _ ((ih x).mp h)
      · intro h
        rcases List.mem_cons.mp h with h | h
        · subst h; simp
        · exact List.mem_cons_of_mem _ ((ih x).mpr h)

/-- **C04 (a child the parent does not allow).** The report names it in "Invalid children detected". -/
theorem C04_foreign_child (pname : String) (rows : List SRow) (kids : List Node) (per : List (List VErr))
    (k : Node) (hk : k ∈ kids) (hz : nodeIsZ k = false) (hforeign : ∀ r ∈ rows, r.name ≠ k.name) :
    k.name ∈ extraKids rows kids ∧
    VErr.invalidChildren pname (sortS (extraKids rows kids)) ∈ combine pname rows kids per := by
  have hextra : k.name ∈ extraKids rows kids := by
    unfold extraKids
    apply List.mem_filter.mpr
    refine ⟨(mem_dedup _ _).mpr (List.mem_map.mpr ⟨k, List.mem_filter.mpr ⟨hk, by simp [hz]⟩, rfl⟩), ?_⟩
    simp only [Bool.not_eq_true', List.contains_eq_mem, decide_eq_false_iff_not, List.mem_map, not_exists, not_and]
    intro r hr
    exact hforeign r hr
  refine ⟨hextra, ?_⟩
  unfold combine
  have hne : (extraKids rows kids).isEmpty = false := by
    cases h : extraKids rows kids with
    | nil => rw [h] at hextra; cases hextra
    | cons a b => rfl
  simp only [hne, Bool.false_eq_true, if_false, List.cons_append, List.nil_append]
  exact List.mem_cons_self

/-- **C04 (a conforming level draws no error).** -/
theorem C04_conforming_level (pname : String) (rows : List SRow) (kids : List Node) (per : List (List VErr))
    (hdecl : ∀ k ∈ kids, nodeIsZ k = true ∨ ∃ r ∈ rows, r.name = k.name)
    (hcard : ∀ r ∈ rows, checkReps pname r.name r.card.1 r.card.2
        ((kids.zip per).filter (fun x => x.1.name == r.name)).length = [])
    (hper : ∀ e ∈ per, e = []) : combine pname rows kids per = [] := by
  unfold combine
  have hextra : extraKids rows kids = [] := by
    unfold extraKids
    apply List.filter_eq_nil_iff.mpr
    intro n hn
    have hn' : n ∈ (kids.filter (fun k => !nodeIsZ k)).map (·.name) := (mem_dedup _ _).mp hn
    obtain ⟨k, hk, rfl⟩ := List.mem_map.mp hn'
    obtain ⟨hk1, hk2⟩ := List.mem_filter.mp hk
    rcases hdecl k hk1 with hz | ⟨r, hr, hrn⟩
    · simp [hz] at hk2
    · simp only [Bool.not_eq_true', List.contains_eq_mem, decide_eq_false_iff_not, List.mem_map, not_exists, not_and]
      intro h
      exact h r hr hrn
  have hall : ∀ (l : List (Node × List VErr)), (∀ x ∈ l, x ∈ kids.zip per) → (l.map (·.2)).flatten = [] := by
    intro l hl
    apply List.flatten_eq_nil_iff.mpr
    intro e he
    obtain ⟨x, hx, rfl⟩ := List.mem_map.mp he
    exact hper _ (List.of_mem_zip (hl x hx)).2
  simp only [hextra, List.isEmpty_nil, if_true, List.nil_append]
  apply List.append_eq_nil_iff.mpr
  refine ⟨?_, hall _ (fun x hx => (List.mem_filter.mp hx).1)⟩
  apply List.flatMap_eq_nil_iff.mpr
  intro r hr
  apply List.append_eq_nil_iff.mpr
  exact ⟨hcard r hr, hall _ (fun x hx => (List.mem_filter.mp hx).1)⟩

/-- the report `validate(return_errors=True)` returns -/
structure Report where
  isValid : Bool
  errors : List VErr
deriving DecidableEq, Repr

def report (errs : List VErr) : Report := ⟨errs.isEmpty, errs⟩
/-- what the raising form does: `raise errors[0]` if there is an error, else `True` -/
def raising (errs : List VErr) : Option VErr := errs.head?

/-- **C04 (report consistency, purity).** The report is a function of the tree alone; `is_valid` holds exactly
    when there is no error; the raising form raises exactly the first reported error. -/
theorem C04_report (T : G.Tables) (m : Message) (errs : List VErr) (h : validateMessage T m = .ok errs) :
    (report errs).isValid = errs.isEmpty ∧ raising errs = (report errs).errors.head? ∧
    (∀ errs', validateMessage T m = .ok errs' → errs' = errs) := by
  refine ⟨rfl, rfl, ?_⟩
  intro errs' h'
  rw [h] at h'
  cases h'
  rfl

end Hl7.Val
