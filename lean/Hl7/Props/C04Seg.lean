import Hl7.Props.C04
import Hl7.Gen.V2_5
import Hl7.Gen.Consts
/-!
# C04 — pinpointing inside a segment and inside a field

Model: `Hl7.validSegKnown` / `Hl7.validFieldKnown` (`Validator._check_known_element` on a Segment / on a Field of a complex
datatype: allowed-children test, then one pass over the rows of the reference with `_check_repetitions` and the recursive
validation of the children found under each name).  Proved for **every table set, every segment / field element and every
reference**, whenever the validator returns a report at all:

* a required row under which the element holds no child is reported as `missing:<element>.<row>`;
* a row whose maximum is exceeded is reported as `exceeded:<element>.<row>`;
* a (non-Z) child whose name is no row of the reference — and, in a segment that ends in a `varies` field, is not of the form
  `<SEG>_<n>` either — is reported in `invalid-children:<element>:…`, and that entry lists exactly the offending names;
* every error reported for a child found under a row is part of the element's report (nothing a child reports is lost).

Together with `C04_tree` (groups) this carries "each structural defect is named" from the message down to the components.
-/
namespace Hl7.Val
open Hl7 Hl7.Py Hl7.G Hl7.Datatypes Hl7.Pe Hl7.Msg

variable (T : Tables)

theorem mapM_ok_mem {α β : Type} (f : α → R β) : ∀ (l : List α) (res : List β), l.mapM f = .ok res →
    ∀ x ∈ l, ∃ y ∈ res, f x = .ok y := by
  intro l
  induction l with
  | nil => intro res _ x hx; cases hx
  | cons a as ih =>
    intro res h x hx
    simp only [List.mapM_cons, bind, Except.bind] at h
    cases ha : f a with
    | error e => simp [ha] at h
    | ok b =>
      simp only [ha] at h
      cases hr : as.mapM f with
      | error e => simp [hr] at h
      | ok r =>
        simp only [hr, pure, Except.pure] at h
        cases h
        rcases List.mem_cons.mp hx with e | hx'
        · subst e; exact ⟨b, by simp, ha⟩
        · obtain ⟨y, hy, hf⟩ := ih r hr x hx'
          exact ⟨y, by simp [hy], hf⟩

theorem mem_sortS (l : List String) (x : String) : x ∈ sortS l ↔ x ∈ l := by
  have ins : ∀ (a : String) (m : List String) (y : String), y ∈ insertS a m ↔ y = a ∨ y ∈ m := by
    intro a m
    induction m with
    | nil => intro y; simp [insertS]
    | cons b bs ih =>
      intro y
      unfold insertS
      split
      · simp
      · simp only [List.mem_cons, ih]
        constructor
        · rintro (h | h | h)
          · exact Or.inr (Or.inl h)
          · exact Or.inl h
          · exact Or.inr (Or.inr h)
        · rintro (h | h | h)
          · exact Or.inr (Or.inl h)
          · exact Or.inl h
          · exact Or.inr (Or.inr h)
  induction l with
  | nil => simp [sortS]
  | cons a as ih =>
    have : sortS (a :: as) = insertS a (sortS as) := rfl
    rw [this, ins]; simp [ih]

/-! ### segment level -/

/-- the report of one row of a segment reference -/
def segRowReport (sg : Pe.Seg) (row : String × Nat × Int × Ref) : R (List VErr) :=
  match segLookup T sg row.1 with
  | none => pure []
  | some kids => do
    let sub ← kids.mapM (fun k => validField T sg.name k (some row.2.2.2))
    pure (checkReps sg.name row.1 row.2.1 row.2.2.1 kids.length ++ sub.flatten)

/-- the names the allowed-children test of a segment looks at -/
def segTestedNames (sg : Pe.Seg) : List String :=
  let names0 := dedup ((sg.kids.filter (fun k => !isZFieldEl k)).map (fun k => oName k.name))
  if sg.inf then names0.filter (fun n => !validChildName (some n) sg.name) else names0

theorem validSegKnown_eq (sg : Pe.Seg) (rows : List (String × Nat × Int × Ref)) :
    validSegKnown T sg rows = (do
      let per ← rows.mapM (segRowReport T sg)
      let z ← (sg.kids.filter isZFieldEl).mapM (fun k => validField T sg.name k none)
      pure ((let extra := (segTestedNames sg).filter (fun n => !(rows.map (·.1)).contains n)
             if extra.isEmpty then [] else [VErr.invalidChildren sg.name (sortS extra)]) ++ per.flatten ++ z.flatten)) := rfl

theorem validSegKnown_shape (sg : Pe.Seg) (rows : List (String × Nat × Int × Ref)) (errs : List VErr)
    (h : validSegKnown T sg rows = .ok errs) :
    ∃ per z, rows.mapM (segRowReport T sg) = .ok per ∧
      (sg.kids.filter isZFieldEl).mapM (fun k => validField T sg.name k none) = .ok z ∧
      errs = (let extra := (segTestedNames sg).filter (fun n => !(rows.map (·.1)).contains n)
              if extra.isEmpty then [] else [VErr.invalidChildren sg.name (sortS extra)]) ++ per.flatten ++ z.flatten := by
  rw [validSegKnown_eq] at h
  simp only [bind, Except.bind] at h
  cases hp : rows.mapM (segRowReport T sg) with
  | error e => simp [hp] at h
  | ok per =>
    simp only [hp] at h
    cases hz : (sg.kids.filter isZFieldEl).mapM (fun k => validField T sg.name k none) with
    | error e => simp [hz] at h
    | ok z =>
      simp only [hz, pure, Except.pure] at h
      cases h
      exact ⟨per, z, rfl, rfl, rfl⟩

/-- **C04 (segment: a required field is missing).** -/
theorem C04_seg_missing (sg : Pe.Seg) (rows : List (String × Nat × Int × Ref)) (errs : List VErr)
    (h : validSegKnown T sg rows = .ok errs) (row : String × Nat × Int × Ref) (hr : row ∈ rows)
    (hmin : 0 < row.2.1) (hnone : segLookup T sg row.1 = some []) : VErr.missing sg.name row.1 ∈ errs := by
  obtain ⟨per, z, hp, _, he⟩ := validSegKnown_shape T sg rows errs h
  obtain ⟨y, hy, hf⟩ := mapM_ok_mem _ rows per hp row hr
  have : y = checkReps sg.name row.1 row.2.1 row.2.2.1 0 := by
    simp [segRowReport, hnone, bind, Except.bind, pure, Except.pure] at hf
    exact hf.symm
  subst he
  apply List.mem_append_left
  apply List.mem_append_right
  apply List.mem_flatten.mpr
  refine ⟨_, hy, ?_⟩
  rw [this]
  exact checkReps_missing sg.name row.1 row.2.1 row.2.2.1 hmin

/-- **C04 (segment: a field repeats more often than its maximum).** -/
theorem C04_seg_exceeded (sg : Pe.Seg) (rows : List (String × Nat × Int × Ref)) (errs : List VErr)
    (h : validSegKnown T sg rows = .ok errs) (row : String × Nat × Int × Ref) (hr : row ∈ rows)
    (kids : List Pe.Fld) (hk : segLookup T sg row.1 = some kids) (hmx : row.2.2.1 ≠ -1) (hmany : (kids.length : Int) > row.2.2.1)
    (hmin : ¬ kids.length < row.2.1) : VErr.exceeded sg.name row.1 ∈ errs := by
  obtain ⟨per, z, hp, _, he⟩ := validSegKnown_shape T sg rows errs h
  obtain ⟨y, hy, hf⟩ := mapM_ok_mem _ rows per hp row hr
  simp only [segRowReport, hk, bind, Except.bind] at hf
  cases hs : kids.mapM (fun k => validField T sg.name k (some row.2.2.2)) with
  | error e => simp [hs] at hf
  | ok sub =>
    simp only [hs, pure, Except.pure] at hf
    cases hf
    subst he
    apply List.mem_append_left
    apply List.mem_append_right
    apply List.mem_flatten.mpr
    refine ⟨_, hy, ?_⟩
    apply List.mem_append_left
    exact checkReps_exceeded sg.name row.1 row.2.1 row.2.2.1 _ hmx hmany hmin

/-- **C04 (segment: a child the segment does not allow).** The report names it, and names only such children. -/
theorem C04_seg_foreign (sg : Pe.Seg) (rows : List (String × Nat × Int × Ref)) (errs : List VErr)
    (h : validSegKnown T sg rows = .ok errs) (n : String) (hn : n ∈ segTestedNames sg) (hfor : (rows.map (·.1)).contains n = false) :
    ∃ ns, VErr.invalidChildren sg.name ns ∈ errs ∧ n ∈ ns ∧ ∀ m ∈ ns, m ∈ segTestedNames sg ∧ (rows.map (·.1)).contains m = false := by
  obtain ⟨per, z, _, _, he⟩ := validSegKnown_shape T sg rows errs h
  have hmem : n ∈ (segTestedNames sg).filter (fun n => !(rows.map (·.1)).contains n) := by
    exact List.mem_filter.mpr ⟨hn, by rw [hfor]; rfl⟩
  have hne : ((segTestedNames sg).filter (fun n => !(rows.map (·.1)).contains n)).isEmpty = false := by
    cases hx : (segTestedNames sg).filter (fun n => !(rows.map (·.1)).contains n) with
    | nil => rw [hx] at hmem; cases hmem
    | cons a b => rfl
  refine ⟨sortS ((segTestedNames sg).filter (fun n => !(rows.map (·.1)).contains n)), ?_, (mem_sortS _ _).mpr hmem, ?_⟩
  · subst he
    apply List.mem_append_left
    apply List.mem_append_left
    simp only [hne]
    simp
  · intro m hm
    have := (mem_sortS _ _).mp hm
    simp only [List.mem_filter] at this
    exact ⟨this.1, by simpa using this.2⟩

/-- **C04 (segment: nothing a field reports is lost).** -/
theorem C04_seg_child_errors_kept (sg : Pe.Seg) (rows : List (String × Nat × Int × Ref)) (errs : List VErr)
    (h : validSegKnown T sg rows = .ok errs) (row : String × Nat × Int × Ref) (hr : row ∈ rows)
    (kids : List Pe.Fld) (hk : segLookup T sg row.1 = some kids) (k : Pe.Fld) (hkm : k ∈ kids) :
    ∃ ek, validField T sg.name k (some row.2.2.2) = .ok ek ∧ ∀ e ∈ ek, e ∈ errs := by
  obtain ⟨per, z, hp, _, he⟩ := validSegKnown_shape T sg rows errs h
  obtain ⟨y, hy, hf⟩ := mapM_ok_mem _ rows per hp row hr
  simp only [segRowReport, hk, bind, Except.bind] at hf
  cases hs : kids.mapM (fun k => validField T sg.name k (some row.2.2.2)) with
  | error e => simp [hs] at hf
  | ok sub =>
    simp only [hs, pure, Except.pure] at hf
    cases hf
    obtain ⟨ek, hek, hfk⟩ := mapM_ok_mem _ kids sub hs k hkm
    refine ⟨ek, hfk, ?_⟩
    intro e hee
    subst he
    apply List.mem_append_left
    apply List.mem_append_right
    apply List.mem_flatten.mpr
    refine ⟨_, hy, ?_⟩
    apply List.mem_append_right
    exact List.mem_flatten.mpr ⟨ek, hek, hee⟩

/-! ### field level (a field of a complex datatype against the rows of that datatype) -/

def fieldRowReport (f : Pe.Fld) (row : String × Nat × Int × Ref) : R (List VErr) :=
  match fieldLookup T f row.1 with
  | none => pure []
  | some kids => do
    let sub ← kids.mapM (fun k => validComp T (oName f.name) k (some row.2.2.2))
    pure (checkReps (oName f.name) row.1 row.2.1 row.2.2.1 kids.length ++ sub.flatten)

def fieldTestedNames (f : Pe.Fld) : List String := dedup (f.kids.map (fun k => oName k.name))

theorem validFieldKnown_eq (pname : String) (f : Pe.Fld) (rows : List Row) (d : Option (Option String)) :
    validFieldKnown T pname f (.seq rows d) = (do
      let per ← (refRows T rows).mapM (fieldRowReport T f)
      pure ((let extra := (fieldTestedNames f).filter (fun n => !(rows.map (·.name)).contains n)
             if extra.isEmpty then [] else [VErr.invalidChildren (oName f.name) (sortS extra)]) ++ per.flatten)) := rfl

theorem validFieldKnown_shape (pname : String) (f : Pe.Fld) (rows : List Row) (d : Option (Option String)) (errs : List VErr)
    (h : validFieldKnown T pname f (.seq rows d) = .ok errs) :
    ∃ per, (refRows T rows).mapM (fieldRowReport T f) = .ok per ∧
      errs = (let extra := (fieldTestedNames f).filter (fun n => !(rows.map (·.name)).contains n)
              if extra.isEmpty then [] else [VErr.invalidChildren (oName f.name) (sortS extra)]) ++ per.flatten := by
  rw [validFieldKnown_eq] at h
  simp only [bind, Except.bind] at h
  cases hp : (refRows T rows).mapM (fieldRowReport T f) with
  | error e => simp [hp] at h
  | ok per =>
    simp only [hp, pure, Except.pure] at h
    cases h
    exact ⟨per, rfl, rfl⟩

/-- **C04 (field: a required component is missing).** -/
theorem C04_field_missing (pname : String) (f : Pe.Fld) (rows : List Row) (d : Option (Option String)) (errs : List VErr)
    (h : validFieldKnown T pname f (.seq rows d) = .ok errs) (row : String × Nat × Int × Ref) (hr : row ∈ refRows T rows)
    (hmin : 0 < row.2.1) (hnone : fieldLookup T f row.1 = some []) : VErr.missing (oName f.name) row.1 ∈ errs := by
  obtain ⟨per, hp, he⟩ := validFieldKnown_shape T pname f rows d errs h
  obtain ⟨y, hy, hf⟩ := mapM_ok_mem _ _ per hp row hr
  have : y = checkReps (oName f.name) row.1 row.2.1 row.2.2.1 0 := by
    simp [fieldRowReport, hnone, bind, Except.bind, pure, Except.pure] at hf
    exact hf.symm
  subst he
  apply List.mem_append_right
  apply List.mem_flatten.mpr
  refine ⟨_, hy, ?_⟩
  rw [this]
  exact checkReps_missing _ row.1 row.2.1 row.2.2.1 hmin

/-- **C04 (field: a component occurs more often than its maximum).** -/
theorem C04_field_exceeded (pname : String) (f : Pe.Fld) (rows : List Row) (d : Option (Option String)) (errs : List VErr)
    (h : validFieldKnown T pname f (.seq rows d) = .ok errs) (row : String × Nat × Int × Ref) (hr : row ∈ refRows T rows)
    (kids : List Pe.Comp) (hk : fieldLookup T f row.1 = some kids) (hmx : row.2.2.1 ≠ -1) (hmany : (kids.length : Int) > row.2.2.1)
    (hmin : ¬ kids.length < row.2.1) : VErr.exceeded (oName f.name) row.1 ∈ errs := by
  obtain ⟨per, hp, he⟩ := validFieldKnown_shape T pname f rows d errs h
  obtain ⟨y, hy, hf⟩ := mapM_ok_mem _ _ per hp row hr
  simp only [fieldRowReport, hk, bind, Except.bind] at hf
  cases hs : kids.mapM (fun k => validComp T (oName f.name) k (some row.2.2.2)) with
  | error e => simp [hs] at hf
  | ok sub =>
    simp only [hs, pure, Except.pure] at hf
    cases hf
    subst he
    apply List.mem_append_right
    apply List.mem_flatten.mpr
    refine ⟨_, hy, ?_⟩
    apply List.mem_append_left
    exact checkReps_exceeded _ row.1 row.2.1 row.2.2.1 _ hmx hmany hmin

/-- **C04 (field: a component the datatype does not have).** -/
theorem C04_field_foreign (pname : String) (f : Pe.Fld) (rows : List Row) (d : Option (Option String)) (errs : List VErr)
    (h : validFieldKnown T pname f (.seq rows d) = .ok errs) (n : String) (hn : n ∈ fieldTestedNames f)
    (hfor : (rows.map (·.name)).contains n = false) :
    ∃ ns, VErr.invalidChildren (oName f.name) ns ∈ errs ∧ n ∈ ns ∧
      ∀ m ∈ ns, m ∈ fieldTestedNames f ∧ (rows.map (·.name)).contains m = false := by
  obtain ⟨per, _, he⟩ := validFieldKnown_shape T pname f rows d errs h
  have hmem : n ∈ (fieldTestedNames f).filter (fun n => !(rows.map (·.name)).contains n) :=
    List.mem_filter.mpr ⟨hn, by rw [hfor]; rfl⟩
  have hne : ((fieldTestedNames f).filter (fun n => !(rows.map (·.name)).contains n)).isEmpty = false := by
    cases hx : (fieldTestedNames f).filter (fun n => !(rows.map (·.name)).contains n) with
    | nil => rw [hx] at hmem; cases hmem
    | cons a b => rfl
  refine ⟨sortS ((fieldTestedNames f).filter (fun n => !(rows.map (·.name)).contains n)), ?_, (mem_sortS _ _).mpr hmem, ?_⟩
  · subst he
    apply List.mem_append_left
    simp only [hne]
    simp
  · intro m hm
    have := (mem_sortS _ _).mp hm
    simp only [List.mem_filter] at this
    exact ⟨this.1, by simpa using this.2⟩

/-- **C04 (field: nothing a component reports is lost).** -/
theorem C04_field_child_errors_kept (pname : String) (f : Pe.Fld) (rows : List Row) (d : Option (Option String)) (errs : List VErr)
    (h : validFieldKnown T pname f (.seq rows d) = .ok errs) (row : String × Nat × Int × Ref) (hr : row ∈ refRows T rows)
    (kids : List Pe.Comp) (hk : fieldLookup T f row.1 = some kids) (k : Pe.Comp) (hkm : k ∈ kids) :
    ∃ ek, validComp T (oName f.name) k (some row.2.2.2) = .ok ek ∧ ∀ e ∈ ek, e ∈ errs := by
  obtain ⟨per, hp, he⟩ := validFieldKnown_shape T pname f rows d errs h
  obtain ⟨y, hy, hf⟩ := mapM_ok_mem _ _ per hp row hr
  simp only [fieldRowReport, hk, bind, Except.bind] at hf
  cases hs : kids.mapM (fun k => validComp T (oName f.name) k (some row.2.2.2)) with
  | error e => simp [hs] at hf
  | ok sub =>
    simp only [hs, pure, Except.pure] at hf
    cases hf
    obtain ⟨ek, hek, hfk⟩ := mapM_ok_mem _ kids sub hs k hkm
    refine ⟨ek, hfk, ?_⟩
    intro e hee
    subst he
    apply List.mem_append_right
    apply List.mem_flatten.mpr
    refine ⟨_, hy, ?_⟩
    apply List.mem_append_right
    exact List.mem_flatten.mpr ⟨ek, hek, hee⟩

/-! ### component level (a component of a complex datatype against the rows of that datatype) -/

def compRowReport (c : Pe.Comp) (row : String × Nat × Int × Ref) : R (List VErr) := do
  let kids := c.kids.filter (fun k => k.name == some row.1)
  let sub ← kids.mapM (fun k => validSub T (oName c.name) k (some row.2.2.2))
  pure (checkReps (oName c.name) row.1 row.2.1 row.2.2.1 kids.length ++ sub.flatten)

def compTestedNames (c : Pe.Comp) : List String := dedup (c.kids.map (fun k => oName k.name))

theorem validComp_eq (pname : String) (c : Pe.Comp) (rows : List Row) (d : Option (Option String)) (hn : (c.name == c.dt) = false) :
    validComp T pname c (some (.seq rows d)) = (do
      let per ← (refRows T rows).mapM (compRowReport T c)
      pure ((let extra := (compTestedNames c).filter (fun n => !(rows.map (·.name)).contains n)
             if extra.isEmpty then [] else [VErr.invalidChildren (oName c.name) (sortS extra)]) ++ per.flatten)) := by
  unfold validComp
  simp only [hn]
  rfl

theorem validComp_shape (pname : String) (c : Pe.Comp) (rows : List Row) (d : Option (Option String)) (hn : (c.name == c.dt) = false)
    (errs : List VErr) (h : validComp T pname c (some (.seq rows d)) = .ok errs) :
    ∃ per, (refRows T rows).mapM (compRowReport T c) = .ok per ∧
      errs = (let extra := (compTestedNames c).filter (fun n => !(rows.map (·.name)).contains n)
              if extra.isEmpty then [] else [VErr.invalidChildren (oName c.name) (sortS extra)]) ++ per.flatten := by
  rw [validComp_eq T pname c rows d hn] at h
  simp only [bind, Except.bind] at h
  cases hp : (refRows T rows).mapM (compRowReport T c) with
  | error e => simp [hp] at h
  | ok per =>
    simp only [hp, pure, Except.pure] at h
    cases h
    exact ⟨per, rfl, rfl⟩

/-- **C04 (component: a required subcomponent is missing / a maximum is exceeded).** -/
theorem C04_comp_cardinality (pname : String) (c : Pe.Comp) (rows : List Row) (d : Option (Option String)) (hn : (c.name == c.dt) = false)
    (errs : List VErr) (h : validComp T pname c (some (.seq rows d)) = .ok errs) (row : String × Nat × Int × Ref) (hr : row ∈ refRows T rows) :
    ∀ e ∈ checkReps (oName c.name) row.1 row.2.1 row.2.2.1 (c.kids.filter (fun k => k.name == some row.1)).length, e ∈ errs := by
  obtain ⟨per, hp, he⟩ := validComp_shape T pname c rows d hn errs h
  obtain ⟨y, hy, hf⟩ := mapM_ok_mem _ _ per hp row hr
  simp only [compRowReport, bind, Except.bind] at hf
  cases hs : (c.kids.filter (fun k => k.name == some row.1)).mapM (fun k => validSub T (oName c.name) k (some row.2.2.2)) with
  | error e => simp [hs] at hf
  | ok sub =>
    simp only [hs, pure, Except.pure] at hf
    cases hf
    intro e hee
    subst he
    apply List.mem_append_right
    apply List.mem_flatten.mpr
    exact ⟨_, hy, List.mem_append_left _ hee⟩

/-- **C04 (component: a subcomponent the datatype does not have).** -/
theorem C04_comp_foreign (pname : String) (c : Pe.Comp) (rows : List Row) (d : Option (Option String)) (hn : (c.name == c.dt) = false)
    (errs : List VErr) (h : validComp T pname c (some (.seq rows d)) = .ok errs) (n : String) (hmemn : n ∈ compTestedNames c)
    (hfor : (rows.map (·.name)).contains n = false) :
    ∃ ns, VErr.invalidChildren (oName c.name) ns ∈ errs ∧ n ∈ ns := by
  obtain ⟨per, _, he⟩ := validComp_shape T pname c rows d hn errs h
  have hmem : n ∈ (compTestedNames c).filter (fun n => !(rows.map (·.name)).contains n) :=
    List.mem_filter.mpr ⟨hmemn, by rw [hfor]; rfl⟩
  have hne : ((compTestedNames c).filter (fun n => !(rows.map (·.name)).contains n)).isEmpty = false := by
    cases hx : (compTestedNames c).filter (fun n => !(rows.map (·.name)).contains n) with
    | nil => rw [hx] at hmem; cases hmem
    | cons a b => rfl
  refine ⟨sortS ((compTestedNames c).filter (fun n => !(rows.map (·.name)).contains n)), ?_, (mem_sortS _ _).mpr hmem⟩
  subst he
  apply List.mem_append_left
  simp only [hne]
  simp

/-! ### non-vacuity (kernel-checked on the v2.5 tables) -/

/-- `PID|1||^^^A~^^^B~^^^C||x` parsed TOLERANT: PID-3 is required and present, PID-5 is required and present; `PID|1` lacks both -/
def exSeg (t : String) : R (List String) :=
  (Pe.segment Hl7.Gen.V2_5 t.toList Hl7.Gen.Consts.defaultEC false).bind (fun sg => (validSeg Hl7.Gen.V2_5 sg false).map (fun es => es.map VErr.show))

example : exSeg "PID|1" = .ok ["missing:PID.PID_3", "missing:PID.PID_5"] := by decide +kernel
example : exSeg "PID|1||7||x" = .ok [] := by decide +kernel
example : exSeg "PID|1~2||7||x" = .ok ["exceeded:PID.PID_1"] := by decide +kernel

end Hl7.Val
