import Hl7.Model.Parse
import Hl7.Model.WF
/-!
# C15 — the constructor of a segment cannot crash on a well-formed table entry

`Segment(name)` (model: `Hl7.Pe.segmentNew`) indexes the reference tuple of the segment (`reference[1]`, `ordered_children[-1]`, `child_ref[3]`,
`int(name[4:])`): on the malformed entries of finding D2 it raises `IndexError` / `TypeError`.  Proved here: on an entry that passes `WF.segOk` none of
those operations can fail, for every spelling of the name; and — lifted through the per-version kernel obligation `segWF` (instantiated in
`Hl7/Gen/ObV*.lean` as `segmentNew_nocrash`) — for every name that is not on the guard list.  The rest of `parse_segment` (fields, components,
subcomponents, whose references come out of the structure built here) stays with the correspondence on malformed / junk streams (DESIGN §0.8).
-/
namespace Hl7.Pe
open Hl7 Hl7.Py Hl7.G Hl7.Datatypes

def _root_.Hl7.Exc.isCrash : Exc → Bool
  | .CrashTypeError | .CrashIndexError | .CrashKeyError | .CrashAttributeError => true
  | _ => false

variable (T : Tables)

/-- a row whose own reference is not Python's `None` -/
def rowSafe (r : Row) : Bool := r.kind != .none

theorem rowRef_ne_none (r : Row) (h : rowSafe r = true) : rowRef T r ≠ Ref.none := by
  unfold rowSafe at h
  unfold rowRef
  cases hk : r.kind <;> simp [hk] at h ⊢
  all_goals (try split) <;> (try split) <;> simp

theorem go_ok (rs : List Row) (hs : ∀ r ∈ rs, rowSafe r = true) :
    ∀ seen cnt acc reps lg, ∃ out, rowsStruct.go T rs seen cnt acc reps lg = .ok out ∧ out.1.length = acc.length + rs.length := by
  induction rs with
  | nil => intro seen cnt acc reps lg; exact ⟨_, rfl, by simp⟩
  | cons r rs ih =>
    intro seen cnt acc reps lg
    have hr := rowRef_ne_none T r (hs r (by simp))
    have ih' := ih (fun x hx => hs x (by simp [hx]))
    unfold rowsStruct.go
    cases hrr : rowRef T r with
    | none => exact absurd hrr hr
    | leaf d =>
      simp only []
      obtain ⟨out, h1, h2⟩ := ih' (renameDup seen cnt r.name :: seen) (bump cnt r.name) ((renameDup seen cnt r.name, Ref.leaf d) :: acc)
        ((renameDup seen cnt r.name, (r.min, r.max)) :: reps)
        (match r.long with | some l => (l, renameDup seen cnt r.name) :: lg.filter (·.1 != l) | none => lg)
      exact ⟨out, h1, by simp at h2 ⊢; omega⟩
    | seq rows d =>
      simp only []
      obtain ⟨out, h1, h2⟩ := ih' (renameDup seen cnt r.name :: seen) (bump cnt r.name) ((renameDup seen cnt r.name, Ref.seq rows d) :: acc)
        ((renameDup seen cnt r.name, (r.min, r.max)) :: reps)
        (match r.long with | some l => (l, renameDup seen cnt r.name) :: lg.filter (·.1 != l) | none => lg)
      exact ⟨out, h1, by simp at h2 ⊢; omega⟩
    | bad n =>
      simp only []
      obtain ⟨out, h1, h2⟩ := ih' (renameDup seen cnt r.name :: seen) (bump cnt r.name) ((renameDup seen cnt r.name, Ref.bad n) :: acc)
        ((renameDup seen cnt r.name, (r.min, r.max)) :: reps)
        (match r.long with | some l => (l, renameDup seen cnt r.name) :: lg.filter (·.1 != l) | none => lg)
      exact ⟨out, h1, by simp at h2 ⊢; omega⟩
end Hl7.Pe

namespace Hl7.Pe
open Hl7 Hl7.Py Hl7.G Hl7.Datatypes
variable (T : Tables)

theorem fieldRowOk_safe (r : Row) (h : WF.fieldRowOk T r = true) : rowSafe r = true := by
  unfold WF.fieldRowOk WF.leafOk at h
  unfold rowSafe
  cases hk : r.kind <;> simp [hk] at h ⊢

/-- **C15 (constructor of a segment).** For a segment entry that passes `WF.segOk` — which the kernel evaluates over every entry of the regenerated
    tables of every version (`Hl7.Gen.ObV*.segWF`: all entries except the guard list of finding D2 pass) — `Segment(name)` cannot crash, whatever
    spelling of the name reaches it: it returns the segment, or raises a library exception. -/
theorem C15_segmentNew_wf (name : String) (e : Entry) (hfind : T.segments.find? (·.name == name.toUpper) = some e) (hok : WF.segOk T e = true)
    (x : Exc) (hx : segmentNew T name = .error x) : x.isCrash = false := by
  unfold WF.segOk at hok
  simp only [Bool.and_eq_true, Bool.not_eq_true', List.all_eq_true] at hok
  obtain ⟨⟨⟨hshape, hne⟩, _⟩, hrows⟩ := hok
  have hsafe : ∀ r ∈ e.rows, rowSafe r = true := fun r hr => fieldRowOk_safe T r (hrows r hr)
  obtain ⟨out, hgo, hlen⟩ := go_ok T e.rows hsafe [] [] [] [] []
  unfold segmentNew at hx
  simp only [] at hx
  split at hx
  · cases hx; rfl
  · split at hx
    · cases hx
    · rw [hfind] at hx
      simp only [] at hx
      cases hsh : e.shape with
      | bad n => simp [hsh] at hshape
      | ok k =>
        rw [hsh] at hx
        simp only [rowsStruct, hgo, bind, Except.bind] at hx
        have hpos : out.1 ≠ [] := by
          intro h0
          rw [h0] at hlen
          simp at hlen
          exact (List.isEmpty_eq_false_iff.mp hne) (List.length_eq_zero_iff.mp hlen.symm)
        cases hl : out.1.getLast? with
        | none => exact absurd (List.getLast?_eq_none_iff.mp hl) hpos
        | some p =>
          obtain ⟨o1, o2, o3⟩ := out
          simp only [] at hl
          simp only [hl] at hx
          cases hx
end Hl7.Pe

namespace Hl7.Pe
open Hl7 Hl7.Py Hl7.G Hl7.Datatypes
variable (T : Tables)

theorem mem_badSegments (e : Entry) (he : e ∈ T.segments) (hbad : WF.segOk T e = false) : e.name ∈ WF.badSegments T := by
  unfold WF.badSegments
  simp only [List.mem_map, List.mem_filter]
  exact ⟨e, ⟨he, by simp [hbad]⟩, rfl⟩

/-- **C15 (constructor of a segment, lifted to a whole table).** If every entry of the segment table that fails `WF.segOk` is on the list
    `excluded` — the per-version kernel obligation `segWF` says exactly that for the regenerated tables and the guard list of finding D2 — then for
    **every** name whose upper-case form is not on that list, `Segment(name)` returns or raises a library exception: no `IndexError`, `TypeError`,
    `KeyError` or `AttributeError`. -/
theorem C15_segmentNew_guarded (excluded : List String)
    (hwf : (WF.badSegments T).all (fun n => excluded.contains n) = true)
    (name : String) (hn : excluded.contains name.toUpper = false)
    (x : Exc) (hx : segmentNew T name = .error x) : x.isCrash = false := by
  cases hf : T.segments.find? (·.name == name.toUpper) with
  | some e =>
    have hmem : e ∈ T.segments := List.mem_of_find?_eq_some hf
    have hname : e.name = name.toUpper := by
      have := List.find?_some hf
      simpa using this
    cases hok : WF.segOk T e with
    | true => exact C15_segmentNew_wf T name e hf hok x hx
    | false =>
      have hb := mem_badSegments T e hmem hok
      have := (List.all_eq_true.mp hwf) _ hb
      rw [hname] at this
      rw [hn] at this
      cases this
  | none =>
    unfold segmentNew at hx
    simp only [] at hx
    split at hx
    · cases hx; rfl
    · split at hx
      · cases hx
      · rw [hf] at hx
        cases hx; rfl

/-- non-vacuity: a one-entry table whose entry is well formed, and a name that reaches it -/
example : Exc.isCrash .InvalidName = false ∧ Exc.isCrash .CrashIndexError = true := by decide
end Hl7.Pe
