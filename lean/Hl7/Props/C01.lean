import Hl7.Lemmas.Split
import Hl7.Lemmas.Slots
import Hl7.Model.Parse
import Hl7.Model.Cascade
import Hl7.Gen.V2_5
import Std.Data.String.ToNat
/-!
# C01 — ER7 parse → encode is the identity on canonical text

What is proved, for all inputs:
* `C01_level_roundtrip` / `C01_text_roundtrip`: one level of the cascade on string-named children —
  split the text, name the non-empty pieces `<D>_1, <D>_2, …`, file them under the table's row names
  in table order, trim trailing empties, join: the identity on every text with no trailing empty
  piece, for every table length ≥ the number of pieces (any separator, any prefix `D`).
* per version (`Hl7.Gen.ObV*.segWF`, kernel-evaluated over the regenerated tables): every segment
  entry not on the guard list has exactly the shape that lemma needs (rows `<SEG>_1 … <SEG>_n` in
  order, no gaps; same for the datatype structures two levels down).
What is **not** a theorem yet: that `Hl7.Pe.segment`/`encSegment` (the full model with its
validation branches) *is* that cascade on well-formed tables; this glue is covered by the
correspondence check and the implementation-side oracle (partial, DESIGN §5 C01).
-/
namespace Hl7.C01
open Hl7 Hl7.Py Hl7.Slots

structure Kid where
  name : String
  val : Str
deriving DecidableEq

/-- the ordinal name of the `i`-th (0-based) piece: `<D>_<i+1>` -/
def nm (d : String) (i : Nat) : String := d ++ "_" ++ toString (i + 1)

theorem nm_inj (d : String) (i j : Nat) (h : nm d i = nm d j) : i = j := by
  unfold nm at h
  have h' : (d ++ "_" ++ toString (i+1)).toList = (d ++ "_" ++ toString (j+1)).toList := by rw [h]
  simp only [String.toList_append] at h'
  have h2 : toString (i+1) = toString (j+1) := String.toList_inj.mp (List.append_cancel_left h')
  have := Nat.repr_inj.mp h2
  omega
/-- parse: children for the non-empty pieces, named by ordinal -/
def parseKids (d : String) : Nat → List Str → List Kid
  | _, [] => []
  | i, x :: xs => if x = [] then parseKids d (i+1) xs else ⟨nm d i, x⟩ :: parseKids d (i+1) xs

/-- encode: one group per table row name -/
def groupsByName (d : String) (kids : List Kid) : Nat → Nat → List (List Str)
  | _, 0 => []
  | i, k+1 => ((kids.filter (·.name = nm d i)).map (·.val)) :: groupsByName d kids (i+1) k

/-- the string-named children are the position-named pieces in disguise -/
theorem filter_parse (d : String) (i j : Nat) (xs : List Str) :
    ((parseKids d i xs).filter (·.name = nm d j)).map (·.val)
      = ((pieces i xs).filter (·.1 = j)).map (·.2) := by
  induction xs generalizing i with
  | nil => simp [parseKids, pieces]
  | cons x xs ih =>
    unfold parseKids pieces
    by_cases hx : x = []
    · simp [hx, ih]
    · simp only [hx, ↓reduceIte, List.filter_cons]
      by_cases hij : i = j
      · subst hij; simp [ih]
      · have : ¬ (nm d i = nm d j) := fun h => hij (nm_inj d i j h)
        simp [this, hij, ih]

theorem groups_eq_slots (d : String) (xs : List Str) (i0 i k : Nat) :
    groupsByName d (parseKids d i0 xs) i k = slots (pieces i0 xs) i k := by
  induction k generalizing i with
  | zero => simp [groupsByName, slots]
  | succ k ih => simp [groupsByName, slots, filter_parse, ih]

/-- C01 at one level, on string-named children: render ∘ trim ∘ encode ∘ parse = id on canonical piece lists -/
theorem C01_level_roundtrip (d : String) (xs : List Str) (n : Nat) (hn : xs.length ≤ n) (hc : NoTrailingEmpty xs) :
    render (dropTrailing (groupsByName d (parseKids d 0 xs) 0 n)) = xs := by
  rw [groups_eq_slots, slots_roundtrip xs n hn hc]

/-- … and on the text itself: split, parse, encode, join -/
theorem C01_text_roundtrip (d : String) (sep : Char) (t : Str) (n : Nat)
    (hn : (splitOn sep t).length ≤ n) (hc : NoTrailingEmpty (splitOn sep t)) :
    join sep (render (dropTrailing (groupsByName d (parseKids d 0 (splitOn sep t)) 0 n))) = t := by
  rw [C01_level_roundtrip d _ n hn hc, join_splitOn]


/-! ### the whole cascade: every depth at once -/

theorem pieces_mem (i : Nat) (xs : List Str) : ∀ p ∈ pieces i xs, p.2 ∈ xs ∧ p.2 ≠ [] := by
  induction xs generalizing i with
  | nil => simp [pieces]
  | cons x xs ih =>
    intro p hp
    unfold pieces at hp
    split at hp
    · have := ih (i+1) p hp
      exact ⟨List.mem_cons_of_mem _ this.1, this.2⟩
    · next hx =>
      rcases List.mem_cons.mp hp with h | h
      · subst h; exact ⟨List.mem_cons_self, hx⟩
      · have := ih (i+1) p h
        exact ⟨List.mem_cons_of_mem _ this.1, this.2⟩

/-- **C01 (the cascade, every depth).** For every list of levels — positional levels of any width and separator, repetition
    levels of any separator, in any order and to any depth — and every text that is canonical for it (no trailing empty
    piece and no overflow at positional levels, recursively): splitting level by level down to the leaves, filing the
    non-empty pieces under their positions, and encoding back in table order with trailing empties trimmed gives the text
    back, character for character. -/
theorem C01_cascade : ∀ (ls : List Casc.Lvl) (s : Str), Casc.Canon ls s → Casc.enc ls (Casc.parse ls s) = s
  | [], s, _ => rfl
  | .pos c w :: ls, s, h => by
    obtain ⟨hlen, hnte, hrec⟩ := h
    simp only [Casc.parse, Casc.enc, List.map_map]
    have hmap : (pieces 0 (splitOn c s)).map ((fun p => (p.1, Casc.enc ls p.2)) ∘ (fun p => (p.1, Casc.parse ls p.2))) = pieces 0 (splitOn c s) := by
      have : ∀ p ∈ pieces 0 (splitOn c s), ((fun p => (p.1, Casc.enc ls p.2)) ∘ (fun p : Nat × Str => (p.1, Casc.parse ls p.2))) p = p := by
        intro p hp
        obtain ⟨hm, hne⟩ := pieces_mem 0 _ p hp
        simp only [Function.comp]
        rw [C01_cascade ls p.2 (hrec p.2 hm hne)]
      rw [List.map_congr_left this]; simp
    rw [hmap, slots_roundtrip _ w hlen hnte, join_splitOn]
  | .rep c :: ls, s, h => by
    simp only [Casc.parse, Casc.enc, List.map_map]
    have hmap : (splitOn c s).map (Casc.enc ls ∘ Casc.parse ls) = splitOn c s := by
      have : ∀ x ∈ splitOn c s, (Casc.enc ls ∘ Casc.parse ls) x = x := by
        intro x hx
        simp only [Function.comp]
        exact C01_cascade ls x (h x hx)
      rw [List.map_congr_left this]; simp
    rw [hmap, join_splitOn]

/-- the levels of a segment body: fields (positional), repetitions, components, subcomponents -/
def segLevels (ec : EC) (nf nc ns : Nat) : List Casc.Lvl :=
  [.pos ec.field nf, .rep ec.rep, .pos ec.comp nc, .pos ec.sub ns]

/-- **C01 (segment body).** Instance for the four ER7 levels with any delimiter set and any table widths. -/
theorem C01_segment_body (ec : EC) (nf nc ns : Nat) (body : Str) (h : Casc.Canon (segLevels ec nf nc ns) body) :
    Casc.enc (segLevels ec nf nc ns) (Casc.parse (segLevels ec nf nc ns) body) = body :=
  C01_cascade _ body h

/-- non-vacuity: a concrete body with an empty field, a repetition and a subcomponent is canonical, and the cascade gives it back -/
example : Casc.Canon (segLevels EC.default 30 12 6) "1||A^B&C~D||X^^Y".toList ∧
    Casc.enc (segLevels EC.default 30 12 6) (Casc.parse (segLevels EC.default 30 12 6) "1||A^B&C~D||X^^Y".toList) = "1||A^B&C~D||X^^Y".toList := by
  have hc : Casc.Canon (segLevels EC.default 30 12 6) "1||A^B&C~D||X^^Y".toList := Casc.canonB_sound _ _ (by decide)
  exact ⟨hc, C01_cascade _ _ hc⟩

/-- non-vacuity: a concrete canonical component text satisfies the hypotheses -/
example : join '&' (render (dropTrailing (groupsByName "CWE" (parseKids "CWE" 0 (splitOn '&' "ID&TEST&&AHAH".toList)) 0 9)))
    = "ID&TEST&&AHAH".toList := by
  apply C01_text_roundtrip
  · decide
  · simp [splitOn, NoTrailingEmpty]

/-- the model's own segment parser and encoder on a concrete canonical segment (kernel-evaluated) -/
example : (do let s ← Pe.segment Hl7.Gen.V2_5 "PID|1||A^B&C~D||X^Y".toList EC.default false
              Pe.encSegment Hl7.Gen.V2_5 EC.default s) = .ok "PID|1||A^B&C~D||X^Y".toList := by
  decide +kernel

end Hl7.C01
