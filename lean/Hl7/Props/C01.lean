import Hl7.Lemmas.Split
import Hl7.Lemmas.Slots
import Hl7.Model.Parse
import Hl7.Gen.V2_5
import Std.Data.String.ToNat
/-!
# C01 — ER7 parse → encode is the identity on canonical text

What is proved, for all inputs:
* `C01_level_roundtrip` / `C01_text_roundtrip`: one level of the cascade on string-named children —
  split the text, name the non-empty pieces `<D>_1, <D>_2, …`, file them under the table's row names
  in table order, trim trailing empties, join: the identity on every text with no trailing empty
  piece, for every table length ≥ the number of pieces (any separator, any prefix `D`).
* per version (`Hl7.Gen.ObV*.segWF`, kernel-evaluated over the regenerated tables): every segment
  entry not on the guard list has exactly the shape that lemma needs (rows `<SEG>_1 … <SEG>_n` in
  order, no gaps; same for the datatype structures two levels down).
What is **not** a theorem yet: that `Hl7.Pe.segment`/`encSegment` (the full model with its
validation branches) *is* that cascade on well-formed tables; this glue is covered by the
correspondence check and the implementation-side oracle (partial, DESIGN §5 C01).
-/
namespace Hl7.C01
open Hl7 Hl7.Py Hl7.Slots

structure Kid where
  name : String
  val : Str
deriving DecidableEq

/-- the ordinal name of the `i`-th (0-based) piece: `<D>_<i+1>` -/
def nm (d : String) (i : Nat) : String := d ++ "_" ++ toString (i + 1)

theorem nm_inj (d : String) (i j : Nat) (h : nm d i = nm d j) : i = j := by
  unfold nm at h
  have h' : (d ++ "_" ++ toString (i+1)).toList = (d ++ "_" ++ toString (j+1)).toList := by rw [h]
  simp only [String.toList_append] at h'
  have h2 : toString (i+1) = toString (j+1) := String.toList_inj.mp (List.append_cancel_left h')
  have := Nat.repr_inj.mp h2
  omega
/-- parse: children for the non-empty pieces, named by ordinal -/
def parseKids (d : String) : Nat → List Str → List Kid
  | _, [] => []
  | i, x :: xs => if x = [] then parseKids d (i+1) xs else ⟨nm d i, x⟩ :: parseKids d (i+1) xs

/-- encode: one group per table row name -/
def groupsByName (d : String) (kids : List Kid) : Nat → Nat → List (List Str)
  | _, 0 => []
  | i, k+1 => ((kids.filter (·.name = nm d i)).map (·.val)) :: groupsByName d kids (i+1) k

/-- the string-named children are the position-named pieces in disguise -/
theorem filter_parse (d : String) (i j : Nat) (xs : List Str) :
    ((parseKids d i xs).filter (·.name = nm d j)).map (·.val)
      = ((pieces i xs).filter (·.1 = j)).map (·.2) := by
  induction xs generalizing i with
  | nil => simp [parseKids, pieces]
  | cons x xs ih =>
    unfold parseKids pieces
    by_cases hx : x = []
    · simp [hx, ih]
    · simp only [hx, ↓reduceIte, List.filter_cons]
      by_cases hij : i = j
      · subst hij; simp [ih]
      · have : ¬ (nm d i = nm d j) := fun h => hij (nm_inj d i j h)
        simp [this, hij, ih]

theorem groups_eq_slots (d : String) (xs : List Str) (i0 i k : Nat) :
    groupsByName d (parseKids d i0 xs) i k = slots (pieces i0 xs) i k := by
  induction k generalizing i with
  | zero => simp [groupsByName, slots]
  | succ k ih => simp [groupsByName, slots, filter_parse, ih]

/-- C01 at one level, on string-named children: render ∘ trim ∘ encode ∘ parse = id on canonical piece lists -/
theorem C01_level_roundtrip (d : String) (xs : List Str) (n : Nat) (hn : xs.length ≤ n) (hc : NoTrailingEmpty xs) :
    render (dropTrailing (groupsByName d (parseKids d 0 xs) 0 n)) = xs := by
  rw [groups_eq_slots, slots_roundtrip xs n hn hc]

/-- … and on the text itself: split, parse, encode, join -/
theorem C01_text_roundtrip (d : String) (sep : Char) (t : Str) (n : Nat)
    (hn : (splitOn sep t).length ≤ n) (hc : NoTrailingEmpty (splitOn sep t)) :
    join sep (render (dropTrailing (groupsByName d (parseKids d 0 (splitOn sep t)) 0 n))) = t := by
  rw [C01_level_roundtrip d _ n hn hc, join_splitOn]


/-- non-vacuity: a concrete canonical component text satisfies the hypotheses -/
example : join '&' (render (dropTrailing (groupsByName "CWE" (parseKids "CWE" 0 (splitOn '&' "ID&TEST&&AHAH".toList)) 0 9)))
    = "ID&TEST&&AHAH".toList := by
  apply C01_text_roundtrip
  · decide
  · simp [splitOn, NoTrailingEmpty]

/-- the model's own segment parser and encoder on a concrete canonical segment (kernel-evaluated) -/
example : (do let s ← Pe.segment Hl7.Gen.V2_5 "PID|1||A^B&C~D||X^Y".toList EC.default false
              Pe.encSegment Hl7.Gen.V2_5 EC.default s) = .ok "PID|1||A^B&C~D||X^Y".toList := by
  decide +kernel

end Hl7.C01
