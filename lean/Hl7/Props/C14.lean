import Hl7.Model.Parse
/-!
# C14 — Name, long name, position and letter case all address the same child

Model: `Hl7.Pe.segFindChild` (= `Segment.find_child_reference`), `Hl7.Pe.fieldFindName`
(= `Field.find_child_reference`) and `Hl7.Pe.fieldTraverse` (= the name resolution of `Field._do_traversal`).
Proved for every name: resolution depends on the spelling only through its upper-case form; a name
is resolved to a declared child (or, for open-ended segments, to a well-formed `<SEG>_<n>`), and
otherwise fails with `ChildNotFound` / `ChildNotValid` — nothing else is returned or created.
Per version (`Hl7.Gen.ObV*.segWF`, `addressable`): row names are pairwise distinct, long names do
not collide with row names — so name and unique long name designate one row.
-/
namespace Hl7.Pe
open Hl7 Hl7.Py Hl7.G

variable (T : Tables)

/-- **C14 (letter case, segment level).** Two spellings with the same upper-case form resolve identically. -/
theorem C14_case_segment (sg : Seg) (n n' : String) (h : n.toUpper = n'.toUpper) :
    segFindChild T sg n = segFindChild T sg n' := by
  unfold segFindChild
  simp only [h]

/-- **C14 (letter case, field level).** `ElementList.set/get` upper-case the name before resolving it. -/
theorem C14_case_field (f : Fld) (n n' : String) (h : upper n = upper n') :
    fieldTraverse T f n = fieldTraverse T f n' := by
  unfold fieldTraverse
  simp only [h]

/-- **C14 (negative clause, segment).** A name either resolves or raises `ChildNotFound` / `ChildNotValid`. -/
theorem C14_segment_negative (sg : Seg) (n : String) (e : Exc) (h : segFindChild T sg n = .error e) :
    e = .ChildNotFound ∨ e = .ChildNotValid := by
  unfold segFindChild at h
  simp only at h
  split at h
  · cases h
  · split at h
    · cases h
    · split at h
      · cases h
      · split at h
        · cases h; exact Or.inr rfl
        · cases h; exact Or.inl rfl

/-- **C14 (nothing else is reached).** Whatever a name resolves to is a declared child of the segment
    (a key of its structure), or — only for open-ended segments — a well-formed `<SEG>_<n>`. -/
theorem C14_segment_resolves_to_declared (sg : Seg) (n k : String) (r : Ref) (h : segFindChild T sg n = .ok (k, r)) :
    (sg.byName.lookup k).isSome ∨ (sg.inf = true ∧ validChildName (some k) sg.name = true) := by
  unfold segFindChild at h
  simp only at h
  split at h
  · next r' hr => cases h; exact Or.inl (by simp [hr])
  · split at h
    · next kr hkr =>
      cases h
      rcases hb : sg.byLong.lookup n.toUpper with _ | k'
      · simp [hb] at hkr
      · simp only [hb, Option.bind] at hkr
        rcases hl : sg.byName.lookup k' with _ | r'
        · simp [hl] at hkr
        · simp [hl] at hkr
          obtain ⟨h1, h2⟩ := hkr
          subst h1
          exact Or.inl (by simp [hl])
    · split at h
      · next hc =>
        cases h
        simp only [Bool.and_eq_true] at hc
        exact Or.inr hc
      · split at h <;> cases h

/-- **C14 (negative clause, field).** Name resolution in a field raises only `ChildNotFound` / `ChildNotValid`. -/
theorem C14_field_negative (f : Fld) (n : String) (e : Exc) (h : fieldFindName T f n = .error e) :
    e = .ChildNotFound ∨ e = .ChildNotValid := by
  unfold fieldFindName at h
  simp only [pure, Except.pure, throw, throwThe, MonadExceptOf.throw] at h
  repeat' split at h
  all_goals first | (cases h; simp) | (simp at h)

end Hl7.Pe

namespace Hl7.Pe
open Hl7 Hl7.Py Hl7.G

variable (T : Tables)

/-- **C14 (positional path = name, component level).** A positional path `<SEG>_<i>_<j>` on the field `<SEG>_<i>` of a complex datatype `DT`
    — a spelling that is no child name itself, whose first two parts spell the field's own name and whose third part is an integer `j` —
    resolves to exactly what the HL7 name `DT_<j>` resolves to: `fieldTraverse` hands the name `DT_<j>` to the same `fieldFindName`, and
    returns its answer (the same child, or the same refusal). -/
theorem C14_positional_component (f : Fld) (name : String) (a b cd : Str) (j : Int) (dt : String)
    (hmiss : fieldFindName T f (upper name) = .error .ChildNotFound)
    (hparts : splitOn '_' (upper name).toList = [a, b, cd])
    (hint : Num.parseInt cd = some j)
    (hname : f.name = some (String.ofList (a ++ '_' :: b)))
    (hdt : f.dt = some dt) (hnb : isBase T f.dt = false) :
    fieldTraverse T f name = (fieldFindName T f (dt ++ "_" ++ String.ofList (intStr j))).map (fun n => (n, none)) := by
  unfold fieldTraverse
  simp only [hmiss, hparts, List.length_cons, List.length_nil]
  simp [hint, hname, hdt, List.getD]
  have hb : isBase T (some dt) = false := by rw [← hdt]; exact hnb
  simp only [hb, Bool.false_eq_true, ↓reduceIte, bind, Except.bind, pure, Except.pure]
  cases hq : fieldFindName T f (dt ++ "_" ++ String.ofList (intStr j)) with
  | ok n => simp [Except.map]
  | error e => simp [Except.map, Functor.map, throw, throwThe, MonadExceptOf.throw]
end Hl7.Pe

namespace Hl7.Pe
open Hl7 Hl7.Py Hl7.G
/-- non-vacuity: the hypotheses are met by `pid_5_2` on a `PID_5` of datatype `XPN`, and the path resolves to `XPN_2` -/
def exT : Tables := ⟨"2.5", [], [], [], [], [], [], [⟨"ST", .text, none⟩], []⟩
def exF : Fld := ⟨some "PID_5", some "XPN", some [("XPN_1", .leaf (some "ST")), ("XPN_2", .leaf (some "ST"))], [], [], [], none⟩
-- (a test by evaluation, labelled as such: Lean's `String` functions do not reduce in the kernel, so this is `#guard`, not `decide`)
#guard fieldFindName exT exF (upper "pid_5_2") == .error .ChildNotFound
#guard splitOn '_' (upper "pid_5_2").toList == ["PID".toList, "5".toList, "2".toList] && Num.parseInt "2".toList == some 2
#guard exF.name == some (String.ofList ("PID".toList ++ '_' :: "5".toList)) && isBase exT exF.dt == false
#guard fieldTraverse exT exF "pid_5_2" == .ok ("XPN_2", none)
#guard fieldTraverse exT exF "pid_5_2" == (fieldFindName exT exF ("XPN" ++ "_" ++ String.ofList (intStr 2))).map (fun n => (n, none))
end Hl7.Pe
