import Hl7.Model.Message
/-!
# C15 — Bad input fails with the library's exceptions, never with a crash

Proved here, for **every string**: the header functions `get_message_type` / `get_message_info`
(on which the MLLP server routes) return a result or raise `ParserError` / `InvalidEncodingChars`.
For `parse_message`, `to_er7` and `validate` the model keeps every partial Python operation as an
explicit crash branch; that those branches are unreachable is *not* a theorem (it is false for the
table rows of finding D2 and for finding D4) — it is decided by the correspondence on the
malformed/junk streams plus the implementation-side oracle (partial, DESIGN §5 C15).
-/
namespace Hl7.Msg
open Hl7 Hl7.Py

/-- the only errors `_split_msh` can produce -/
theorem splitMsh_errors (s : Str) (e : Exc) (h : splitMsh s = .error e) :
    e = .ParserError ∨ e = .InvalidEncodingChars := by
  unfold splitMsh at h
  split at h
  · dsimp only at h
    repeat' split at h
    all_goals first | (cases h; simp) | (simp at h)
  · cases h; simp

/-- **C15 (header).** For every string, `get_message_type` returns or raises `ParserError` /
    `InvalidEncodingChars`: never a crash. -/
theorem C15_getMessageType (s : Str) :
    (∃ r, getMessageType s = .ok r) ∨ getMessageType s = .error .ParserError ∨
      getMessageType s = .error .InvalidEncodingChars := by
  unfold getMessageType
  cases h : splitMsh s with
  | ok p => exact Or.inl ⟨_, rfl⟩
  | error e =>
    rcases splitMsh_errors s e h with h' | h' <;> subst h'
    · exact Or.inr (Or.inl rfl)
    · exact Or.inr (Or.inr rfl)

/-- **C15 (header).** Same for `get_message_info`. -/
theorem C15_getMessageInfo (s : Str) :
    (∃ r, getMessageInfo s = .ok r) ∨ getMessageInfo s = .error .ParserError ∨
      getMessageInfo s = .error .InvalidEncodingChars := by
  unfold getMessageInfo
  cases h : splitMsh s with
  | ok p => exact Or.inl ⟨_, rfl⟩
  | error e =>
    rcases splitMsh_errors s e h with h' | h' <;> subst h'
    · exact Or.inr (Or.inl rfl)
    · exact Or.inr (Or.inr rfl)

/-- `parse_message` fails before touching the tables exactly as the header does -/
theorem C15_parse_header_errors (tables : List G.Tables) (d : Defaults) (s : Str) (strict fg : Bool) (e : Exc)
    (h : getMessageInfo (lstrip s) = .error e) : ∃ e', parseMessage tables d s strict fg = .error e' ∧ e' = e := by
  unfold parseMessage
  simp [h, bind, Except.bind]

/-- a short header with a five-character MSH-2 is rejected, not a crash (regression of finding D11) -/
example : getMessageType "MSH|^~\\&#|A|B".toList = .error .InvalidEncodingChars := by decide
example : getMessageType "MSH|^~\\&|A|B".toList = .ok none := by decide
example : getMessageType "MSH|^~\\&|A|B|C|D|E||ADT^A01|".toList = .ok (some "ADT^A01".toList) := by decide

end Hl7.Msg
