import Hl7.Lemmas.Groups
import Hl7.Lemmas.GroupSound
import Hl7.Gen.V2_5
/-!
# C08 / C03 — Group finding only appends in document order; with groups off nothing is dropped

Model: `Hl7.Msg.parseSegments` (= `parser.parse_segments`, the `parents_refs/current_parent` loop as a
zipper).  Proved for **every structure, every text, both validation levels**:

* `C08_order`: with group finding on, flattening the resulting tree yields a *sublist* of the
  segments parsed from the input lines, in document order; every element of it is the parse of its
  own line (nothing is invented, duplicated or reordered).
* `C08_sound`: every node of the resulting tree is a declared child of the element it sits in, at every depth: a group node is
  one of its parent's group rows and carries exactly that row's structure; a segment node is the parse of an input line whose
  name is a direct segment row of its parent (no group is invented, nothing is attached where it is not declared).
* `C03_flat_keeps_all`: with group finding off the result is exactly the parsed lines, all of them.
* `C08_deterministic`: the tree is a function of (tables, text, delimiters, level) — trivially, it is
  a Lean function; stated for completeness.

What is false of the code and therefore not a theorem: "sublist" cannot be strengthened to "equal"
(finding D4: a line the finder cannot place is silently dropped — `C03_witness_drop`), and the tree is
not always the derivation the structure prescribes (finding D16, decided by the oracle of
tools/props/c08.py on generated instances).
-/
namespace Hl7.Msg
open Hl7 Hl7.Py Hl7.G

/-- the segment parsed from a line, if it parses -/
def parsedLine (T : Tables) (ec : EC) (strict : Bool) (l : Str) : Option Pe.Seg :=
  match Pe.segment T (strip l) ec strict with
  | .ok s => some s
  | .error _ => none

theorem foldl_place_sublist (T : Tables) (ec : EC) (strict : Bool) (lines : List Str) :
    ∀ (s s' : St),
      lines.foldlM (fun (s : St) l =>
        place T strict (String.ofList (l.take 3)) (fun _ => Pe.segment T (strip l) ec strict) (s.frames.length + 1) s) s = .ok s' →
      ∃ added, s'.flatAll = s.flatAll ++ added ∧ added.Sublist (lines.filterMap (parsedLine T ec strict)) := by
  induction lines with
  | nil =>
    intro s s' h
    simp [List.foldlM, pure, Except.pure] at h
    cases h
    exact ⟨[], by simp, by simp⟩
  | cons l ls ih =>
    intro s s' h
    simp only [List.foldlM, bind, Except.bind] at h
    cases hp : place T strict (String.ofList (l.take 3)) (fun _ => Pe.segment T (strip l) ec strict) (s.frames.length + 1) s with
    | error e => simp [hp] at h
    | ok s1 =>
      simp only [hp] at h
      obtain ⟨added, h1, h2⟩ := ih s1 s' h
      rcases place_flat T strict _ _ _ s s1 hp with hsame | ⟨sg, hsg, happ⟩
      · refine ⟨added, by rw [h1, hsame], ?_⟩
        simp only [List.filterMap_cons]
        cases parsedLine T ec strict l with
        | none => exact h2
        | some x => exact h2.trans (List.sublist_cons_self _ _)
      · refine ⟨sg :: added, by rw [h1, happ]; simp, ?_⟩
        have : parsedLine T ec strict l = some sg := by simp [parsedLine, hsg]
        simp only [List.filterMap_cons, this]
        exact List.Sublist.cons₂ _ h2

/-- **C08 (order) / C03 (no reordering).** With group finding on, the flattened tree is a sublist, in
    document order, of the segments parsed from the non-empty input lines. -/
theorem C08_order (T : Tables) (text : Str) (ec : EC) (strict : Bool) (rows : List SRow)
    (nodes : List Node) (h : parseSegments T text ec strict (some rows) true = .ok nodes) :
    (flatL nodes).Sublist (((splitOn '\r' text).filter (fun l => !l.isEmpty)).filterMap (parsedLine T ec strict)) := by
  unfold parseSegments at h
  simp only [bind, Except.bind] at h
  generalize hl : (splitOn '\r' text).filter (fun l => !l.isEmpty) = lines at h ⊢
  cases hf : lines.foldlM (fun (s : St) l =>
      place T strict (String.ofList (l.take 3)) (fun _ => Pe.segment T (strip l) ec strict) (s.frames.length + 1) s)
      (⟨[], rows, []⟩ : St) with
  | error e => simp [hf] at h
  | ok st =>
    simp only [hf, pure, Except.pure] at h
    cases h
    obtain ⟨added, h1, h2⟩ := foldl_place_sublist T ec strict lines _ st hf
    rw [finish_flat _ st (by omega), h1]
    simpa [St.flatAll, flatL, pending] using h2


/-- a segment node is sound in `rows` when it is the parse of one of the input lines whose (raw, three-character) name is a
    direct segment row of `rows` -/
def SegFrom (T : Tables) (ec : EC) (strict : Bool) (lines : List Str) (sg : Pe.Seg) (rows : List SRow) : Prop :=
  ∃ l ∈ lines, Pe.segment T (strip l) ec strict = .ok sg ∧ direct (String.ofList (l.take 3)) rows = some true

theorem foldl_place_ok (T : Tables) (ec : EC) (strict : Bool) (all : List Str) (lines : List Str) (hsub : ∀ l ∈ lines, l ∈ all) :
    ∀ (s s' : St),
      lines.foldlM (fun (s : St) l =>
        place T strict (String.ofList (l.take 3)) (fun _ => Pe.segment T (strip l) ec strict) (s.frames.length + 1) s) s = .ok s' →
      St.Ok (SegFrom T ec strict all) s → St.Ok (SegFrom T ec strict all) s' ∧ s'.topRows = s.topRows := by
  induction lines with
  | nil =>
    intro s s' h hok
    simp [List.foldlM, pure, Except.pure] at h
    cases h
    exact ⟨hok, rfl⟩
  | cons l ls ih =>
    intro s s' h hok
    simp only [List.foldlM, bind, Except.bind] at h
    cases hp : place T strict (String.ofList (l.take 3)) (fun _ => Pe.segment T (strip l) ec strict) (s.frames.length + 1) s with
    | error e => simp [hp] at h
    | ok s1 =>
      simp only [hp] at h
      have hmk : ∀ sg, (fun (_ : Unit) => Pe.segment T (strip l) ec strict) () = .ok sg →
          ∀ rows, direct (String.ofList (l.take 3)) rows = some true → SegFrom T ec strict all sg rows :=
        fun sg hsg rows hd => ⟨l, hsub l (List.mem_cons_self), hsg, hd⟩
      obtain ⟨h1, h2⟩ := place_ok (SegFrom T ec strict all) T strict _ _ hmk _ s s1 hp hok
      obtain ⟨h3, h4⟩ := ih (fun x hx => hsub x (List.mem_cons_of_mem _ hx)) s1 s' h h1
      exact ⟨h3, by rw [h4, h2]⟩

/-- **C08 (soundness).** With group finding on, every element of the resulting tree is a declared child of the element it
    is put in, at every depth: a group node is one of the group rows of its parent and carries exactly that row's
    structure; a segment node is the parse of an input line whose name is a direct segment row of its parent — for every
    structure, every text, both validation levels. -/
theorem C08_sound (T : Tables) (text : Str) (ec : EC) (strict : Bool) (rows : List SRow)
    (nodes : List Node) (h : parseSegments T text ec strict (some rows) true = .ok nodes) :
    GSoundL (SegFrom T ec strict ((splitOn '\r' text).filter (fun l => !l.isEmpty))) rows nodes := by
  unfold parseSegments at h
  simp only [bind, Except.bind] at h
  generalize hl : (splitOn '\r' text).filter (fun l => !l.isEmpty) = lines at h ⊢
  cases hf : lines.foldlM (fun (s : St) l =>
      place T strict (String.ofList (l.take 3)) (fun _ => Pe.segment T (strip l) ec strict) (s.frames.length + 1) s)
      (⟨[], rows, []⟩ : St) with
  | error e => simp [hf] at h
  | ok st =>
    simp only [hf, pure, Except.pure] at h
    cases h
    have h0 : St.Ok (SegFrom T ec strict lines) (⟨[], rows, []⟩ : St) := ⟨by simp [GSoundL], by simp [framesOk]⟩
    obtain ⟨h1, h2⟩ := foldl_place_ok T ec strict lines lines (fun _ hx => hx) _ st hf h0
    have := finish_ok (SegFrom T ec strict lines) (st.frames.length + 1) st h1 (by omega)
    rw [h2] at this
    exact this

/-- **C03 (what is dropped).** With group finding on, one step of the parser leaves the segments built so far unchanged — the line
    is silently dropped (finding D4) — only when the line's name is found neither in the innermost open group, nor in any group
    around it, nor at the message level: a line that some open level can place is never dropped.  (`s` is any state the
    parser can be in; the fuel is the one `parse_segments` uses.) -/
theorem C03_dropped_only_if_unplaceable (T : Tables) (ec : EC) (strict : Bool) (s s' : St) (l : Str)
    (hp : place T strict (String.ofList (l.take 3)) (fun _ => Pe.segment T (strip l) ec strict) (s.frames.length + 1) s = .ok s')
    (hsame : s'.flatAll = s.flatAll) :
    ∀ rows ∈ s.pathRows, findInRows (String.ofList (l.take 3)) rows = none :=
  place_dropped_unplaceable T strict _ _ _ s s' (by omega) hp hsame

theorem mapM_parse_flat (T : Tables) (ec : EC) (strict : Bool) (lines : List Str) :
    ∀ nodes, lines.mapM (parseLine T ec strict) = .ok nodes →
      flatL nodes = lines.filterMap (parsedLine T ec strict) ∧ nodes.length = lines.length := by
  induction lines with
  | nil => intro nodes h; simp [List.mapM_nil, pure, Except.pure] at h; cases h; simp [flatL]
  | cons l ls ih =>
    intro nodes h
    simp only [List.mapM_cons, bind, Except.bind] at h
    cases hp : parseLine T ec strict l with
    | error e => simp [hp] at h
    | ok nd =>
      simp only [hp] at h
      cases hr : ls.mapM (parseLine T ec strict) with
      | error e => simp [hr] at h
      | ok rest =>
        simp only [hr, pure, Except.pure] at h
        cases h
        obtain ⟨h1, h2⟩ := ih rest hr
        unfold parseLine at hp
        cases hs : Pe.segment T (strip l) ec strict with
        | error e => simp [hs] at hp
        | ok sg =>
          simp only [hs] at hp
          cases hp
          simp [flatL, flat, h1, h2, parsedLine, hs]

/-- **C03 (groups off keeps everything).** With group finding off every non-empty line becomes exactly one
    top-level segment, in order: nothing is dropped. -/
theorem C03_flat_keeps_all (T : Tables) (text : Str) (ec : EC) (strict : Bool) (refs : Option (List SRow))
    (nodes : List Node) (h : parseSegments T text ec strict refs false = .ok nodes) :
    flatL nodes = ((splitOn '\r' text).filter (fun l => !l.isEmpty)).filterMap (parsedLine T ec strict) ∧
    nodes.length = ((splitOn '\r' text).filter (fun l => !l.isEmpty)).length := by
  unfold parseSegments at h
  simp only [bind, Except.bind] at h
  cases refs <;> exact mapM_parse_flat T ec strict _ nodes h

/-- **C08 (deterministic).** -/
theorem C08_deterministic (T : Tables) (text : Str) (ec : EC) (strict fg : Bool) (refs : Option (List SRow))
    (a b : List Node) (ha : parseSegments T text ec strict refs fg = .ok a)
    (hb : parseSegments T text ec strict refs fg = .ok b) : flatL a = flatL b := by
  rw [ha] at hb; cases hb; rfl

/-- the names of all segments of a parsed message, flattened -/
def segNames (m : Message) : List String := (flatL m.kids).map (·.name)

def witnessText : Str :=
  "MSH|^~\\&|A|B|C|D|2020||ADT^A01^ADT_A01|1|P|2.5\rEVN||2020\rPID|1\rZZZ|1\rPV1|1\rOBR|1".toList

/-- **Finding D4 (kernel-checked witness).** With group finding on, the `ZZZ` and `OBR` lines of this
    ADT_A01 message vanish without an exception; with group finding off they are kept. So "sublist"
    in `C08_order` cannot be strengthened to equality, and C03's "never a shorter message" is false
    of the code. -/
theorem C03_witness_drop :
    (parseMessage [Hl7.Gen.V2_5] Defaults.std witnessText false true).map segNames = .ok ["MSH", "EVN", "PID", "PV1"] ∧
    (parseMessage [Hl7.Gen.V2_5] Defaults.std witnessText false false).map segNames
      = .ok ["MSH", "EVN", "PID", "ZZZ", "PV1", "OBR"] := by
  constructor <;> decide +kernel

end Hl7.Msg
