import Hl7.Lemmas.Split
import Hl7.Lemmas.Slots
/-!
# C02 — Every defined position is encoded at, and parsed from, its own index

Proved for every index and every table length (the arithmetic core shared by fields, components and
subcomponents): a single value filed under position `i` of a gap-free ordered table is rendered after
exactly `i` empty slots and nothing follows it — for every `i`, hence also for the open-ended
positions of Z-segments and `varies`-terminated segments.
Per version (`Hl7.Gen.ObV*.segWF`, `segInstantiable`): the tables have the gap-free ordered shape
that lemma needs, and every declared segment can be instantiated.
That `Hl7.Pe.segSetStr`/`encSegment` is this filing on well-formed tables is covered by the exhaustive
correspondence over all positions (thorough tier) — partial, DESIGN §5 C02.
-/
namespace Hl7.C02
open Hl7 Hl7.Slots
open Hl7.Py (join)

theorem slots_single_lt (i : Nat) (v : Str) (j k : Nat) (h : i < j) :
    slots [(i, v)] j k = List.replicate k [] := by
  induction k generalizing j with
  | zero => simp [slots]
  | succ k ih =>
    have hne : ¬ (i = j) := by omega
    simp [slots, hne, ih (j + 1) (by omega), List.replicate_succ]

/-- filing one value under position `i` fills exactly slot `i` -/
theorem slots_single (i : Nat) (v : Str) (j k : Nat) (hj : j ≤ i) (hk : i < j + k) :
    slots [(i, v)] j k = List.replicate (i - j) [] ++ [[v]] ++ List.replicate (j + k - i - 1) [] := by
  induction k generalizing j with
  | zero => omega
  | succ k ih =>
    by_cases hij : i = j
    · subst hij
      simp [slots, slots_single_lt i v (i + 1) k (by omega)]
    · have h1 : j + 1 ≤ i := by omega
      have := ih (j + 1) h1 (by omega)
      have hsub : i - j = (i - (j + 1)) + 1 := by omega
      simp only [slots, hij, List.filter_cons, List.filter_nil]
      rw [this, hsub, List.replicate_succ]
      simp
      omega

theorem dropTrailing_single (n m : Nat) (v : Str) :
    dropTrailing (List.replicate n ([] : List Str) ++ [[v]] ++ List.replicate m []) = List.replicate n [] ++ [[v]] := by
  induction n with
  | zero =>
    simp only [List.replicate_zero, List.nil_append, List.cons_append]
    rw [dropTrailing, dropTrailing_replicate]
    simp
  | succ n ih =>
    simp only [List.replicate_succ, List.cons_append, List.append_assoc] at ih ⊢
    rw [dropTrailing, ih]
    cases n <;> simp [List.replicate_succ]

theorem render_single (n : Nat) (v : Str) :
    render (List.replicate n ([] : List Str) ++ [[v]]) = List.replicate n [] ++ [v] := by
  induction n with
  | zero => simp [render]
  | succ n ih =>
    simp only [render, List.replicate_succ, List.cons_append, List.flatMap_cons] at ih ⊢
    simp [ih]

/-- **C02 (own index).** A value filed under (0-based) position `i` of a table with `k > i` rows is
    encoded after exactly `i` empty slots: `join sep` of the result is `i` separators followed by
    the value. -/
theorem C02_slot_position (i k : Nat) (v : Str) (hk : i < k) :
    render (dropTrailing (slots [(i, v)] 0 k)) = List.replicate i [] ++ [v] := by
  have := slots_single i v 0 k (Nat.zero_le _) (by omega)
  simp only [Nat.sub_zero, Nat.zero_add] at this
  rw [this, dropTrailing_single, render_single]

theorem join_replicate_value (sep : Char) (i : Nat) (v : Str) :
    join sep (List.replicate i ([] : Str) ++ [v]) = List.replicate i sep ++ v := by
  induction i with
  | zero => simp [join]
  | succ i ih =>
    cases i with
    | zero => simp [join]
    | succ i =>
      simp only [List.replicate_succ, List.cons_append] at ih ⊢
      simp [join, ih]

/-- **C02 (and nowhere else).** The encoded text is *exactly* `i` separators followed by the value:
    no other slot contributes anything. -/
theorem C02_slot_only_there (sep : Char) (i k : Nat) (v : Str) (hk : i < k) :
    join sep (render (dropTrailing (slots [(i, v)] 0 k))) = List.replicate i sep ++ v := by
  rw [C02_slot_position i k v hk, join_replicate_value]

/-- **C02 (open-ended).** For Z-segments and `varies`-terminated segments the table is extended up to
    the highest index in use, so the statement holds for *any* index `N`. -/
theorem C02_open_ended (sep : Char) (N : Nat) (v : Str) :
    join sep (render (dropTrailing (slots [(N, v)] 0 (N + 1)))) = List.replicate N sep ++ v :=
  C02_slot_only_there sep N (N + 1) v (by omega)

/-- non-vacuity -/
example : join '|' (render (dropTrailing (slots [(2, "X".toList)] 0 30))) = "||X".toList := by
  rw [C02_slot_only_there '|' 2 30 _ (by omega)]; rfl

end Hl7.C02
