import Hl7.Lemmas.Split
import Hl7.Lemmas.Slots
import Hl7.Model.Cascade
/-!
# C02 — Every defined position is encoded at, and parsed from, its own index

Proved for every index and every table length (the arithmetic core shared by fields, components and
subcomponents): a single value filed under position `i` of a gap-free ordered table is rendered after
exactly `i` empty slots and nothing follows it — for every `i`, hence also for the open-ended
positions of Z-segments and `varies`-terminated segments.
Per version (`Hl7.Gen.ObV*.segWF`, `segInstantiable`): the tables have the gap-free ordered shape
that lemma needs, and every declared segment can be instantiated.
That `Hl7.Pe.segSetStr`/`encSegment` is this filing on well-formed tables is covered by the exhaustive
correspondence over all positions (thorough tier) — partial, DESIGN §5 C02.
-/
namespace Hl7.C02
open Hl7 Hl7.Slots
open Hl7.Py (join)

theorem slots_single_lt (i : Nat) (v : Str) (j k : Nat) (h : i < j) :
    slots [(i, v)] j k = List.replicate k [] := by
  induction k generalizing j with
  | zero => simp [slots]
  | succ k ih =>
    have hne : ¬ (i = j) := by omega
    simp [slots, hne, ih (j + 1) (by omega), List.replicate_succ]

/-- filing one value under position `i` fills exactly slot `i` -/
theorem slots_single (i : Nat) (v : Str) (j k : Nat) (hj : j ≤ i) (hk : i < j + k) :
    slots [(i, v)] j k = List.replicate (i - j) [] ++ [[v]] ++ List.replicate (j + k - i - 1) [] := by
  induction k generalizing j with
  | zero => omega
  | succ k ih =>
    by_cases hij : i = j
    · subst hij
      simp [slots, slots_single_lt i v (i + 1) k (by omega)]
    · have h1 : j + 1 ≤ i := by omega
      have := ih (j + 1) h1 (by omega)
      have hsub : i - j = (i - (j + 1)) + 1 := by omega
      simp only [slots, hij, List.filter_cons, List.filter_nil]
      rw [this, hsub, List.replicate_succ]
      simp
      omega

theorem dropTrailing_single (n m : Nat) (v : Str) :
    dropTrailing (List.replicate n ([] : List Str) ++ [[v]] ++ List.replicate m []) = List.replicate n [] ++ [[v]] := by
  induction n with
  | zero =>
    simp only [List.replicate_zero, List.nil_append, List.cons_append]
    rw [dropTrailing, dropTrailing_replicate]
    simp
  | succ n ih =>
    simp only [List.replicate_succ, List.cons_append, List.append_assoc] at ih ⊢
    rw [dropTrailing, ih]
    cases n <;> simp [List.replicate_succ]

theorem render_single (n : Nat) (v : Str) :
    render (List.replicate n ([] : List Str) ++ [[v]]) = List.replicate n [] ++ [v] := by
  induction n with
  | zero => simp [render]
  | succ n ih =>
    simp only [render, List.replicate_succ, List.cons_append, List.flatMap_cons] at ih ⊢
    simp [ih]

/-- **C02 (own index).** A value filed under (0-based) position `i` of a table with `k > i` rows is
    encoded after exactly `i` empty slots: `join sep` of the result is `i` separators followed by
    the value. -/
theorem C02_slot_position (i k : Nat) (v : Str) (hk : i < k) :
    render (dropTrailing (slots [(i, v)] 0 k)) = List.replicate i [] ++ [v] := by
  have := slots_single i v 0 k (Nat.zero_le _) (by omega)
  simp only [Nat.sub_zero, Nat.zero_add] at this
  rw [this, dropTrailing_single, render_single]

theorem join_replicate_value (sep : Char) (i : Nat) (v : Str) :
    join sep (List.replicate i ([] : Str) ++ [v]) = List.replicate i sep ++ v := by
  induction i with
  | zero => simp [join]
  | succ i ih =>
    cases i with
    | zero => simp [join]
    | succ i =>
      simp only [List.replicate_succ, List.cons_append] at ih ⊢
      simp [join, ih]

/-- **C02 (and nowhere else).** The encoded text is *exactly* `i` separators followed by the value:
    no other slot contributes anything. -/
theorem C02_slot_only_there (sep : Char) (i k : Nat) (v : Str) (hk : i < k) :
    join sep (render (dropTrailing (slots [(i, v)] 0 k))) = List.replicate i sep ++ v := by
  rw [C02_slot_position i k v hk, join_replicate_value]

/-- **C02 (open-ended).** For Z-segments and `varies`-terminated segments the table is extended up to
    the highest index in use, so the statement holds for *any* index `N`. -/
theorem C02_open_ended (sep : Char) (N : Nat) (v : Str) :
    join sep (render (dropTrailing (slots [(N, v)] 0 (N + 1)))) = List.replicate N sep ++ v :=
  C02_slot_only_there sep N (N + 1) v (by omega)

/-! ### every depth at once: a value at the path `(i, r, j, k)` of the cascade -/

open Hl7.Py (splitOn)
open Hl7.Casc

def sepOf : Lvl → Char
  | .pos c _ => c
  | .rep c => c

/-- the tree holding one leaf `v` at the positional path `p` (one repetition at repetition levels) -/
def single : List Lvl → List Nat → Str → T
  | [], _, v => .leaf v
  | .pos _ _ :: ls, i :: p, v => .pos [(i, single ls p v)]
  | .pos _ _ :: ls, [], v => .pos [(0, single ls [] v)]
  | .rep _ :: ls, _ :: p, v => .reps [single ls p v]
  | .rep _ :: ls, [], v => .reps [single ls [] v]

/-- the text that has `v` at path `p` and nothing else: at each positional level exactly `i` separators before it -/
def posText : List Lvl → List Nat → Str → Str
  | [], _, v => v
  | .pos c _ :: ls, i :: p, v => List.replicate i c ++ posText ls p v
  | .pos _ _ :: ls, [], v => posText ls [] v
  | .rep _ :: ls, _ :: p, v => posText ls p v
  | .rep _ :: ls, [], v => posText ls [] v

/-- every positional index of the path is inside its level's table -/
def PathOk : List Lvl → List Nat → Prop
  | [], _ => True
  | .pos _ w :: ls, i :: p => i < w ∧ PathOk ls p
  | .pos _ w :: ls, [] => 0 < w ∧ PathOk ls []
  | .rep _ :: ls, _ :: p => PathOk ls p
  | .rep _ :: ls, [] => PathOk ls []

/-- **C02 (encoded at its own index, every depth).** A value alone at the path `p` of the cascade is encoded as exactly `pᵢ`
    separators of each positional level in front of it, and nothing else — for every level list, every path inside the tables. -/
theorem C02_cascade_enc : ∀ (ls : List Lvl) (p : List Nat) (v : Str), PathOk ls p → enc ls (single ls p v) = posText ls p v
  | [], _, _, _ => rfl
  | .pos c w :: ls, i :: p, v, h => by
    simp only [single, enc, List.map_cons, List.map_nil, posText]
    rw [C02_slot_only_there c i w _ h.1, C02_cascade_enc ls p v h.2]
  | .pos c w :: ls, [], v, h => by
    simp only [single, enc, List.map_cons, List.map_nil, posText]
    rw [C02_slot_only_there c 0 w _ h.1, C02_cascade_enc ls [] v h.2]
    simp
  | .rep c :: ls, _ :: p, v, h => by
    simp only [single, enc, List.map_cons, List.map_nil, posText, Hl7.Py.join]
    exact C02_cascade_enc ls p v h
  | .rep c :: ls, [], v, h => by
    simp only [single, enc, List.map_cons, List.map_nil, posText, Hl7.Py.join]
    exact C02_cascade_enc ls [] v h

theorem splitOn_clean (c : Char) (t : Str) (h : c ∉ t) : splitOn c t = [t] := by
  induction t with
  | nil => simp [splitOn]
  | cons x xs ih =>
    have hx : x ≠ c := fun e => h (e ▸ List.mem_cons_self)
    have hxs : c ∉ xs := fun hm => h (List.mem_cons_of_mem _ hm)
    unfold splitOn
    simp [hx, ih hxs]

theorem splitOn_replicate (c : Char) (i : Nat) (t : Str) (h : c ∉ t) :
    splitOn c (List.replicate i c ++ t) = List.replicate i [] ++ [t] := by
  induction i with
  | zero => simpa using splitOn_clean c t h
  | succ i ih => simp [List.replicate_succ, splitOn, ih]

theorem pieces_single (i j : Nat) (t : Str) (ht : t ≠ []) :
    pieces j (List.replicate i ([] : Str) ++ [t]) = [(j + i, t)] := by
  induction i generalizing j with
  | zero => simp [pieces, ht]
  | succ i ih =>
    simp only [List.replicate_succ, List.cons_append, pieces, if_true]
    rw [ih (j + 1)]
    congr 2; omega

/-- the value contains none of the separators, which are pairwise distinct -/
def Clean (ls : List Lvl) (v : Str) : Prop := (∀ l ∈ ls, sepOf l ∉ v) ∧ (ls.map sepOf).Nodup

theorem posText_free (c : Char) : ∀ (ls : List Lvl) (p : List Nat) (v : Str), c ∉ v → c ∉ ls.map sepOf → c ∉ posText ls p v
  | [], _, v, hv, _ => hv
  | .pos d w :: ls, i :: p, v, hv, hs => by
    simp only [posText, List.mem_append, List.mem_replicate, not_or]
    simp only [List.map_cons, sepOf, List.mem_cons, not_or] at hs
    exact ⟨fun h => hs.1 h.2, posText_free c ls p v hv hs.2⟩
  | .pos d w :: ls, [], v, hv, hs => by
    simp only [posText]
    simp only [List.map_cons, List.mem_cons, not_or] at hs
    exact posText_free c ls [] v hv hs.2
  | .rep d :: ls, _ :: p, v, hv, hs => by
    simp only [posText]
    simp only [List.map_cons, List.mem_cons, not_or] at hs
    exact posText_free c ls p v hv hs.2
  | .rep d :: ls, [], v, hv, hs => by
    simp only [posText]
    simp only [List.map_cons, List.mem_cons, not_or] at hs
    exact posText_free c ls [] v hv hs.2

theorem posText_ne_nil : ∀ (ls : List Lvl) (p : List Nat) (v : Str), v ≠ [] → posText ls p v ≠ []
  | [], _, v, hv => hv
  | .pos d w :: ls, i :: p, v, hv => by
    simp only [posText]
    intro h
    exact posText_ne_nil ls p v hv (List.append_eq_nil_iff.mp h).2
  | .pos d w :: ls, [], v, hv => by simp only [posText]; exact posText_ne_nil ls [] v hv
  | .rep d :: ls, _ :: p, v, hv => by simp only [posText]; exact posText_ne_nil ls p v hv
  | .rep d :: ls, [], v, hv => by simp only [posText]; exact posText_ne_nil ls [] v hv

/-- **C02 (parsed from its own index, every depth).** Parsing the text that has a (non-empty, separator-free) value after exactly
    `pᵢ` separators at each positional level yields the tree with that value at path `p` and nothing else. -/
theorem C02_cascade_parse : ∀ (ls : List Lvl) (p : List Nat) (v : Str), v ≠ [] → Clean ls v →
    parse ls (posText ls p v) = single ls p v
  | [], _, _, _, _ => rfl
  | .pos c w :: ls, i :: p, v, hv, hc => by
    have hcl : Clean ls v := ⟨fun l hl => hc.1 l (List.mem_cons_of_mem _ hl), (List.nodup_cons.mp hc.2).2⟩
    have hfree : c ∉ posText ls p v :=
      posText_free c ls p v (hc.1 (.pos c w) List.mem_cons_self) (List.nodup_cons.mp hc.2).1
    simp only [posText, parse, single]
    rw [splitOn_replicate c i _ hfree, pieces_single i 0 _ (posText_ne_nil ls p v hv)]
    simp [C02_cascade_parse ls p v hv hcl]
  | .pos c w :: ls, [], v, hv, hc => by
    have hcl : Clean ls v := ⟨fun l hl => hc.1 l (List.mem_cons_of_mem _ hl), (List.nodup_cons.mp hc.2).2⟩
    have hfree : c ∉ posText ls [] v :=
      posText_free c ls [] v (hc.1 (.pos c w) List.mem_cons_self) (List.nodup_cons.mp hc.2).1
    simp only [posText, parse, single]
    rw [splitOn_clean c _ hfree]
    have := pieces_single 0 0 _ (posText_ne_nil ls [] v hv)
    simp only [List.replicate_zero, List.nil_append, Nat.add_zero] at this
    rw [this]
    simp [C02_cascade_parse ls [] v hv hcl]
  | .rep c :: ls, _ :: p, v, hv, hc => by
    have hcl : Clean ls v := ⟨fun l hl => hc.1 l (List.mem_cons_of_mem _ hl), (List.nodup_cons.mp hc.2).2⟩
    have hfree : c ∉ posText ls p v :=
      posText_free c ls p v (hc.1 (.rep c) List.mem_cons_self) (List.nodup_cons.mp hc.2).1
    simp only [posText, parse, single]
    rw [splitOn_clean c _ hfree]
    simp [C02_cascade_parse ls p v hv hcl]
  | .rep c :: ls, [], v, hv, hc => by
    have hcl : Clean ls v := ⟨fun l hl => hc.1 l (List.mem_cons_of_mem _ hl), (List.nodup_cons.mp hc.2).2⟩
    have hfree : c ∉ posText ls [] v :=
      posText_free c ls [] v (hc.1 (.rep c) List.mem_cons_self) (List.nodup_cons.mp hc.2).1
    simp only [posText, parse, single]
    rw [splitOn_clean c _ hfree]
    simp [C02_cascade_parse ls [] v hv hcl]

/-- non-vacuity: field 5, component 2, subcomponent 3 of a segment body -/
example : posText [.pos '|' 30, .rep '~', .pos '^' 12, .pos '&' 6] [4, 0, 1, 2] "X".toList = "||||^&&X".toList := by decide

/-- non-vacuity -/
example : join '|' (render (dropTrailing (slots [(2, "X".toList)] 0 30))) = "||X".toList := by
  rw [C02_slot_only_there '|' 2 30 _ (by omega)]; rfl

end Hl7.C02
