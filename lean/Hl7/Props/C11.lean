import Hl7.Props.C10
/-!
# C11 — Reading never writes; the first write materialises exactly the path read  (element-graph core)

In the implementation a read of a missing child creates the element with a *traversal* parent only
(`create_element(traversal_parent=True)` → the traversal-parent setter → `ElementList.append`, which files it in
the shadow index `traversal_indexes`), and the first write calls `set_parent_to_traversal()` on the leaf.

Proved on the model, for every heap and every structure:

* `C11_read_writes_nothing` — creating a traversal child (any number of times: the statement is per step and
  its conclusion is an equality of the observations) changes **no child list and no parent pointer** of any
  node, whether the structure accepts the child or not; what `to_er7`, `children` and `validate` look at is
  therefore unchanged;
* `C11_promote_stop` — promoting an element that is not a pending traversal child changes no list, no parent;
* `C11_promote_exact` — a successful promotion appends to each list only elements that were pending
  traversal children *of that very element* (traversal parent = the element, no parent), each once, and
  leaves every list's previous content and order in place: exactly the chain, nothing else.
-/
namespace Hl7.Heap

variable (R : Rules)

def tparentOf (h : Heap) (c : Nat) : Option Nat := match h[c]? with | some n => n.tparent | none => none

theorem tparentOf_modify_keep (h : Heap) (i c : Nat) (f : Node → Node) (hf : ∀ n, (f n).tparent = n.tparent) :
    tparentOf (modify i f h) c = tparentOf h c := by
  unfold tparentOf
  rw [get_modify]
  by_cases hip : i = c
  · subst hip; cases h[i]? <;> simp [hf]
  · simp [hip]

theorem tparentOf_setPtr (h : Heap) (c x : Nat) (a b : Option Nat) (hx : x ≠ c) :
    tparentOf (setPtr c a b h) x = tparentOf h x := by
  unfold setPtr tparentOf
  rw [get_modify]
  have : ¬ c = x := fun e => hx e.symm
  simp [this]

/-- **C11 (reads).** Creating a traversal child `c` of `p` (what a read of a missing child does) changes no
    child list and no parent pointer, accepted or rejected. -/
theorem C11_read_writes_nothing (p c : Nat) (h : Heap) (cn : Node) (hc : h[c]? = some cn) (hfresh : cn.parent = none) (x : Nat) :
    listOf (setTrav R p c h).1 x = listOf h x ∧ parentOf (setTrav R p c h).1 x = parentOf h x := by
  unfold setTrav
  simp only [hc]
  have hc1 : (setPtr c cn.parent (some p) h)[c]? = some { cn with parent := cn.parent, tparent := some p } := by
    unfold setPtr; rw [get_modify]; simp [hc]
  have base : listOf (setPtr c cn.parent (some p) h) x = listOf h x ∧ parentOf (setPtr c cn.parent (some p) h) x = parentOf h x := by
    refine ⟨by simp, ?_⟩
    rw [parentOf_setPtr h c x _ _ cn hc]
    by_cases hx : c = x
    · subst hx; simp [parentOf_eq h c cn hc]
    · simp [hx]
  cases hr : (append R p c (setPtr c cn.parent (some p) h)).2 with
  | error e => rw [C12_append_atomic R p c _ e hr]; exact base
  | ok u =>
    obtain ⟨pn1, cn1, _, hc1', _, path⟩ := append_ok R p c _ hr
    rw [hc1] at hc1'; cases hc1'
    rcases path with ⟨_, h2, _, _⟩ | ⟨h1, _, _⟩ | ⟨_, _, _, he⟩
    · exact absurd rfl h2
    · simp only [hfresh] at h1; cases h1
    · rw [he, listOf_tidx, parentOf_tidx]
      exact base

/-- the successful outcome of `child.parent = p`, as an explicit heap -/
theorem setParent_ok (p c : Nat) (h : Heap) (cn : Node) (hc : h[c]? = some cn) (hok : (setParent R p c h).2 = .ok ()) :
    (setParent R p c h).1 = detach cn.parent p c (pushList p c (setPtr c (some p) none h)) ∧ has h p = true := by
  unfold setParent at hok ⊢
  simp only [hc] at hok ⊢
  cases ha : append R p c (setPtr c (some p) none h) with
  | mk h2 r2 =>
    cases r2 with
    | error e => simp [ha] at hok
    | ok u2 =>
      simp only []
      have haok : (append R p c (setPtr c (some p) none h)).2 = .ok () := by rw [ha]
      obtain ⟨pn1, cn1, hp1, hc1, _, path⟩ := append_ok R p c _ haok
      have hc1' : (setPtr c (some p) none h)[c]? = some { cn with parent := some p, tparent := none } := by
        unfold setPtr; rw [get_modify]; simp [hc]
      rw [hc1'] at hc1; cases hc1
      have hh2 : h2 = (append R p c (setPtr c (some p) none h)).1 := by rw [ha]
      have hasp : has h p = true := by have := has_of_get hp1; simpa using this
      rcases path with ⟨h1, _, _, _⟩ | ⟨_, _, he⟩ | ⟨h1, _, _, _⟩
      · exact absurd rfl h1
      · rw [← hh2] at he; rw [he]; exact ⟨rfl, hasp⟩
      · exact absurd rfl h1

/-- **C11 (nothing to promote).** `set_parent_to_traversal()` on an element that is not a pending traversal child
    changes no child list and no parent pointer. -/
theorem C11_promote_stop (fuel c : Nat) (h : Heap) (cn : Node) (hc : h[c]? = some cn)
    (hstop : cn.tparent = none ∨ cn.parent ≠ none) (x : Nat) :
    listOf (promote R fuel c h).1 x = listOf h x ∧ parentOf (promote R fuel c h).1 x = parentOf h x := by
  cases fuel with
  | zero => exact ⟨rfl, rfl⟩
  | succ n =>
    unfold promote
    simp only [hc]
    have base : listOf (setPtr c cn.parent none h) x = listOf h x ∧ parentOf (setPtr c cn.parent none h) x = parentOf h x := by
      refine ⟨by simp, ?_⟩
      rw [parentOf_setPtr h c x _ _ cn hc]
      by_cases hx : c = x
      · subst hx; simp [parentOf_eq h c cn hc]
      · simp [hx]
    cases ht : cn.tparent with
    | none => exact base
    | some p =>
      cases hpar : cn.parent with
      | some q => simp only []; rw [← hpar]; exact base
      | none =>
        rcases hstop with h1 | h1
        · rw [ht] at h1; cases h1
        · exact absurd hpar h1

/-- **C11 (first write).** A successful promotion appends to each child list only pending traversal children
    of that very element — each at most once — and keeps the previous content and order of every list. -/
theorem C11_promote_exact (fuel c : Nat) (h : Heap) (inv : Inv h) (hok : (promote R fuel c h).2 = .ok ()) (x : Nat) :
    ∃ ys, listOf (promote R fuel c h).1 x = listOf h x ++ ys ∧ ys.Nodup ∧
      ∀ y ∈ ys, tparentOf h y = some x ∧ parentOf h y = none := by
  induction fuel generalizing c h with
  | zero => exact ⟨[], by simp [promote], List.nodup_nil, by simp⟩
  | succ n ih =>
    unfold promote at hok ⊢
    cases hc : h[c]? with
    | none => exact ⟨[], by simp, List.nodup_nil, by simp⟩
    | some cn =>
      simp only [hc] at hok ⊢
      cases ht : cn.tparent with
      | none => exact ⟨[], by simp, List.nodup_nil, by simp⟩
      | some p =>
        cases hpar : cn.parent with
        | some q => exact ⟨[], by simp, List.nodup_nil, by simp⟩
        | none =>
          simp only [ht, hpar] at hok ⊢
          cases hs : setParent R p c h with
          | mk h1 r1 =>
            cases r1 with
            | error e => simp [hs] at hok
            | ok u =>
              simp only [hs] at hok ⊢
              have hsok : (setParent R p c h).2 = .ok () := by rw [hs]
              obtain ⟨heq, hasp⟩ := setParent_ok R p c h cn hc hsok
              rw [hs, hpar] at heq
              simp only [detach] at heq
              have inv1 : Inv h1 := by have := C10_setParent R p c h inv; rw [hs] at this; exact this
              have hcpar : parentOf h c = none := by rw [parentOf_eq h c cn hc]; exact hpar
              have hcnot : c ∉ listOf h p := by
                intro hm; have := (inv.back p c hm).1; rw [hcpar] at this; cases this
              have hL : listOf h1 x = if p = x then listOf h p ++ [c] else listOf h x := by
                rw [heq, listOf_pushList' _ _ _ _ (by simpa using hasp)]
                simp [hcnot]
              have hP : ∀ y, parentOf h1 y = if c = y then some p else parentOf h y := by
                intro y; rw [heq, parentOf_pushList]; exact parentOf_setPtr h c y _ _ cn hc
              have hT : ∀ y, y ≠ c → tparentOf h1 y = tparentOf h y := by
                intro y hy
                rw [heq]
                unfold pushList
                rw [tparentOf_modify_keep _ _ _ _ (fun n => by by_cases hh : c ∈ n.list <;> simp [hh])]
                exact tparentOf_setPtr h c y _ _ hy
              obtain ⟨ys', hl', hnd', hall'⟩ := ih p h1 inv1 hok
              have hyc : ∀ y ∈ ys', y ≠ c ∧ tparentOf h y = some x ∧ parentOf h y = none := by
                intro y hy
                obtain ⟨h1', h2'⟩ := hall' y hy
                have hne : y ≠ c := by
                  intro e; subst e; rw [hP] at h2'; simp at h2'
                have hne' : ¬ c = y := fun e => hne e.symm
                rw [hP] at h2'; simp only [hne', if_false] at h2'
                exact ⟨hne, by rw [← hT y hne]; exact h1', h2'⟩
              by_cases hx : p = x
              · subst hx
                refine ⟨c :: ys', ?_, ?_, ?_⟩
                · rw [hl', hL]; simp
                · rw [List.nodup_cons]
                  exact ⟨fun hm => (hyc c hm).1 rfl, hnd'⟩
                · intro y hy
                  rcases List.mem_cons.mp hy with e | hy'
                  · subst e
                    exact ⟨by unfold tparentOf; simp [hc, ht], hcpar⟩
                  · exact (hyc y hy').2
              · refine ⟨ys', ?_, hnd', fun y hy => (hyc y hy).2⟩
                rw [hl', hL]; simp [hx]

/-- non-vacuity: a two-level traversal chain (segment → field → component) is materialised by the first write -/
def exR : Rules := ⟨fun _ _ => true, fun _ _ => -1, fun _ => false⟩
def exH : Heap := [{ name := "PID", list := [3] }, { name := "PID_5", tparent := some 0 }, { name := "XPN_1", tparent := some 1 },
                   { name := "PID_3", parent := some 0 }]
example : (promote exR 4 2 exH).2.toBool = true ∧ listOf (promote exR 4 2 exH).1 0 = [3, 1] ∧ listOf (promote exR 4 2 exH).1 1 = [2] := by decide

end Hl7.Heap
