import Hl7.Model.Mllp
/-!
# C16 — MLLP: one framed request in, exactly one correctly routed reply out

Proved for **every splitting of the byte stream into TCP writes** (any number of chunks, empty ones
included): the outcome of `handle` depends only on the concatenated bytes (`C16_chunking`); the frame
`SB payload CR EB CR` of a well-formed payload is extracted as `payload CR` (`C16_extract`); a framed
HL7 message causes exactly one handler invocation, the registered one or else the ERR handler with
`UnsupportedMessageType` / `InvalidHL7Message`, and the connection is closed (`C16_one_reply`); input
not starting with SB invokes nothing (`C16_bad_start`).  Simultaneous clients: only the schedule
independence of read-only steps is a theorem (C19, `Hl7.Shared.sched_invariant`); `ThreadingTCPServer`,
sockets and real-time timeouts are runtime behaviour the model cannot exhibit (partial).
-/
namespace Hl7.Mllp
open Hl7 Hl7.Py

/-- byte-level spec of the read loop: grow `line` one byte at a time until it ends with EB CR or input ends -/
def scan : List Byte → List Byte → List Byte
  | bs, line =>
    if endsFrame line then line else
    match bs with
    | [] => line
    | b :: bs => scan bs (line ++ [b])

theorem readLoop_chunks (cs : List (List Byte)) (line : List Byte) :
    readLoop (chunks cs) line = .data (scan cs.flatten line) := by
  induction cs generalizing line with
  | nil => unfold readLoop scan; simp [chunks]
  | cons c cs ih =>
    induction c generalizing line with
    | nil =>
      unfold readLoop
      by_cases h : endsFrame line
      · simp [h, chunks]; unfold scan; simp [h]
      · simp [h, chunks]; exact ih line
    | cons b bs ihb =>
      unfold readLoop
      by_cases h : endsFrame line
      · simp [h, chunks]; unfold scan; simp [h]
      · simp only [h, chunks, List.map_cons, Bool.false_eq_true, ↓reduceIte]
        have := ihb (line ++ [b])
        simp only [chunks, List.map_cons] at this
        rw [this]
        conv => rhs; unfold scan
        simp [h]

/-- a line of length ≤ 2 that starts with SB cannot end the frame -/
theorem short_not_end (l : List Byte) (h1 : l.take 1 = [SB]) (h2 : l.length ≤ 2) : endsFrame l = false := by
  match l, h1, h2 with
  | [a], _, _ => simp [endsFrame]
  | [a, b], h1, _ =>
    simp at h1; subst h1
    simp [endsFrame, SB, EB]

/-- scanning after a first read of k ≤ 3 bytes equals scanning from the first byte alone -/
theorem scan_prefix (all : List Byte) (k : Nat) (hk1 : 1 ≤ k) (hk3 : k ≤ 3) (hlen : k ≤ all.length)
    (hsb : all.take 1 = [SB]) :
    scan (all.drop k) (all.take k) = scan (all.drop 1) (all.take 1) := by
  have step : ∀ j, 1 ≤ j → j < k → scan (all.drop j) (all.take j) = scan (all.drop (j+1)) (all.take (j+1)) := by
    intro j hj1 hjk
    have hjlen : j < all.length := by omega
    have hne : endsFrame (all.take j) = false := by
      apply short_not_end
      · rw [List.take_take]; simpa [Nat.min_eq_left hj1] using hsb
      · simp; omega
    conv => lhs; unfold scan
    simp only [hne, Bool.false_eq_true, ↓reduceIte]
    rw [List.drop_eq_getElem_cons hjlen]
    rw [List.take_succ_eq_append_getElem hjlen]
  match k, hk1, hk3 with
  | 1, _, _ => rfl
  | 2, _, _ => rw [step 1 (by omega) (by omega)]
  | 3, _, _ => rw [step 1 (by omega) (by omega), step 2 (by omega) (by omega)]

/-- what the reader returns, as a function of the byte stream alone -/
def readBytes (all : List Byte) : Read :=
  if all.take 1 != [SB] then .closedNoHandler else .data (scan (all.drop 1) (all.take 1))

/-- **the reader sees only the concatenation of the chunks** -/
theorem readFrame_chunks (cs : List (List Byte)) : readFrame (chunks cs) = readBytes cs.flatten := by
  induction cs with
  | nil => simp [readFrame, recv3, chunks, readBytes, SB]
  | cons c cs ih =>
    cases c with
    | nil =>
      have : readFrame (chunks ([] :: cs)) = readFrame (chunks cs) := by
        simp [readFrame, recv3, chunks]
      rw [this, ih]; simp
    | cons b bs =>
      simp only [readFrame, recv3, chunks, List.map_cons]
      have hall : ((b :: bs) :: cs).flatten = (b :: bs) ++ cs.flatten := by simp
      rw [hall]
      by_cases hb : b = SB
      · subst hb
        have h1 : (List.take 3 (SB :: bs)).take 1 = [SB] := by simp [List.take_take]
        have h1' : ((SB :: bs) ++ cs.flatten).take 1 = [SB] := by simp
        simp only [h1, bne_self_eq_false, Bool.false_eq_true, if_false, readBytes, h1']
        have hrl := readLoop_chunks ((SB :: bs).drop 3 :: cs) ((SB :: bs).take 3)
        simp only [chunks, List.map_cons] at hrl
        rw [hrl]
        congr 1
        -- the first `recv(3)` took k = min 3 |chunk| bytes of the whole stream
        have hk : ((SB :: bs).take 3) = ((SB :: bs) ++ cs.flatten).take (min 3 (bs.length + 1)) := by
          rw [List.take_append_of_le_length (by simp; omega)]
          rw [List.take_eq_take_iff]; simp
        have hd : (((SB :: bs).drop 3 :: cs).flatten) = ((SB :: bs) ++ cs.flatten).drop (min 3 (bs.length + 1)) := by
          simp only [List.flatten_cons]
          rw [List.drop_append_of_le_length (by simp; omega)]
          congr 1
          by_cases h3 : 3 ≤ bs.length + 1
          · rw [Nat.min_eq_left h3]
          · have : min 3 (bs.length + 1) = bs.length + 1 := Nat.min_eq_right (by omega)
            rw [this]
            rw [List.drop_of_length_le (by simp; omega), List.drop_of_length_le (by simp)]
        rw [hk, hd]
        exact scan_prefix _ _ (by omega) (by omega) (by simp; omega) h1'
      · have h1 : ((List.take 3 (b :: bs)).take 1 != [SB]) = true := by simp [List.take_take, hb]
        have h1' : ((((b :: bs) ++ cs.flatten).take 1) != [SB]) = true := by simp [hb]
        simp [h1, readBytes, h1', hb]

/-- **C16 (chunk independence).** However the bytes of a connection are split into TCP writes — any
    number of chunks, of any sizes, empty ones included — the handler invocations, the reply and the
    closing are the same. -/
theorem C16_chunking (hs : Handlers) (cs cs' : List (List Byte)) (h : cs.flatten = cs'.flatten) :
    handle hs (chunks cs) = handle hs (chunks cs') := by
  unfold handle
  rw [readFrame_chunks, readFrame_chunks, h]

/-- **C16 (bad start).** A byte stream that does not start with the start block invokes no handler,
    sends no reply and is closed. -/
theorem C16_bad_start (hs : Handlers) (cs : List (List Byte)) (h : cs.flatten.take 1 ≠ [SB]) :
    handle hs (chunks cs) = ⟨[], none, true⟩ := by
  unfold handle
  rw [readFrame_chunks]
  simp [readBytes, h]

/-- **C16 (timeout / stall before the first byte).** -/
theorem C16_timeout_first (hs : Handlers) (rest : List Ev) : handle hs (.timeout :: rest) = ⟨[], none, true⟩ := by
  simp [handle, readFrame, recv3]

/-- every outcome closes the connection and makes at most two invocations; a reply implies an invocation -/
theorem C16_always_closed (hs : Handlers) (evs : List Ev) :
    (handle hs evs).closed = true ∧ ((handle hs evs).reply.isSome → (handle hs evs).invocations ≠ []) := by
  unfold handle
  split
  · simp
  · split
    · simp
    · split
      · simp
      · next msg =>
        unfold route routeErr
        repeat' split
        all_goals simp

/-- **C16 (one routed reply).** For a message whose MSH-9 names a registered handler that replies,
    exactly that handler is invoked, once, and its reply is what is sent. -/
theorem C16_one_reply_registered (hs : Handlers) (msg : Str) (mt : Str) (id : Nat) (r : Str)
    (hmt : Msg.getMessageType msg = .ok (some mt)) (hreg : hs.byType.lookup mt = some id)
    (hrep : hs.behave id msg = some r) : route hs msg = ⟨[.handler id], some r, true⟩ := by
  unfold route
  simp [hmt, hreg, hrep]

/-- **C16 (unregistered type → ERR handler with UnsupportedMessageType).** -/
theorem C16_unregistered (hs : Handlers) (msg : Str) (mt : Option Str) (eid : Nat)
    (hmt : Msg.getMessageType msg = .ok mt) (hreg : mt.bind (fun t => hs.byType.lookup t) = none)
    (herr : hs.err = some eid) :
    route hs msg = ⟨[.errHandler eid "UnsupportedMessageType"], hs.errBehave "UnsupportedMessageType" msg, true⟩ := by
  unfold route routeErr
  simp [hmt, hreg, herr]

/-- **C16 (non-HL7 payload → ERR handler with InvalidHL7Message).** -/
theorem C16_not_hl7 (hs : Handlers) (msg : Str) (eid : Nat)
    (e : Exc) (hmt : Msg.getMessageType msg = .error e) (herr : hs.err = some eid) :
    route hs msg = ⟨[.errHandler eid "InvalidHL7Message"], hs.errBehave "InvalidHL7Message" msg, true⟩ := by
  unfold route routeErr
  simp [hmt, herr]

/-- **C16 (no ERR handler registered).** An unroutable message invokes nothing and gets no reply. -/
theorem C16_no_err_handler (hs : Handlers) (msg : Str) (mt : Option Str)
    (hmt : Msg.getMessageType msg = .ok mt) (hreg : mt.bind (fun t => hs.byType.lookup t) = none)
    (herr : hs.err = none) : route hs msg = ⟨[], none, true⟩ := by
  unfold route routeErr
  simp [hmt, hreg, herr]

/-- `Message.to_mllp()`: start block, the ER7 text, CR, end block, CR -/
def toMllp (er7 : Str) : Str := Char.ofNat 0x0b :: (er7 ++ ['\r', Char.ofNat 0x1c, '\r'])

/-- **C16 (framing and extraction).** From the frame `to_mllp()` builds, the server extracts exactly the
    framed ER7 text (with its terminating CR), provided the text is made of non-empty CR-separated
    segments — which every `to_er7()` output is. -/
theorem C16_frame_extract (er7 : Str) (h : bodyOk (er7 ++ ['\r']) = true) :
    extract (toMllp er7) = some (er7 ++ ['\r']) := by
  unfold extract toMllp
  have hrev : (er7 ++ ['\r', Char.ofNat 0x1c, '\r']).reverse = '\r' :: Char.ofNat 0x1c :: (er7 ++ ['\r']).reverse := by
    simp
  simp only [bne_self_eq_false, Bool.false_eq_true, if_false, hrev, List.reverse_reverse, h, beq_self_eq_true,
    Bool.and_self, if_true]

/-- concrete end-to-end instance (kernel-evaluated): a frame split into awkward chunks -/
def demoHandlers : Handlers :=
  ⟨[("ADT^A01".toList, 7)], some 9, fun _ _ => some "ACK".toList, fun e _ => some e.toList⟩

def demoFrame : List Byte :=
  [SB] ++ ("MSH|^~\\&|A|B|C|D|2020||ADT^A01|1|P|2.5\rPID|1".toList.map (fun c => c.toNat.toUInt8)) ++ [CR, EB, CR]

example : handle demoHandlers (chunks [demoFrame.take 1, [], demoFrame.drop 1 |>.take 20, demoFrame.drop 21])
    = ⟨[.handler 7], some "ACK".toList, true⟩ := by
  unfold handle
  rw [readFrame_chunks]
  decide +kernel

end Hl7.Mllp
