import Hl7.Model.Cascade
import Hl7.Props.C02
/-!
# C07 (body) — every character of an encoding is a leaf character or one of the message's own separators

On the cascade model (`Hl7.Casc`): whatever the tree, the text `enc ls t` consists of characters of the leaves and of the
separators of the levels `ls` — the delimiter set handed to the encoder — and nothing else: no default delimiter, no other
character, can appear between the values.
-/
namespace Hl7.C07
open Hl7 Hl7.Py Hl7.Slots Hl7.Casc
open Hl7.C02 (sepOf)

theorem mem_join (c : Char) : ∀ (xs : List Str) (ch : Char), ch ∈ join c xs → ch = c ∨ ∃ x ∈ xs, ch ∈ x
  | [], ch, h => by simp [join] at h
  | [x], ch, h => by simp only [join] at h; exact Or.inr ⟨x, by simp, h⟩
  | x :: y :: ys, ch, h => by
    simp only [join, List.mem_append, List.mem_cons] at h
    rcases h with h | h | h
    · exact Or.inr ⟨x, by simp, h⟩
    · exact Or.inl h
    · rcases mem_join c (y :: ys) ch h with h' | ⟨z, hz, hc⟩
      · exact Or.inl h'
      · exact Or.inr ⟨z, List.mem_cons_of_mem _ hz, hc⟩

theorem mem_render (gs : List (List Str)) (x : Str) (h : x ∈ render gs) : x = [] ∨ ∃ g ∈ gs, x ∈ g := by
  unfold render at h
  rw [List.mem_flatMap] at h
  obtain ⟨g, hg, hx⟩ := h
  by_cases he : g = []
  · simp [he] at hx; exact Or.inl hx
  · simp only [he, if_false] at hx; exact Or.inr ⟨g, hg, hx⟩

theorem mem_dropTrailing : ∀ (gs : List (List Str)) (g : List Str), g ∈ Slots.dropTrailing gs → g ∈ gs
  | [], g, h => by simp [Slots.dropTrailing] at h
  | a :: as, g, h => by
    unfold Slots.dropTrailing at h
    cases hd : Slots.dropTrailing as with
    | nil =>
      simp only [hd] at h
      by_cases ha : a = []
      · simp [ha] at h
      · simp only [ha, if_false, List.mem_singleton] at h
        subst h; exact List.mem_cons_self
    | cons r rs =>
      simp only [hd] at h
      rcases List.mem_cons.mp h with e | e
      · subst e; exact List.mem_cons_self
      · exact List.mem_cons_of_mem _ (mem_dropTrailing as g (by rw [hd]; exact e))

theorem mem_slots (cs : List (Nat × Str)) : ∀ (i k : Nat) (g : List Str), g ∈ slots cs i k → ∀ v ∈ g, ∃ p ∈ cs, p.2 = v
  | _, 0, g, h => by simp [slots] at h
  | i, k+1, g, h => by
    simp only [slots, List.mem_cons] at h
    rcases h with e | e
    · subst e
      intro v hv
      obtain ⟨p, hp, rfl⟩ := List.mem_map.mp hv
      exact ⟨p, (List.mem_filter.mp hp).1, rfl⟩
    · exact mem_slots cs (i+1) k g e

/-- the characters of all leaves of a tree -/
def leafChars : List Lvl → T → List Char
  | [], t => (match t with | .leaf s => s | _ => [])
  | .pos _ _ :: ls, t => (match t with | .pos kids => kids.flatMap (fun p => leafChars ls p.2) | _ => [])
  | .rep _ :: ls, t => (match t with | .reps items => items.flatMap (leafChars ls) | _ => [])

/-- **C07 (separators come from the set).** Every character of the encoding is a character of some leaf or the separator of one of
    the levels: nothing else ever appears in the body. -/
theorem C07_only_own_separators : ∀ (ls : List Lvl) (t : T) (ch : Char), ch ∈ enc ls t → ch ∈ ls.map sepOf ∨ ch ∈ leafChars ls t
  | [], t, ch, h => by
    cases t with
    | leaf s => exact Or.inr (by simpa [enc, leafChars] using h)
    | pos kids => simp [enc] at h
    | reps items => simp [enc] at h
  | .pos c w :: ls, t, ch, h => by
    cases t with
    | leaf s => simp [enc] at h
    | reps items => simp [enc] at h
    | pos kids =>
      simp only [enc] at h
      rcases mem_join c _ ch h with e | ⟨x, hx, hc⟩
      · exact Or.inl (by simp [sepOf, e])
      · rcases mem_render _ x hx with e | ⟨g, hg, hxg⟩
        · subst e; simp at hc
        · obtain ⟨p, hp, hpv⟩ := mem_slots _ 0 w g (mem_dropTrailing _ g hg) x hxg
          obtain ⟨q, hq, rfl⟩ := List.mem_map.mp hp
          simp only at hpv
          subst hpv
          rcases C07_only_own_separators ls q.2 ch hc with h' | h'
          · exact Or.inl (by simp only [List.map_cons, List.mem_cons]; exact Or.inr h')
          · refine Or.inr ?_
            simp only [leafChars, List.mem_flatMap]
            exact ⟨q, hq, h'⟩
  | .rep c :: ls, t, ch, h => by
    cases t with
    | leaf s => simp [enc] at h
    | pos kids => simp [enc] at h
    | reps items =>
      simp only [enc] at h
      rcases mem_join c _ ch h with e | ⟨x, hx, hc⟩
      · exact Or.inl (by simp [sepOf, e])
      · obtain ⟨it, hit, rfl⟩ := List.mem_map.mp hx
        rcases C07_only_own_separators ls it ch hc with h' | h'
        · exact Or.inl (by simp only [List.map_cons, List.mem_cons]; exact Or.inr h')
        · refine Or.inr ?_
          simp only [leafChars, List.mem_flatMap]
          exact ⟨it, hit, h'⟩

end Hl7.C07
