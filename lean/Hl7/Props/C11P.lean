import Hl7.Props.C11
import Hl7.Props.C09
/-!
# C11 / C10 — receiving a real child materialises an element reached by traversal  (repair of D34)

Model: `Hl7.Heap.appendP` — what `ElementList.append` does as a whole: admission, promotion of the receiving element when it is
still a pending traversal child, then the core append.  Proved for every heap that satisfies the graph invariant, every structure
(`Rules`), every fuel ≥ 1 and all nodes:

* `appendP_not_pending` — for a receiving element that is not pending, the library's `append` **is** the core `append`: every C09 /
  C10 / C12 theorem about `append` is a theorem about the entry point;
* `promote_keeps_parent` — promotion never re-parents an element that has a parent;
* `C11_promote_first` — a successful promotion of a pending element lists it in its traversal parent and points it there;
* `C11_appendP_materialises` — after a successful `appendP` that newly listed a child in a pending element, that element is
  itself listed — exactly once — by its traversal parent and points to it (D34 was: the child was listed by an element that no
  element listed, so the encoding of the root silently dropped it).
-/
namespace Hl7.Heap

variable (R : Rules)

theorem appendP_not_pending (fuel p c : Nat) (h : Heap) (hnp : pending h p = false) :
    appendP R fuel p c h = append R p c h := by
  unfold appendP
  cases hr : append R p c h with
  | mk h2 r2 =>
    cases r2 with
    | error e => rfl
    | ok u =>
      simp only [hnp, Bool.and_false]
      cases u; rfl

/-- the core append writes the pointers of the child only -/
theorem parentOf_append (p c x : Nat) (h : Heap) (hok : (append R p c h).2 = .ok ()) (hx : x ≠ c) :
    parentOf (append R p c h).1 x = parentOf h x := by
  obtain ⟨pn, cn, hp, hc, _, path⟩ := append_ok R p c h hok
  have hcx : ¬ c = x := fun e => hx e.symm
  rcases path with ⟨_, _, _, he⟩ | ⟨_, _, he⟩ | ⟨_, _, _, he⟩
  · rw [he, parentOf_detach, parentOf_pushList, parentOf_setPtr h c x _ _ cn hc]; simp [hcx]
  · rw [he, parentOf_pushList]
  · rw [he, parentOf_tidx]

/-- promotion never re-parents an element that has a parent -/
theorem promote_keeps_parent (fuel c x q : Nat) (h : Heap) (hx : parentOf h x = some q) :
    parentOf (promote R fuel c h).1 x = some q := by
  induction fuel generalizing c h with
  | zero => exact hx
  | succ n ih =>
    unfold promote
    cases hc : h[c]? with
    | none => exact hx
    | some cn =>
      simp only []
      have base : parentOf (setPtr c cn.parent none h) x = some q := by
        rw [parentOf_setPtr h c x _ _ cn hc]
        by_cases hcx : c = x
        · subst hcx; rw [if_pos rfl, ← parentOf_eq h c cn hc]; exact hx
        · rw [if_neg hcx]; exact hx
      cases ht : cn.tparent with
      | none => exact base
      | some p =>
        cases hpar : cn.parent with
        | some q' => simp only []; rw [← hpar]; exact base
        | none =>
          simp only []
          cases hs : setParent R p c h with
          | mk h1 r1 =>
            cases r1 with
            | error e =>
              have := C12_setParent_atomic R p c h e (by rw [hs])
              rw [hs] at this; simp only at this ⊢; rw [this]; exact hx
            | ok u =>
              simp only []
              apply ih
              have hsok : (setParent R p c h).2 = .ok () := by rw [hs]
              obtain ⟨heq, _⟩ := setParent_ok R p c h cn hc hsok
              rw [hs] at heq; simp only at heq
              rw [heq, parentOf_detach, parentOf_pushList, parentOf_setPtr h c x _ _ cn hc]
              have hcx : ¬ c = x := by
                intro e; subst e
                rw [parentOf_eq h c cn hc, hpar] at hx; cases hx
              rw [if_neg hcx]; exact hx

/-- **C11 (first write, the element itself).** A successful promotion of a pending traversal child lists it in its traversal
    parent and sets its parent pointer there. -/
theorem C11_promote_first (fuel p q : Nat) (h : Heap) (inv : Inv h) (pn : Node) (hp : h[p]? = some pn)
    (hpar : pn.parent = none) (htp : pn.tparent = some q) (hok : (promote R (fuel + 1) p h).2 = .ok ()) :
    parentOf (promote R (fuel + 1) p h).1 p = some q ∧ p ∈ listOf (promote R (fuel + 1) p h).1 q := by
  unfold promote at hok ⊢
  simp only [hp, htp, hpar] at hok ⊢
  cases hs : setParent R q p h with
  | mk h1 r1 =>
    cases r1 with
    | error e => simp [hs] at hok
    | ok u =>
      simp only [hs] at hok ⊢
      have hsok : (setParent R q p h).2 = .ok () := by rw [hs]
      obtain ⟨heq, hasq⟩ := setParent_ok R q p h pn hp hsok
      rw [hs] at heq; simp only at heq
      have inv1 : Inv h1 := by have := C10_setParent R q p h inv; rw [hs] at this; exact this
      have hpp : parentOf h1 p = some q := by
        rw [heq, parentOf_detach, parentOf_pushList, parentOf_setPtr h p p _ _ pn hp]; simp
      have hin : p ∈ listOf h1 q := by
        rw [heq, hpar]
        simp only [detach]
        rw [listOf_pushList' _ _ _ _ (by simpa using hasq)]
        simp only [if_true]
        split
        · next hm => simpa using hm
        · simp
      refine ⟨promote_keeps_parent R fuel q p q h1 hpp, ?_⟩
      obtain ⟨ys, hl, _, _⟩ := C11_promote_exact R fuel q h1 inv1 hok q
      rw [hl]; exact List.mem_append_left _ hin

/-- **C11 / C10 (repair of D34).** When the library's `append` succeeds on a pending traversal element and newly lists the child
    there, the element has been materialised: its traversal parent lists it (once — `Inv.nodup` with `C10_appendP`) and its parent
    pointer says so.  A child can therefore never hang below an element that the root cannot reach. -/
theorem C11_appendP_materialises (fuel p c q : Nat) (h : Heap) (inv : Inv h) (pn : Node) (hp : h[p]? = some pn)
    (hpar : pn.parent = none) (htp : pn.tparent = some q) (hcp : c ≠ p) (hqp : q ≠ p)
    (hnew : c ∉ listOf h p) (hok : (appendP R (fuel + 1) p c h).2 = .ok ())
    (hin : c ∈ listOf (append R p c h).1 p) :
    parentOf (appendP R (fuel + 1) p c h).1 p = some q ∧ p ∈ listOf (appendP R (fuel + 1) p c h).1 q := by
  have hpend : pending h p = true := by simp [pending, hp, hpar, htp]
  unfold appendP at hok ⊢
  cases hr : append R p c h with
  | mk h2 r2 =>
    cases r2 with
    | error e => simp [hr] at hok
    | ok u =>
      simp only [hr] at hok ⊢
      rw [hr] at hin; simp only at hin
      have hh2 : has h2 p = true := by
        have : (append R p c h).2 = .ok () := by rw [hr]
        obtain ⟨pn', cn', hp', hc', _, path⟩ := append_ok R p c h this
        have e2 : h2 = (append R p c h).1 := by rw [hr]
        rcases path with ⟨_, _, _, he⟩ | ⟨_, _, he⟩ | ⟨_, _, _, he⟩ <;> (rw [e2, he]; simp [has_of_get hp'])
      have hln : listsNew h h2 p c = true := by
        unfold listsNew
        unfold has at hh2
        cases h2p : h2[p]? with
        | none => simp [h2p] at hh2
        | some n2 =>
          rw [listOf_eq h2 p n2 h2p] at hin
          rw [listOf_eq h p pn hp] at hnew
          simp [hp, hin, hnew]
      rw [hln, hpend] at hok ⊢
      simp only [Bool.and_self, if_true] at hok ⊢
      cases hq : promote R (fuel + 1) p h with
      | mk h1 r1 =>
        cases r1 with
        | error e => simp [hq] at hok
        | ok u1 =>
          simp only [hq] at hok ⊢
          have hpok : (promote R (fuel + 1) p h).2 = .ok () := by rw [hq]
          obtain ⟨f1, f2⟩ := C11_promote_first R fuel p q h inv pn hp hpar htp hpok
          rw [hq] at f1 f2; simp only at f1 f2
          have haok : (append R p c h1).2 = .ok () := by
            cases hx : (append R p c h1).2 with
            | error e => rw [hx] at hok; simp at hok
            | ok u2 => rfl
          refine ⟨by rw [parentOf_append R p c p h1 haok (fun e => hcp e.symm)]; exact f1, ?_⟩
          obtain ⟨pn1, cn1, hp1, hc1, _, _⟩ := append_ok R p c h1 haok
          rw [C09_append_frame R p c q h1 cn1 hc1 haok hqp]
          split
          · exact (List.mem_erase_of_ne (fun e => hcp e.symm)).mpr f2
          · exact f2

/-- non-vacuity: in `exH` (C11) the pending field `PID_5` (node 1, traversal parent: segment 0) receives a fresh real component
    (node 4): the hypotheses of `C11_appendP_materialises` hold and the segment lists `PID_3, PID_5`, the field lists the component -/
def exH2 : Heap := exH ++ [{ name := "XPN_2" }]
example : exH2[1]? = some { name := "PID_5", tparent := some 0 } ∧ (4 : Nat) ∉ listOf exH2 1 ∧
    (appendP exR 5 1 4 exH2).2.toBool = true ∧ 4 ∈ listOf (append exR 1 4 exH2).1 1 ∧
    listOf (appendP exR 5 1 4 exH2).1 0 = [3, 1] ∧ listOf (appendP exR 5 1 4 exH2).1 1 = [4] ∧
    parentOf (appendP exR 5 1 4 exH2).1 1 = some 0 := by decide
/-- … and a refused child (the structure does not allow it) materialises nothing -/
def exRno : Rules := ⟨fun _ _ => false, fun _ _ => -1, fun _ => false⟩
example : (appendP exRno 5 1 4 exH2).1 = exH2 ∧ (appendP exRno 5 1 4 exH2).2.toBool = false := by decide

end Hl7.Heap
