import Hl7.Props.C08
/-!
# C08 — the same text parsed with group finding on and off encodes identically  (TOLERANT)

Model: `Hl7.Msg.parseSegments` / `encKids` (`Group.to_er7` joins the encodings of its children with CR, in list order under TOLERANT).

* `NE`: no group of the tree is empty.  The group finder only ever opens a group to put a segment into it, so every tree it
  returns is `NE` (`parseSegments_ne`, by an invariant over the zipper: the innermost open group is non-empty after every line).
  This is what makes "join of joins" equal to the join of the flattened list: an empty group would contribute an empty line.
* `encKids_flat`: under TOLERANT, the encoding of an `NE` tree is the CR-join of the encodings of its flattened segments.
* `C08_on_equals_off`: for **every structure and every text**, if the finder dropped no line (`flatL on = flatL off`; by
  `C03_dropped_only_if_unplaceable` a line is dropped only when no open level can place its name — finding D4), the tree with groups
  and the flat list encode to the same text.
-/
namespace Hl7.Msg
open Hl7 Hl7.Py Hl7.G

mutual
def neNode : Node → Bool
  | .seg _ => true
  | .grp _ _ ks => !ks.isEmpty && neKids ks
def neKids : List Node → Bool
  | [] => true
  | k :: ks => neNode k && neKids ks
end

theorem neKids_append (a b : List Node) : neKids (a ++ b) = (neKids a && neKids b) := by
  induction a with
  | nil => simp [neKids]
  | cons x xs ih => simp [neKids, ih, Bool.and_assoc]

/-- weak invariant: nothing closed so far is an empty group -/
def St.NE0 (s : St) : Prop := neKids s.topKids = true ∧ ∀ f ∈ s.frames, neKids f.kids = true
/-- invariant between two input lines: moreover the innermost open group holds something -/
def St.NE (s : St) : Prop := s.NE0 ∧ match s.frames with | f :: _ => f.kids ≠ [] | [] => True

theorem ne_closeTop (s : St) (h : s.NE) : (closeTop s).NE := by
  obtain ⟨⟨ht, hf⟩, hh⟩ := h
  unfold closeTop
  cases hfr : s.frames with
  | nil => exact ⟨⟨ht, by simp [hfr] at hf ⊢⟩, by simp [hfr]⟩
  | cons f fs =>
    rw [hfr] at hh hf
    have hfk : neKids f.kids = true := hf f (by simp)
    have hgrp : neNode (.grp f.name f.rows f.kids) = true := by
      simp only [neNode, hfk, Bool.and_true]
      cases hk : f.kids with
      | nil => exact absurd hk hh
      | cons a b => rfl
    cases fs with
    | nil =>
      refine ⟨⟨?_, by simp⟩, by simp⟩
      simp only
      rw [neKids_append]; simp [neKids, ht, hgrp]
    | cons g gs =>
      refine ⟨⟨ht, ?_⟩, by simp⟩
      intro x hx
      simp only [List.mem_cons] at hx
      rcases hx with e | hx
      · subst e
        simp only
        rw [neKids_append]
        have := hf g (by simp)
        simp [neKids, this, hgrp]
      · exact hf x (by simp [hx])

theorem ne0_openFrame (T : Tables) (strict : Bool) (s s' : St) (g : String) (rows : List SRow)
    (ho : openFrame T strict s g rows = .ok s') (h : s.NE0) : s'.NE0 := by
  unfold openFrame at ho
  cases hc : structCheck rows with
  | error e => simp [hc, bind, Except.bind] at ho
  | ok u =>
    simp only [hc, bind, Except.bind] at ho
    have key : ∀ s1 : St, s1 = { s with frames := ⟨g, rows, []⟩ :: s.frames } → s1.NE0 := by
      intro s1 e; subst e
      refine ⟨h.1, ?_⟩
      intro f hf
      simp only [List.mem_cons] at hf
      rcases hf with e | hf
      · subst e; rfl
      · exact h.2 f hf
    cases hfr : s.frames with
    | nil =>
      simp only [hfr, pure, Except.pure] at ho
      cases ho
      have := key _ rfl
      simpa [hfr] using this
    | cons f fs =>
      simp only [hfr] at ho
      cases ha : admitChild T strict false (some f.name) (some f.rows) f.kids (.grp g rows []) with
      | error e => simp [ha] at ho
      | ok u2 =>
        simp only [ha, pure, Except.pure] at ho
        cases ho
        have := key _ rfl
        simpa [hfr] using this

theorem ne0_openPath (T : Tables) (strict : Bool) (p : List (String × List SRow)) :
    ∀ (s s' : St), openPath T strict s p = .ok s' → s.NE0 → s'.NE0 := by
  induction p with
  | nil => intro s s' h hn; simp [openPath, pure, Except.pure] at h; cases h; exact hn
  | cons x xs ih =>
    intro s s' h hn
    obtain ⟨g, rows⟩ := x
    unfold openPath at h
    simp only [bind, Except.bind] at h
    cases ho : openFrame T strict s g rows with
    | error e => simp [ho] at h
    | ok s1 =>
      simp only [ho] at h
      exact ih s1 s' h (ne0_openFrame T strict s s1 g rows ho hn)

theorem ne_addSeg (T : Tables) (strict : Bool) (s s' : St) (sg : Pe.Seg)
    (ha : addNode T strict s (.seg sg) = .ok s') (h : s.NE0) : s'.NE := by
  unfold addNode at ha
  cases hf : s.frames with
  | nil =>
    simp only [hf, pure, Except.pure] at ha
    cases ha
    refine ⟨⟨?_, by simpa [hf] using h.2⟩, by simp [hf]⟩
    simp only
    rw [neKids_append]; simp [neKids, neNode, h.1]
  | cons f fs =>
    simp only [hf, bind, Except.bind] at ha
    cases hc : admitChild T strict false (some f.name) (some f.rows) f.kids (.seg sg) with
    | error e => simp [hc] at ha
    | ok u =>
      simp only [hc, pure, Except.pure] at ha
      cases ha
      have h2 := h.2
      rw [hf] at h2
      refine ⟨⟨h.1, ?_⟩, by simp⟩
      intro x hx
      simp only [List.mem_cons] at hx
      rcases hx with e | hx
      · subst e
        simp only
        rw [neKids_append]
        simp [neKids, neNode, h2 f (by simp)]
      · exact h2 x (by simp [hx])

theorem place_ne (T : Tables) (strict : Bool) (name : String) (mk : Unit → R Pe.Seg) (fuel : Nat) :
    ∀ (s s' : St), place T strict name mk fuel s = .ok s' → s.NE → s'.NE := by
  induction fuel with
  | zero => intro s s' h hn; simp [place, pure, Except.pure] at h; cases h; exact hn
  | succ fuel ih =>
    intro s s' h hn
    unfold place at h
    split at h
    · split at h
      · simp [pure, Except.pure] at h; cases h; exact hn
      · exact ih (closeTop s) s' h (ne_closeTop s hn)
    · split at h
      · split at h
        · simp only [bind, Except.bind] at h
          next f fs hfr hrep =>
          cases ho : openFrame T strict (closeTop s) f.name f.rows with
          | error e => simp [ho] at h
          | ok s2 =>
            simp only [ho] at h
            cases hm : mk () with
            | error e => simp [hm] at h
            | ok sg =>
              simp only [hm] at h
              exact ne_addSeg T strict s2 s' sg h (ne0_openFrame T strict _ s2 _ _ ho (ne_closeTop s hn).1)
        · simp only [bind, Except.bind] at h
          cases hm : mk () with
          | error e => simp [hm] at h
          | ok sg =>
            simp only [hm] at h
            exact ne_addSeg T strict s s' sg h hn.1
      · simp only [bind, Except.bind] at h
        cases hm : mk () with
        | error e => simp [hm] at h
        | ok sg =>
          simp only [hm] at h
          exact ne_addSeg T strict s s' sg h hn.1
    · next p hne hp =>
      simp only [bind, Except.bind] at h
      cases ho : openPath T strict s p with
      | error e => simp [ho] at h
      | ok s1 =>
        simp only [ho] at h
        cases hm : mk () with
        | error e => simp [hm] at h
        | ok sg =>
          simp only [hm] at h
          exact ne_addSeg T strict s1 s' sg h (ne0_openPath T strict p s s1 ho hn.1)

theorem foldlM_place_ne (T : Tables) (ec : EC) (strict : Bool) (lines : List Str) :
    ∀ (s s' : St), lines.foldlM (fun (s : St) l =>
      place T strict (String.ofList (l.take 3)) (fun _ => Pe.segment T (strip l) ec strict) (s.frames.length + 1) s) s = .ok s' →
      s.NE → s'.NE := by
  induction lines with
  | nil => intro s s' h hn; simp [List.foldlM, pure, Except.pure] at h; cases h; exact hn
  | cons l ls ih =>
    intro s s' h hn
    simp only [List.foldlM, bind, Except.bind] at h
    cases hp : place T strict (String.ofList (l.take 3)) (fun _ => Pe.segment T (strip l) ec strict) (s.frames.length + 1) s with
    | error e => simp [hp] at h
    | ok s1 =>
      simp only [hp] at h
      exact ih s1 s' h (place_ne T strict _ _ _ s s1 hp hn)

theorem finish_ne (fuel : Nat) : ∀ (s : St), s.NE → s.frames.length ≤ fuel → neKids (finish fuel s) = true := by
  induction fuel with
  | zero =>
    intro s hn hl
    exact hn.1.1
  | succ fuel ih =>
    intro s hn hl
    unfold finish
    cases hf : s.frames with
    | nil => exact hn.1.1
    | cons f fs =>
      simp only
      apply ih (closeTop s) (ne_closeTop s hn)
      unfold closeTop
      simp only [hf]
      cases fs with
      | nil => simp
      | cons g gs => simp [hf] at hl ⊢; omega

theorem mapM_parseLine_ne (T : Tables) (ec : EC) (strict : Bool) (lines : List Str) :
    ∀ nodes, lines.mapM (parseLine T ec strict) = .ok nodes → neKids nodes = true := by
  induction lines with
  | nil => intro nodes h; simp [List.mapM_nil, pure, Except.pure] at h; cases h; rfl
  | cons l ls ih =>
    intro nodes h
    simp only [List.mapM_cons, bind, Except.bind] at h
    cases hp : parseLine T ec strict l with
    | error e => simp [hp] at h
    | ok nd =>
      simp only [hp] at h
      cases hr : ls.mapM (parseLine T ec strict) with
      | error e => simp [hr] at h
      | ok rest =>
        simp only [hr, pure, Except.pure] at h
        cases h
        unfold parseLine at hp
        cases hs : Pe.segment T (strip l) ec strict with
        | error e => simp [hs] at hp
        | ok sg =>
          simp only [hs] at hp
          cases hp
          simp [neKids, neNode, ih rest hr]

/-- **no group returned by the parser is empty**, with group finding on or off, for every structure and every text -/
theorem parseSegments_ne (T : Tables) (text : Str) (ec : EC) (strict : Bool) (refs : Option (List SRow)) (fg : Bool)
    (nodes : List Node) (h : parseSegments T text ec strict refs fg = .ok nodes) : neKids nodes = true := by
  unfold parseSegments at h
  simp only [bind, Except.bind] at h
  generalize (splitOn '\r' text).filter (fun l => !l.isEmpty) = lines at h
  cases refs with
  | none => exact mapM_parseLine_ne T ec strict lines nodes h
  | some rows =>
    cases fg with
    | false => exact mapM_parseLine_ne T ec strict lines nodes h
    | true =>
      simp only at h
      cases hf : lines.foldlM (fun (s : St) l =>
          place T strict (String.ofList (l.take 3)) (fun _ => Pe.segment T (strip l) ec strict) (s.frames.length + 1) s)
          (⟨[], rows, []⟩ : St) with
      | error e => simp [hf] at h
      | ok st =>
        simp only [hf, pure, Except.pure] at h
        cases h
        have h0 : (⟨[], rows, []⟩ : St).NE := ⟨⟨rfl, by simp⟩, by simp⟩
        exact finish_ne _ st (foldlM_place_ne T ec strict lines _ st hf h0) (by omega)

/-! ### the encoding of a tree without empty groups is the join of its flattened segments -/

theorem join_cons_ne (c : Char) (x : Str) (ys : List Str) (h : ys ≠ []) : join c (x :: ys) = x ++ c :: join c ys := by
  cases ys with
  | nil => exact absurd rfl h
  | cons y r => rfl

theorem join_append_ne (c : Char) (a b : List Str) (ha : a ≠ []) (hb : b ≠ []) :
    join c (a ++ b) = join c a ++ c :: join c b := by
  induction a with
  | nil => exact absurd rfl ha
  | cons x xs ih =>
    cases xs with
    | nil =>
      simp only [List.cons_append, List.nil_append]
      rw [join_cons_ne c x b hb]; rfl
    | cons y r =>
      have := ih (by simp)
      rw [List.cons_append, join_cons_ne c x _ (by simp), this, join_cons_ne c x (y :: r) (by simp)]
      simp [List.append_assoc]

theorem mapM_append_ok {α β : Type} (f : α → R β) (a b : List α) (ra rb : List β)
    (ha : a.mapM f = .ok ra) (hb : b.mapM f = .ok rb) : (a ++ b).mapM f = .ok (ra ++ rb) := by
  induction a generalizing ra with
  | nil => simp [List.mapM_nil, pure, Except.pure] at ha; cases ha; simpa using hb
  | cons x xs ih =>
    simp only [List.mapM_cons, bind, Except.bind] at ha
    cases hx : f x with
    | error e => simp [hx] at ha
    | ok y =>
      simp only [hx] at ha
      cases hr : xs.mapM f with
      | error e => simp [hr] at ha
      | ok r =>
        simp only [hr, pure, Except.pure] at ha
        cases ha
        simp only [List.cons_append, List.mapM_cons, bind, Except.bind, hx, ih r hr, pure, Except.pure]

mutual
theorem encNode_flat (T : Tables) (ec : EC) : ∀ (n : Node) (a : Str), neNode n = true → encNode T ec false n = .ok a →
    ∃ segs, (flat n).mapM (Pe.encSegment T ec) = .ok segs ∧ a = join '\r' segs ∧ segs ≠ []
  | .seg s, a, _, h => by
    unfold encNode at h
    refine ⟨[a], ?_, rfl, by simp⟩
    simp [flat, List.mapM_cons, List.mapM_nil, bind, Except.bind, h, pure, Except.pure]
  | .grp g rows ks, a, hn, h => by
    unfold encNode at h
    simp only [bind, Except.bind] at h
    cases hk : encKids T ec false ks with
    | error e => simp [hk] at h
    | ok parts =>
      simp only [hk, pure, Except.pure] at h
      simp only [neNode, Bool.and_eq_true] at hn
      obtain ⟨segs, h1, h2, h3, _⟩ := encKids_flat T ec ks parts hn.2 hk
      refine ⟨segs, by simpa [flat] using h1, ?_, h3 (by intro e; simp [e] at hn)⟩
      cases h
      simp [encOrder, h2]
theorem encKids_flat (T : Tables) (ec : EC) : ∀ (ks : List Node) (parts : List Str), neKids ks = true → encKids T ec false ks = .ok parts →
    ∃ segs, (flatL ks).mapM (Pe.encSegment T ec) = .ok segs ∧ join '\r' parts = join '\r' segs ∧ (ks ≠ [] → segs ≠ []) ∧
      parts.length = ks.length
  | [], parts, _, h => by
    unfold encKids at h
    simp only [pure, Except.pure] at h
    cases h
    exact ⟨[], by simp [flatL, List.mapM_nil, pure, Except.pure], rfl, by simp, rfl⟩
  | k :: ks, parts, hn, h => by
    unfold encKids at h
    simp only [bind, Except.bind] at h
    simp only [neKids, Bool.and_eq_true] at hn
    cases ha : encNode T ec false k with
    | error e => simp [ha] at h
    | ok a =>
      simp only [ha] at h
      cases hr : encKids T ec false ks with
      | error e => simp [hr] at h
      | ok r =>
        simp only [hr, pure, Except.pure] at h
        cases h
        obtain ⟨A, a1, a2, a3⟩ := encNode_flat T ec k a hn.1 ha
        obtain ⟨Q, q1, q2, q3, q4⟩ := encKids_flat T ec ks r hn.2 hr
        refine ⟨A ++ Q, ?_, ?_, by intro _; simp [a3], by simp [q4]⟩
        · simp only [flatL]
          exact mapM_append_ok _ _ _ _ _ a1 q1
        · cases ks with
          | nil =>
            have hr0 : r = [] := by simpa using q4
            have hQ : Q = [] := by
              simp [flatL, List.mapM_nil, pure, Except.pure] at q1; exact q1
            subst hr0; subst hQ
            simp [join, a2]
          | cons k2 ks2 =>
            have hrne : r ≠ [] := by intro e; simp [e] at q4
            have hQne : Q ≠ [] := q3 (by simp)
            rw [join_cons_ne _ a r hrne, join_append_ne _ A Q a3 hQne, a2, q2]
end

/-- **C08 (groups on = groups off).** For every structure, every text and every delimiter set, under TOLERANT: when the group finder
    placed every line (`flatL on = flatL off`), the tree with groups and the flat list of segments encode to the same text
    (`Message.to_er7()` is the CR-join of the parts under TOLERANT: `encOrder false`). -/
theorem C08_on_equals_off (T : Tables) (text : Str) (ec : EC) (rows : List SRow) (refs : Option (List SRow))
    (on off : List Node) (pOn pOff : List Str)
    (hon : parseSegments T text ec false (some rows) true = .ok on)
    (hoff : parseSegments T text ec false refs false = .ok off)
    (hall : flatL on = flatL off)
    (eOn : encKids T ec false on = .ok pOn) (eOff : encKids T ec false off = .ok pOff) :
    encOrder false (some rows) on pOn = encOrder false refs off pOff := by
  obtain ⟨s1, m1, j1, _, _⟩ := encKids_flat T ec on pOn (parseSegments_ne T text ec false _ _ on hon) eOn
  obtain ⟨s2, m2, j2, _, _⟩ := encKids_flat T ec off pOff (parseSegments_ne T text ec false _ _ off hoff) eOff
  rw [hall, m2] at m1
  cases m1
  simp [encOrder, j1, j2]

/-- the same, from the parser's own guarantee: if the encodings exist and differ, some line was dropped -/
theorem C08_on_differs_only_if_dropped (T : Tables) (text : Str) (ec : EC) (rows : List SRow) (refs : Option (List SRow))
    (on off : List Node) (pOn pOff : List Str)
    (hon : parseSegments T text ec false (some rows) true = .ok on)
    (hoff : parseSegments T text ec false refs false = .ok off)
    (eOn : encKids T ec false on = .ok pOn) (eOff : encKids T ec false off = .ok pOff)
    (hne : encOrder false (some rows) on pOn ≠ encOrder false refs off pOff) : flatL on ≠ flatL off :=
  fun hall => hne (C08_on_equals_off T text ec rows refs on off pOn pOff hon hoff hall eOn eOff)

/-- non-vacuity (kernel-checked): an ORU_R01 text of v2.5 with nested groups parses on and off, nothing is dropped, the tree with groups
    does contain groups, and the two encodings are the same text -/
def oruText : Str :=
  "MSH|^~\\&|A|B|C|D|2020||ORU^R01^ORU_R01|1|P|2.5\rPID|1\rOBR|1\rOBX|1\rOBX|2\rOBR|2\rOBX|1".toList

def isGrp : Node → Bool | .grp _ _ _ => true | .seg _ => false

example :
    ((parseMessage [Hl7.Gen.V2_5] Defaults.std oruText false true).map (fun m => (m.kids.any isGrp, (flatL m.kids).map (·.name))))
      = .ok (true, ["MSH", "PID", "OBR", "OBX", "OBX", "OBR", "OBX"]) ∧
    ((parseMessage [Hl7.Gen.V2_5] Defaults.std oruText false false).map (fun m => (m.kids.any isGrp, (flatL m.kids).map (·.name))))
      = .ok (false, ["MSH", "PID", "OBR", "OBX", "OBX", "OBR", "OBX"]) ∧
    ((parseMessage [Hl7.Gen.V2_5] Defaults.std oruText false true).bind (encMessage Hl7.Gen.V2_5)).toOption
      = ((parseMessage [Hl7.Gen.V2_5] Defaults.std oruText false false).bind (encMessage Hl7.Gen.V2_5)).toOption ∧
    ((parseMessage [Hl7.Gen.V2_5] Defaults.std oruText false true).bind (encMessage Hl7.Gen.V2_5)).toOption.isSome = true := by
  refine ⟨?_, ?_, ?_, ?_⟩ <;> decide +kernel

end Hl7.Msg
