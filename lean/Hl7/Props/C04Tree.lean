import Hl7.Props.C04
/-!
# C04 — whole tree: `validate()` reports nothing  ⇔  the tree conforms, at every depth of groups

`ConfNode` is the declarative judgement, by recursion over the tree: a group (or the message) conforms when every child
is declared by one of its rows (or is a Z segment), every row's cardinality is met by the number of children of that
name, and every child conforms; a segment conforms when the segment-level validator reports nothing for it (the
segment level has its own theorems, `Hl7.Val.validSegKnown`).  Proved for every structure and every tree:

  `validNode T n = .ok []  ↔  ConfNode T n`     (and the message-level corollary)

— "accepts conforming messages" (⇐) and "pinpoints": a tree that does not conform cannot get an empty report (⇒).
-/
namespace Hl7.Val
open Hl7 Hl7.Py Hl7.Msg

variable (T : G.Tables)

def cardOk (r : SRow) (k : Nat) : Prop := r.card.1 ≤ k ∧ (r.card.2 = -1 ∨ (k : Int) ≤ r.card.2)

def countNamed (kids : List Node) (n : String) : Nat := (kids.filter (fun k => k.name == n)).length

def visited (rows : List SRow) (k : Node) : Bool := nodeIsZ k || rows.any (fun r => r.name == k.name)

mutual
def ConfNode : Node → Prop
  | .seg s => validSeg T s true = .ok []
  | .grp _ rows kids =>
    (∀ k ∈ kids, visited rows k = true) ∧ (∀ r ∈ rows, cardOk r (countNamed kids r.name)) ∧ ConfList kids
def ConfList : List Node → Prop
  | [] => True
  | k :: ks => ConfNode k ∧ ConfList ks
end

theorem ConfList_mem (ks : List Node) (h : ConfList T ks) : ∀ k ∈ ks, ConfNode T k := by
  induction ks with
  | nil => intro k hk; simp at hk
  | cons x xs ih =>
    intro k hk
    simp only [ConfList] at h
    rcases List.mem_cons.mp hk with e | e
    · subst e; exact h.1
    · exact ih h.2 k e

theorem ConfList_of_mem (ks : List Node) (h : ∀ k ∈ ks, ConfNode T k) : ConfList T ks := by
  induction ks with
  | nil => simp [ConfList]
  | cons x xs ih =>
    simp only [ConfList]
    exact ⟨h x List.mem_cons_self, ih (fun k hk => h k (List.mem_cons_of_mem _ hk))⟩

theorem checkReps_nil_iff (p c : String) (r : SRow) (k : Nat) : checkReps p c r.card.1 r.card.2 k = [] ↔ cardOk r k := by
  constructor
  · intro h
    unfold checkReps at h
    unfold cardOk
    by_cases hm : r.card.2 = -1
    · simp [hm] at h
      exact ⟨by omega, Or.inl hm⟩
    · simp only [bne_iff_ne, ne_eq, hm, not_false_eq_true, if_true] at h
      by_cases h1 : k < r.card.1
      · simp [h1] at h
      · simp only [h1, if_false] at h
        by_cases h2 : (k : Int) > r.card.2
        · simp [h2] at h
        · exact ⟨by omega, Or.inr (by omega)⟩
  · intro h
    exact checkReps_ok p c r.card.1 r.card.2 k h.1 h.2

/-- `validList` visits exactly the declared / Z children and returns one report per child, in order -/
theorem validList_spec (rows : List SRow) : ∀ (ks : List Node) (per : List (List VErr)), validList T rows ks = .ok per →
    per.length = ks.length ∧ ∀ x ∈ ks.zip per, (visited rows x.1 = true → validNode T x.1 = .ok x.2) ∧ (visited rows x.1 = false → x.2 = []) := by
  intro ks
  induction ks with
  | nil =>
    intro per h
    simp [validList, pure, Except.pure] at h
    subst h; simp
  | cons k ks ih =>
    intro per h
    unfold validList at h
    simp only [bind, Except.bind] at h
    by_cases hv : (nodeIsZ k || rows.any (fun r => r.name == k.name)) = true
    · simp only [hv, if_true] at h
      cases ha : validNode T k with
      | error e => simp [ha] at h
      | ok a =>
        simp only [ha] at h
        cases hb : validList T rows ks with
        | error e => simp [hb] at h
        | ok b =>
          simp only [hb, pure, Except.pure] at h
          cases h
          obtain ⟨hl, hx⟩ := ih b hb
          refine ⟨by simp [hl], ?_⟩
          intro x hxm
          simp only [List.zip_cons_cons, List.mem_cons] at hxm
          rcases hxm with e | e
          · subst e
            exact ⟨fun _ => ha, fun hf => by simp [visited, hv] at hf⟩
          · exact hx x e
    · simp only [hv, if_false] at h
      cases hb : validList T rows ks with
      | error e => simp [hb, pure, Except.pure] at h
      | ok b =>
        simp only [hb, pure, Except.pure] at h
        cases h
        obtain ⟨hl, hx⟩ := ih b hb
        refine ⟨by simp [hl], ?_⟩
        intro x hxm
        simp only [List.zip_cons_cons, List.mem_cons] at hxm
        rcases hxm with e | e
        · subst e
          have hv' : visited rows k = false := by simpa [visited] using hv
          exact ⟨fun ht => by (rw [hv'] at ht; cases ht), fun _ => rfl⟩
        · exact hx x e

theorem zip_filter_length (kids : List Node) (per : List (List VErr)) (hl : per.length = kids.length) (n : String) :
    ((kids.zip per).filter (fun x => x.1.name == n)).length = countNamed kids n := by
  unfold countNamed
  induction kids generalizing per with
  | nil => simp
  | cons k ks ih =>
    cases per with
    | nil => simp at hl
    | cons e es =>
      simp only [List.zip_cons_cons, List.filter_cons]
      have := ih es (by simpa using hl)
      by_cases hk : (k.name == n) = true
      · simp [hk, this]
      · simp [hk, this]

/-- all reports empty ⇒ the level's report is what `combine` makes of the structure alone -/
theorem validList_nil_of_conf (rows : List SRow) : ∀ (ks : List Node),
    (∀ k ∈ ks, visited rows k = true → validNode T k = .ok []) → validList T rows ks = .ok (ks.map (fun _ => [])) := by
  intro ks
  induction ks with
  | nil => intro _; simp [validList, pure, Except.pure]
  | cons k ks ih =>
    intro h
    unfold validList
    simp only [bind, Except.bind]
    have ihh := ih (fun x hx => h x (List.mem_cons_of_mem _ hx))
    by_cases hv : (nodeIsZ k || rows.any (fun r => r.name == k.name)) = true
    · have := h k List.mem_cons_self (by simpa [visited] using hv)
      simp [hv, this, ihh, pure, Except.pure]
    · simp [hv, ihh, pure, Except.pure]

mutual
/-- (⇐) a conforming tree draws no error -/
theorem conf_valid : ∀ (n : Node), ConfNode T n → validNode T n = .ok []
  | .seg s, h => by unfold validNode; exact h
  | .grp g rows kids, h => by
    unfold validNode
    simp only [ConfNode] at h
    obtain ⟨hvis, hcard, hkids⟩ := h
    have hper := conf_valid_list kids hkids rows
    simp only [hper, bind, Except.bind, pure, Except.pure]
    congr 1
    apply C04_conforming_level
    · intro k hk
      have := hvis k hk
      simp only [visited, Bool.or_eq_true, List.any_eq_true, beq_iff_eq] at this
      rcases this with hz | ⟨r, hr, hrn⟩
      · exact Or.inl hz
      · exact Or.inr ⟨r, hr, hrn⟩
    · intro r hr
      rw [zip_filter_length kids _ (by simp) r.name]
      exact (checkReps_nil_iff g r.name r _).mpr (hcard r hr)
    · intro e he
      simp at he
      exact he.2
theorem conf_valid_list : ∀ (ks : List Node), ConfList T ks → ∀ rows, validList T rows ks = .ok (ks.map (fun _ => []))
  | [], _, rows => by simp [validList, pure, Except.pure]
  | x :: xs, h, rows => by
    simp only [ConfList] at h
    unfold validList
    simp only [bind, Except.bind]
    have hx := conf_valid x h.1
    have hxs := conf_valid_list xs h.2 rows
    by_cases hv : (nodeIsZ x || rows.any (fun r => r.name == x.name)) = true
    · simp [hv, hx, hxs, pure, Except.pure]
    · simp [hv, hxs, pure, Except.pure]
end

/-! ### (⇒) an empty report forces conformance -/

theorem extraKids_nil (rows : List SRow) (kids : List Node) (h : extraKids rows kids = []) :
    ∀ k ∈ kids, visited rows k = true := by
  intro k hk
  unfold visited
  by_cases hz : nodeIsZ k = true
  · simp [hz]
  · have hz' : nodeIsZ k = false := by simpa using hz
    unfold extraKids at h
    have hmem : k.name ∈ dedup ((kids.filter (fun k => !nodeIsZ k)).map (·.name)) := by
      rw [mem_dedup]
      exact List.mem_map.mpr ⟨k, List.mem_filter.mpr ⟨hk, by simp [hz']⟩, rfl⟩
    have := List.filter_eq_nil_iff.mp h k.name hmem
    simp only [Bool.not_eq_true', Bool.not_eq_false, List.contains_eq_mem, decide_eq_true_eq, List.mem_map] at this
    obtain ⟨r, hr, hrn⟩ := this
    simp only [hz', Bool.false_or, List.any_eq_true, beq_iff_eq]
    exact ⟨r, hr, hrn⟩

theorem combine_nil (p : String) (rows : List SRow) (kids : List Node) (per : List (List VErr))
    (h : combine p rows kids per = []) :
    extraKids rows kids = [] ∧
    (∀ r ∈ rows, checkReps p r.name r.card.1 r.card.2 ((kids.zip per).filter (fun x => x.1.name == r.name)).length = [] ∧
      ∀ x ∈ kids.zip per, x.1.name = r.name → x.2 = []) ∧
    (∀ x ∈ kids.zip per, nodeIsZ x.1 = true → x.2 = []) := by
  unfold combine at h
  simp only [List.append_eq_nil_iff] at h
  obtain ⟨⟨h0, h1⟩, h2⟩ := h
  refine ⟨?_, ?_, ?_⟩
  · by_cases he : (extraKids rows kids).isEmpty = true
    · exact List.isEmpty_iff.mp he
    · simp [he] at h0
  · intro r hr
    have := List.flatMap_eq_nil_iff.mp h1 r hr
    simp only [List.append_eq_nil_iff] at this
    refine ⟨this.1, ?_⟩
    intro x hx hn
    have hfl := List.flatten_eq_nil_iff.mp this.2 x.2
    apply hfl
    exact List.mem_map.mpr ⟨x, List.mem_filter.mpr ⟨hx, by simp [hn]⟩, rfl⟩
  · intro x hx hz
    have hfl := List.flatten_eq_nil_iff.mp h2 x.2
    apply hfl
    exact List.mem_map.mpr ⟨x, List.mem_filter.mpr ⟨hx, hz⟩, rfl⟩

mutual
theorem valid_conf : ∀ (n : Node), validNode T n = .ok [] → ConfNode T n
  | .seg s, h => by unfold validNode at h; exact h
  | .grp g rows kids, h => by
    unfold validNode at h
    simp only [bind, Except.bind] at h
    cases hv : validList T rows kids with
    | error e => simp [hv] at h
    | ok per =>
      simp only [hv, pure, Except.pure] at h
      have hc : combine g rows kids per = [] := by injection h
      obtain ⟨hex, hrows, hz⟩ := combine_nil g rows kids per hc
      obtain ⟨hl, _⟩ := validList_spec T rows kids per hv
      have hvis := extraKids_nil rows kids hex
      have hempty : ∀ x ∈ kids.zip per, visited rows x.1 = true → x.2 = [] := by
        intro x hx hvx
        simp only [visited, Bool.or_eq_true, List.any_eq_true, beq_iff_eq] at hvx
        rcases hvx with hzx | ⟨r, hr, hrn⟩
        · exact hz x hx hzx
        · exact (hrows r hr).2 x hx hrn.symm
      simp only [ConfNode]
      refine ⟨hvis, ?_, valid_conf_list kids per rows hv hempty hvis⟩
      intro r hr
      have := (hrows r hr).1
      rw [zip_filter_length kids per hl r.name] at this
      exact (checkReps_nil_iff g r.name r _).mp this
theorem valid_conf_list : ∀ (ks : List Node) (per : List (List VErr)) (rows : List SRow), validList T rows ks = .ok per →
    (∀ x ∈ ks.zip per, visited rows x.1 = true → x.2 = []) → (∀ k ∈ ks, visited rows k = true) → ConfList T ks
  | [], _, _, _, _, _ => by simp [ConfList]
  | k :: ks, per, rows, h, hempty, hvis => by
    unfold validList at h
    simp only [bind, Except.bind] at h
    have hvk : (nodeIsZ k || rows.any (fun r => r.name == k.name)) = true := by
      have := hvis k List.mem_cons_self
      simpa [visited] using this
    simp only [hvk, if_true] at h
    cases ha : validNode T k with
    | error e => simp [ha] at h
    | ok a =>
      simp only [ha] at h
      cases hb : validList T rows ks with
      | error e => simp [hb] at h
      | ok b =>
        simp only [hb, pure, Except.pure] at h
        cases h
        have ha0 : a = [] := hempty (k, a) (by simp) (hvis k List.mem_cons_self)
        subst ha0
        simp only [ConfList]
        refine ⟨valid_conf k ha, valid_conf_list ks b rows hb ?_ (fun x hx => hvis x (List.mem_cons_of_mem _ hx))⟩
        intro x hx hvx
        exact hempty x (by simp [hx]) hvx
end

/-- **C04 (whole tree).** For every structure and every tree of groups and segments: the validator reports nothing for a node
    exactly when the node conforms — every child declared (or a Z segment), every cardinality met, every child conforming,
    recursively down to the segments. -/
theorem C04_tree (n : Node) : validNode T n = .ok [] ↔ ConfNode T n := ⟨valid_conf T n, conf_valid T n⟩

/-- the message level: a message with a known, non-Z structure validates clean exactly when its top level conforms -/
theorem C04_message (m : Message) (name : String) (rows : List SRow) (hn : m.name = some name) (hr : m.rows = some rows)
    (hz : isZMsg name.toList = false) :
    validateMessage T m = .ok [] ↔ ConfNode T (.grp name rows m.kids) := by
  rw [← C04_tree]
  unfold validateMessage validNode
  simp [hn, hr, hz]

end Hl7.Val
