import Hl7.Lemmas.HeapInv
import Hl7.Props.C12
/-!
# C10 — The element tree stays internally consistent through any API history
  (element-graph core, after the repairs of D8, D9, D23, D25, D26)

`Inv` (in `Hl7/Lemmas/HeapInv.lean`): no element lists a child twice; every listed child reports the listing
element as its parent — hence is listed by no other element (`Inv.unique`) —; a listed child has the level and
version of the element listing it.

Proved: **every** operation of the core — `append` (add / assignment of a new child / `add_<child>`), `insert`,
`remove`, `replace_child` (assignment over an existing child), the `parent` setter in both directions,
the traversal-parent setter and the promotion of a traversal chain on first write — preserves `Inv`
**whether it succeeds or is rejected**, for every heap, every structure (`Rules`) and all arguments; hence every
state reachable from freshly constructed elements by any sequence of them satisfies `Inv` (`C10_reachable`).

The other two views of the children (by-name index, proxies) are functions of the list in the model;
that the implementation's `indexes` is the list filtered by name is checked on every history by the
correspondence harness (`tools/heapcorr.py: graph_invariants`).
-/
namespace Hl7.Heap

variable (R : Rules)

/-- a heap with the same observations satisfies the invariant -/
theorem Inv_same_obs {h h' : Heap} (inv : Inv h) (hl : ∀ x, listOf h' x = listOf h x)
    (hp : ∀ x, parentOf h' x = parentOf h x) (hv : ∀ x, lvOf h' x = lvOf h x) (hh : ∀ x, has h' x = has h x) : Inv h' :=
  Inv_shrink inv hh hv (fun x => ⟨by rw [hl]; exact inv.nodup x, fun y hy => ⟨by rw [hl] at hy; exact hy, hp y⟩⟩)

theorem Inv_eraseList (p c : Nat) (h : Heap) (inv : Inv h) : Inv (eraseList p c h) := by
  apply Inv_shrink inv (by simp) (by simp)
  intro x
  rw [listOf_eraseList]
  by_cases hx : p = x
  · simp only [hx, if_true]
    exact ⟨(inv.nodup x).erase c, fun y hy => ⟨List.mem_of_mem_erase hy, by simp⟩⟩
  · simp only [hx, if_false]
    exact ⟨inv.nodup x, fun y hy => ⟨hy, by simp⟩⟩

theorem Inv_tidx (p : Nat) (f : List Nat → List Nat) (h : Heap) (inv : Inv h) :
    Inv (modify p (fun n => { n with tidx := f n.tidx }) h) :=
  Inv_same_obs inv (fun x => listOf_modify_keep h p x _ (fun _ => rfl)) (fun x => parentOf_modify_keep h p x _ (fun _ => rfl))
    (fun x => lvOf_modify h p x _ (fun _ => ⟨rfl, rfl⟩)) (fun x => has_modify h p x _)

/-- **C10 (add).** `append` preserves the invariant, accepted or rejected. -/
theorem C10_append (p c : Nat) (h : Heap) (inv : Inv h) : Inv (append R p c h).1 := by
  cases hr : (append R p c h).2 with
  | error e => rw [C12_append_atomic R p c h e hr]; exact inv
  | ok u =>
    obtain ⟨pn, cn, hp, hc, _, path⟩ := append_ok R p c h hr
    have hpo : parentOf h c = cn.parent := parentOf_eq h c cn hc
    rcases path with ⟨h1, h2, ha, he⟩ | ⟨h1, ha, he⟩ | ⟨h1, h2, ha, he⟩
    · rw [he, ← hpo]
      obtain ⟨lv, _, _⟩ := admission_ok_lv R p c _ () ha
      apply Inv_attach_end inv (h1 := setPtr c (some p) none h)
      · intro x; simp
      · intro x; simp
      · intro x; simp
      · intro x; exact parentOf_setPtr h c x _ _ cn hc
      · exact has_of_get hp
      · exact has_of_get hc
      · simpa using lv
    · have hpo' : parentOf h c = some p := by rw [hpo]; exact h1
      have hd : pushList p c h = detach (parentOf h c) p c (pushList p c h) := by rw [hpo']; simp [detach]
      obtain ⟨lv, _, _⟩ := admission_ok_lv R p c _ () ha
      rw [he, hd]
      apply Inv_attach_end inv (h1 := h)
      · intro x; rfl
      · intro x; rfl
      · intro x; rfl
      · intro x
        by_cases hx : c = x
        · subst hx; simp [hpo']
        · simp [hx]
      · exact has_of_get hp
      · exact has_of_get hc
      · exact lv
    · rw [he]; exact Inv_tidx p (fun t => t ++ [c]) h inv

/-- **C10 (delete).** `remove` preserves the invariant, accepted or rejected. -/
theorem C10_remove (p c : Nat) (h : Heap) (inv : Inv h) : Inv (remove p c h).1 := by
  cases hr : (remove p c h).2 with
  | error e => rw [C12_remove_atomic p c h e hr]; exact inv
  | ok u =>
    obtain ⟨pn, cn, hp, hc, path⟩ := remove_ok p c h hr
    rcases path with ⟨_, he⟩ | ⟨_, _, he⟩
    · rw [he]; exact Inv_tidx p (fun t => t.erase c) h inv
    · rw [he]; exact Inv_eraseList p c h inv

/-- **C10 (insert).** `insert` preserves the invariant, accepted or rejected. -/
theorem C10_insert (p c li : Nat) (h : Heap) (inv : Inv h) : Inv (insertAt R p c li h).1 := by
  have inv0 := Inv_eraseList p c h inv
  cases hr : (insertAt R p c li h).2 with
  | error e => rw [C12_insert_atomic R p c li h e hr]; exact inv0
  | ok u =>
    obtain ⟨pn, cn, hp, hc, _, path⟩ := insertAt_ok R p c li h hr
    have hpo : parentOf (eraseList p c h) c = cn.parent := parentOf_eq _ c cn hc
    have hnew : c ∉ listOf (eraseList p c h) p := by
      rw [listOf_eraseList]; simp only [if_true]
      intro hm; exact ((inv.nodup p).mem_erase_iff.mp hm).1 rfl
    rcases path with ⟨h1, ha, he⟩ | ⟨h1, ha, he⟩
    · rw [he, ← hpo]
      obtain ⟨lv, _, _⟩ := admission_ok_lv R p c _ () ha
      apply Inv_attach_at inv0 (h1 := untrav cn.tparent p c (setPtr c (some p) none (eraseList p c h)))
      · intro x; simp
      · intro x; simp
      · intro x; simp
      · intro x; rw [parentOf_untrav]; exact parentOf_setPtr _ c x _ _ cn hc
      · exact has_of_get hp
      · exact has_of_get hc
      · simpa using lv
      · exact hnew
    · have hpo' : parentOf (eraseList p c h) c = some p := by rw [hpo]; exact h1
      have hd : eraseList p c h = detach (parentOf (eraseList p c h) c) p c (eraseList p c h) := by rw [hpo']; simp [detach]
      obtain ⟨lv, _, _⟩ := admission_ok_lv R p c _ () ha
      rw [he]
      conv => arg 1; arg 4; rw [hd]
      apply Inv_attach_at inv0 (h1 := eraseList p c h)
      · intro x; rfl
      · intro x; rfl
      · intro x; rfl
      · intro x
        by_cases hx : c = x
        · subst hx; simp [hpo']
        · simp [hx]
      · exact has_of_get hp
      · exact has_of_get hc
      · exact lv
      · exact hnew

/-- **C10 (replace).** `replace_child` preserves the invariant, accepted or rejected (the rejected case is the
    repair of D9a: the old child is put back, still pointing at the element). -/
theorem C10_replace (p old new : Nat) (h : Heap) (inv : Inv h) : Inv (replaceChild R p old new h).1 := by
  unfold replaceChild
  cases hp : h[p]? with
  | none => simp only []; exact inv
  | some pn =>
    cases ho : h[old]? with
    | none => simp only []; exact inv
    | some on =>
      simp only []
      have invr := C10_remove p old h inv
      by_cases ht : on.tparent = some p
      · rw [if_pos ht]
        cases hr : remove p old h with
        | mk h1 r1 =>
          rw [hr] at invr
          cases r1 with
          | error e => exact invr
          | ok u => exact C10_append R p new h1 invr
      · rw [if_neg ht]
        cases hr : remove p old h with
        | mk h1 r1 =>
          rw [hr] at invr
          cases r1 with
          | error e => exact invr
          | ok u =>
            simp only []
            have invi := C10_insert R p new (pn.list.idxOf old) h1 invr
            cases hi : insertAt R p new (pn.list.idxOf old) h1 with
            | mk h2 r2 =>
              rw [hi] at invi
              cases r2 with
              | ok u2 => exact invi
              | error e =>
                simp only []
                -- the old child goes back: it still points at `p`, and `p` does not list it
                have hrok : (remove p old h).2 = .ok () := by rw [hr]
                obtain ⟨pn', on', hp', ho', path⟩ := remove_ok p old h hrok
                rw [hp] at hp'; cases hp'
                rw [ho] at ho'; cases ho'
                have hh1 : h1 = (remove p old h).1 := by rw [hr]
                rcases path with ⟨h1', _⟩ | ⟨_, hm, he⟩
                · exact absurd h1' ht
                · rw [← hh1] at he
                  have hh2 : h2 = eraseList p new h1 := by
                    have := C12_insert_atomic R p new (pn.list.idxOf old) h1 e (by rw [hi])
                    rw [hi] at this; exact this
                  have hold : old ∈ listOf h p := by rw [listOf_eq h p pn hp]; exact hm
                  have hback := inv.back p old hold
                  have hpar2 : parentOf h2 old = some p := by rw [hh2, he]; simp [hback.1]
                  have hd : h2 = detach (parentOf h2 old) p old h2 := by rw [hpar2]; simp [detach]
                  conv => arg 1; arg 4; rw [hd]
                  apply Inv_attach_at invi (h1 := h2)
                  · intro x; rfl
                  · intro x; rfl
                  · intro x; rfl
                  · intro x
                    by_cases hx : old = x
                    · subst hx; simp [hpar2]
                    · simp [hx]
                  · rw [hh2, he]; simp [has_of_get hp]
                  · rw [hh2, he]; simp [hback.2]
                  · rw [hh2, he]; simp [inv.same p old hold]
                  · rw [hh2, he, listOf_eraseList, listOf_eraseList]
                    simp only [if_true]
                    intro hm'
                    have := List.mem_of_mem_erase hm'
                    exact ((inv.nodup p).mem_erase_iff.mp this).1 rfl

/-- a rejected `child.parent = p` leaves the heap exactly as it was (repair of D26) -/
theorem C12_setParent_atomic (p c : Nat) (h : Heap) (e : Err) :
    (setParent R p c h).2 = .error e → (setParent R p c h).1 = h := by
  unfold setParent
  cases hc : h[c]? with
  | none => intro _; rfl
  | some cn =>
    simp only []
    cases hr : append R p c (setPtr c (some p) none h) with
    | mk h2 r2 =>
      cases r2 with
      | ok u => intro hh; simp at hh
      | error e' =>
        intro _
        simp only []
        have := C12_append_atomic R p c (setPtr c (some p) none h) e' (by rw [hr])
        rw [hr] at this; simp only at this
        rw [this]; exact setPtr_restore h c cn hc _ _

/-- **C10 (`child.parent = p`).** -/
theorem C10_setParent (p c : Nat) (h : Heap) (inv : Inv h) : Inv (setParent R p c h).1 := by
  cases hr : (setParent R p c h).2 with
  | error e => rw [C12_setParent_atomic R p c h e hr]; exact inv
  | ok u =>
    unfold setParent at hr ⊢
    cases hc : h[c]? with
    | none => simp [hc] at hr
    | some cn =>
      simp only [hc] at hr ⊢
      cases ha : append R p c (setPtr c (some p) none h) with
      | mk h2 r2 =>
        cases r2 with
        | error e => simp [ha] at hr
        | ok u2 =>
          simp only []
          have haok : (append R p c (setPtr c (some p) none h)).2 = .ok () := by rw [ha]
          obtain ⟨pn1, cn1, hp1, hc1, _, path⟩ := append_ok R p c _ haok
          have hc1' : (setPtr c (some p) none h)[c]? = some { cn with parent := some p, tparent := none } := by
            unfold setPtr; rw [get_modify]; simp [hc]
          rw [hc1'] at hc1; cases hc1
          have hh2 : h2 = (append R p c (setPtr c (some p) none h)).1 := by rw [ha]
          have hpo : parentOf h c = cn.parent := parentOf_eq h c cn hc
          have hasp : has h p = true := by
            have := has_of_get hp1; simpa using this
          rcases path with ⟨h1, _, _, _⟩ | ⟨_, hadm, he⟩ | ⟨h1, _, _, _⟩
          · exact absurd rfl h1
          · rw [← hh2] at he
            obtain ⟨lv, _, _⟩ := admission_ok_lv R p c _ () hadm
            rw [he, ← hpo]
            apply Inv_attach_end inv (h1 := setPtr c (some p) none h)
            · intro x; simp
            · intro x; simp
            · intro x; simp
            · intro x; exact parentOf_setPtr h c x _ _ cn hc
            · exact hasp
            · exact has_of_get hc
            · simpa using lv
          · exact absurd rfl h1

/-- **C10 (`child.parent = None`).** The element that listed the child no longer does. -/
theorem C10_unsetParent (c : Nat) (h : Heap) (inv : Inv h) : Inv (unsetParent c h).1 := by
  unfold unsetParent
  cases hc : h[c]? with
  | none => exact inv
  | some cn =>
    simp only []
    have hpo : parentOf h c = cn.parent := parentOf_eq h c cn hc
    have hpar : ∀ y, y ≠ c → parentOf (modify c (fun n => { n with parent := none }) h) y = parentOf h y := by
      intro y hy
      rw [parentOf_modify]
      have : ¬ c = y := fun e => hy e.symm
      simp [this]
    have hlist : ∀ x, listOf (modify c (fun n => { n with parent := none }) h) x = listOf h x :=
      fun x => listOf_modify_keep h c x _ (fun _ => rfl)
    have hlv : ∀ x, lvOf (modify c (fun n => { n with parent := none }) h) x = lvOf h x :=
      fun x => lvOf_modify h c x _ (fun _ => ⟨rfl, rfl⟩)
    cases hq : cn.parent with
    | none =>
      simp only []
      apply Inv_shrink inv (by simp) hlv
      intro x
      rw [hlist]
      refine ⟨inv.nodup x, fun y hy => ⟨hy, hpar y ?_⟩⟩
      intro e; subst e
      have := (inv.back x y hy).1
      rw [hpo, hq] at this; cases this
    | some q =>
      simp only []
      apply Inv_shrink inv (by simp) (by intro i; simp [hlv])
      intro x
      rw [listOf_eraseList, hlist]
      by_cases hx : q = x
      · subst hx
        simp only [if_true]
        refine ⟨(inv.nodup q).erase c, fun y hy => ⟨List.mem_of_mem_erase hy, ?_⟩⟩
        rw [parentOf_eraseList]
        exact hpar y ((inv.nodup q).mem_erase_iff.mp hy).1
      · simp only [hx, if_false]
        refine ⟨inv.nodup x, fun y hy => ⟨hy, ?_⟩⟩
        rw [parentOf_eraseList]
        apply hpar
        intro e; subst e
        have := (inv.back x y hy).1
        rw [hpo, hq] at this
        exact hx (Option.some.inj this)

/-- **C10 (traversal children).** Creating a traversal child does not disturb the invariant. -/
theorem C10_setTrav (p c : Nat) (h : Heap) (inv : Inv h) : Inv (setTrav R p c h).1 := by
  unfold setTrav
  cases hc : h[c]? with
  | none => exact inv
  | some cn =>
    simp only []
    apply C10_append
    apply Inv_same_obs inv (by simp) ?_ (by simp) (by simp)
    intro x
    rw [parentOf_setPtr h c x _ _ cn hc]
    by_cases hx : c = x
    · subst hx; simp [parentOf_eq h c cn hc]
    · simp [hx]

/-- **C10 (first write).** Promoting a chain of traversal children preserves the invariant. -/
theorem C10_promote (fuel c : Nat) (h : Heap) (inv : Inv h) : Inv (promote R fuel c h).1 := by
  induction fuel generalizing c h with
  | zero => exact inv
  | succ n ih =>
    unfold promote
    cases hc : h[c]? with
    | none => exact inv
    | some cn =>
      simp only []
      have hclear : Inv (setPtr c cn.parent none h) := by
        apply Inv_same_obs inv (by simp) ?_ (by simp) (by simp)
        intro x
        rw [parentOf_setPtr h c x _ _ cn hc]
        by_cases hx : c = x
        · subst hx; simp [parentOf_eq h c cn hc]
        · simp [hx]
      cases ht : cn.tparent with
      | none => exact hclear
      | some p =>
        cases hpar : cn.parent with
        | some q => simp only []; rw [← hpar]; exact hclear
        | none =>
          simp only []
          have invs := C10_setParent R p c h inv
          cases hs : setParent R p c h with
          | mk h1 r1 =>
            rw [hs] at invs
            cases r1 with
            | error e => exact invs
            | ok u => exact ih p h1 invs

/-- **C10 (the library's `append` as a whole, repair of D34).** Promoting the element first and then listing the child preserves the
    invariant, whichever of the two is refused. -/
theorem C10_appendP (fuel p c : Nat) (h : Heap) (inv : Inv h) : Inv (appendP R fuel p c h).1 := by
  unfold appendP
  have ha := C10_append R p c h inv
  cases hr : append R p c h with
  | mk h2 r2 =>
    rw [hr] at ha
    cases r2 with
    | error e => exact ha
    | ok u =>
      simp only []
      by_cases hcond : (listsNew h h2 p c && pending h p) = true
      · rw [if_pos hcond]
        have hp := C10_promote R fuel p h inv
        cases hq : promote R fuel p h with
        | mk h1 r1 =>
          rw [hq] at hp
          cases r1 with
          | error e => exact hp
          | ok u1 => exact C10_append R p c h1 hp
      · rw [if_neg hcond]; exact ha


/-- **C12 (`child.parent = p`, the library's setter after the repair of D34).** A child refused at admission leaves the heap —
    the child's own pointers and the pending receiving element included — exactly as it was. -/
theorem C12_setParentP_refused (fuel p c : Nat) (h : Heap) (e : Err) (cn : Node) (hc : h[c]? = some cn)
    (herr : (append R p c (setPtr c (some p) none h)).2 = .error e) :
    setParentP R fuel p c h = (h, .error e) := by
  unfold setParentP
  simp only [hc]
  rw [C12_appendP_refused R fuel p c _ e herr]
  simp only []
  rw [setPtr_restore h c cn hc]

/-! ### every reachable state -/

inductive HOp
  | append (p c : Nat) | insert (p c li : Nat) | remove (p c : Nat) | replace (p old new : Nat)
  | setParent (p c : Nat) | unsetParent (c : Nat) | setTrav (p c : Nat) | promote (c : Nat) | appendP (p c : Nat)

/-- one API call on the graph; the structure knowledge (`Rules`) may differ from call to call -/
def HOp.run (R : Rules) : HOp → Heap → Heap
  | .append p c, h => (Heap.append R p c h).1
  | .insert p c li, h => (insertAt R p c li h).1
  | .remove p c, h => (Heap.remove p c h).1
  | .replace p o n, h => (replaceChild R p o n h).1
  | .setParent p c, h => (Heap.setParent R p c h).1
  | .unsetParent c, h => (Heap.unsetParent c h).1
  | .setTrav p c, h => (Heap.setTrav R p c h).1
  | .promote c, h => (Heap.promote R h.length c h).1
  | .appendP p c, h => (Heap.appendP R h.length p c h).1

def runAll (ops : List (Rules × HOp)) (h : Heap) : Heap := ops.foldl (fun h o => o.2.run o.1 h) h

theorem C10_step (R : Rules) (o : HOp) (h : Heap) (inv : Inv h) : Inv (o.run R h) := by
  cases o with
  | append p c => exact C10_append R p c h inv
  | insert p c li => exact C10_insert R p c li h inv
  | remove p c => exact C10_remove p c h inv
  | replace p o n => exact C10_replace R p o n h inv
  | setParent p c => exact C10_setParent R p c h inv
  | unsetParent c => exact C10_unsetParent c h inv
  | setTrav p c => exact C10_setTrav R p c h inv
  | promote c => exact C10_promote R h.length c h inv
  | appendP p c => exact C10_appendP R h.length p c h inv

/-- **C10.** After any sequence of operations, successful or rejected, starting from elements that list
    nothing (freshly constructed), the invariant holds. -/
theorem C10_reachable (ops : List (Rules × HOp)) (h : Heap) (h0 : ∀ p, listOf h p = []) : Inv (runAll ops h) := by
  have : ∀ (ops : List (Rules × HOp)) (h : Heap), Inv h → Inv (runAll ops h) := by
    intro ops
    induction ops with
    | nil => intro h inv; exact inv
    | cons o os ih => intro h inv; exact ih _ (C10_step o.1 o.2 h inv)
  exact this ops h (Inv_of_empty h h0)

/-- **C10 (one parent).** In every reachable state a child is listed by at most one element. -/
theorem C10_one_parent (ops : List (Rules × HOp)) (h : Heap) (h0 : ∀ p, listOf h p = []) (p q c : Nat)
    (hp : c ∈ listOf (runAll ops h) p) (hq : c ∈ listOf (runAll ops h) q) : p = q :=
  (C10_reachable ops h h0).unique hp hq

end Hl7.Heap
