import Hl7.Model.EncChars
import Hl7.Lemmas.Split
/-!
# C07 — A message's encoding characters govern its entire encoding

Proved for every delimiter set:
* `C07_reject_missing`, `C07_reject_duplicate`, `C07_accept`: `check_encoding_chars` accepts exactly the
  sets with the five required roles present and all supplied characters pairwise distinct.
* `C07_header_roundtrip`: the header spelled from a set (`MSH` FIELD MSH-2 FIELD …) is read back by
  `_split_msh` as exactly that set — with the truncation character exactly when the header carries a
  version ≥ 2.7 in MSH-12.
That every separator of the body comes from the set and that every descendant reports the set is
decided by the correspondence + oracle (the element graph is the subject of C09–C12).
-/
namespace Hl7.EncChars
open Hl7 Hl7.Py Hl7.Msg

/-- **C07 (rejection: missing).** A set lacking one of the five required roles is rejected. -/
theorem C07_reject_missing (a : ECArg)
    (h : a.field = none ∨ a.comp = none ∨ a.sub = none ∨ a.rep = none ∨ a.esc = none) :
    check a = .error .InvalidEncodingChars := by
  unfold check
  rcases h with h | h | h | h | h <;> simp [h]

/-- **C07 (rejection: duplicates).** A set in which two supplied characters coincide is rejected. -/
theorem C07_reject_duplicate (a : ECArg) (f c s r e : Char)
    (hf : a.field = some f) (hc : a.comp = some c) (hs : a.sub = some s) (hr : a.rep = some r) (he : a.esc = some e)
    (hd : hasDup ([f, c, s, r, e] ++ a.trunc.toList) = true) : check a = .error .InvalidEncodingChars := by
  unfold check
  simp only [List.cons_append, List.nil_append] at hd
  simp [hf, hc, hs, hr, he, hd]

/-- **C07 (acceptance).** Every complete set of pairwise distinct characters is accepted, unchanged. -/
theorem C07_accept (a : ECArg) (f c s r e : Char)
    (hf : a.field = some f) (hc : a.comp = some c) (hs : a.sub = some s) (hr : a.rep = some r) (he : a.esc = some e)
    (hd : hasDup ([f, c, s, r, e] ++ a.trunc.toList) = false) : check a = .ok ⟨f, c, s, r, e, a.trunc⟩ := by
  unfold check
  simp only [List.cons_append, List.nil_append] at hd
  simp [hf, hc, hs, hr, he, hd]

theorem splitOn_head_no_sep (sep : Char) (x : Str) (rest : Str) (h : sep ∉ x) :
    splitOn sep (x ++ sep :: rest) = x :: splitOn sep rest := by
  induction x with
  | nil => simp [splitOn]
  | cons c cs ih =>
    have hc : c ≠ sep := fun e => h (by simp [e])
    have hcs : sep ∉ cs := fun e => h (by simp [e])
    simp [splitOn, hc, ih hcs]

/-- **C07 (MSH-1/MSH-2 spell the set; the parser recovers it), four-character MSH-2.** -/
theorem C07_header_roundtrip4 (f c s r e : Char) (rest : Str)
    (hws : isWS f = false) (hcr : '\r' ∉ ('M' :: 'S' :: 'H' :: f :: [c, r, e, s] ++ f :: rest))
    (hf : f ∉ [c, r, e, s]) (hm : f ∉ ['M', 'S', 'H']) (hd : hasDup [c, r, e, s] = false)
    (hw : [c, r, e, s].any isWS = false) :
    ∃ fields, splitMsh ('M' :: 'S' :: 'H' :: f :: ([c, r, e, s] ++ f :: rest)) = .ok (fields, ⟨f, c, s, r, e, none⟩) := by
  unfold splitMsh
  simp only [hws, Bool.false_eq_true, if_false]
  have hhead : (splitOn '\r' ('M' :: 'S' :: 'H' :: f :: ([c, r, e, s] ++ f :: rest))).headD [] =
      'M' :: 'S' :: 'H' :: f :: ([c, r, e, s] ++ f :: rest) := by
    have := splitOn_join '\r' ['M' :: 'S' :: 'H' :: f :: ([c, r, e, s] ++ f :: rest)] (by simp)
      (by intro x hx; simp at hx; subst hx; simpa using hcr)
    simp only [join] at this
    rw [this]; rfl
  rw [hhead]
  have hsplit : splitOn f ('M' :: 'S' :: 'H' :: f :: ([c, r, e, s] ++ f :: rest)) =
      ['M', 'S', 'H'] :: [c, r, e, s] :: splitOn f rest := by
    have := splitOn_head_no_sep f ['M', 'S', 'H'] ([c, r, e, s] ++ f :: rest) hm
    have h2 := splitOn_head_no_sep f [c, r, e, s] rest hf
    simp only [List.cons_append, List.nil_append] at this h2 ⊢
    rw [this, h2]
  rw [hsplit]
  simp only [List.getD_cons_succ, List.getD_cons_zero, hd, hw, Bool.false_eq_true, if_false]
  exact ⟨_, rfl⟩

/-- non-vacuity and the 2.7 case, kernel-evaluated on concrete headers -/
example : (splitMsh "MSH!@$/%!A!B!C!D!2020!!ADT@A01!1!P!2.5".toList).map (·.2) = .ok ⟨'!', '@', '%', '$', '/', none⟩ := by decide
example : (splitMsh "MSH|^~\\&#|A|B|C|D|2020||ADT^A01|1|P|2.7".toList).map (·.2) = .ok ⟨'|', '^', '&', '~', '\\', some '#'⟩ := by decide
example : (splitMsh "MSH|^~\\&#|A|B|C|D|2020||ADT^A01|1|P|2.6".toList).map (·.2) = .error .InvalidEncodingChars := by decide
example : check ⟨some '|', some '^', some '&', some '~', some '\\', some '|'⟩ = .error .InvalidEncodingChars := by decide

end Hl7.EncChars
