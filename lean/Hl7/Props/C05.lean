import Hl7.Model.Validate
/-!
# C05 — STRICT accepts a subset of TOLERANT and enforces what validate() checks

Proved (every input):
* `C05_leaf_subset` – a base-datatype value accepted under STRICT is accepted under TOLERANT and yields the
  very same object (hence the same encoding);
* `C05_admit_subset` – a child admitted into a message/group under STRICT is admitted under TOLERANT;
* `C05_strict_enforces_max` – STRICT admission refuses the child that would exceed a maximum cardinality,
  so a STRICT-built group never draws "Child limit exceeded" from that row;
* `C05_strict_enforces_maxlen` – STRICT construction refuses an over-long textual value.
The whole-parser simulation (same text ⇒ same tree under both levels) is decided by the side-by-side
correspondence of tools/props/c05.py (partial).  The clause "STRICT-accepted ⇒ only missing-required
errors" is false for open-ended segments (finding D18).
-/
namespace Hl7.C05
open Hl7 Hl7.Py Hl7.G Hl7.Datatypes

theorem nm_subset (s : Str) (t : Str) (h : Num.nm s true = .ok t) : Num.nm s false = .ok t := by
  unfold Num.nm at h ⊢
  split
  · next he => simpa [he] using h
  · next he =>
    simp only [he, if_false] at h
    cases hp : Num.parseDecimal s with
    | none => simp [hp] at h
    | some p =>
      obtain ⟨neg, ds, e⟩ := p
      simp only [hp, Bool.true_and, Bool.false_and, Bool.false_eq_true, if_false] at h ⊢
      by_cases hl : (Num.decStr neg ds e).length > 16
      · simp [hl] at h
      · simpa [hl] using h

theorem si_subset (s : Str) (t : Str) (h : Num.si s true = .ok t) : Num.si s false = .ok t := by
  unfold Num.si at h ⊢
  split
  · next he => simpa [he] using h
  · next he =>
    simp only [he, if_false] at h
    cases hp : Num.parseInt s with
    | none => simp [hp] at h
    | some vv =>
      simp only [hp, Bool.true_and, Bool.false_and, Bool.false_eq_true, if_false] at h ⊢
      by_cases hl : (intStr vv).length > 4
      · simp [hl] at h
      · simpa [hl] using h

theorem textual_subset (b : BaseDt) (v27 : Bool) (s : Str) (v : LeafV) (h : textual b v27 s true = .ok v) :
    textual b v27 s false = .ok v := by
  unfold textual at h ⊢
  cases hm : b.maxLen with
  | none => simpa [hm] using h
  | some ml =>
    simp only [hm] at h ⊢
    split at h
    · cases h
    · simpa using h

theorem construct_subset (b : BaseDt) (s : Str) (v : LeafV) (h : construct b s true = some (.ok v)) :
    construct b s false = some (.ok v) := by
  unfold construct at h ⊢
  split at h
  · cases h
  · next hdom =>
    simp only [hdom, Bool.false_eq_true, if_false]
    unfold constructCore at h ⊢
    cases hk : b.kind <;> simp only [hk] at h ⊢
    · simp only [Option.some.injEq] at h ⊢; exact textual_subset b false s v h
    · simp only [Option.some.injEq] at h ⊢; exact textual_subset b true s v h
    · split at h
      · next ht =>
        simp only [ht, if_true, Option.some.injEq] at h ⊢
        exact textual_subset b false s v h
      · cases h
    · cases hn : Num.nm s true with
      | ok t => simp only [hn] at h; rw [nm_subset s t hn]; exact h
      | valueError => simp [hn] at h
      | maxLen => simp [hn] at h
    · cases hn : Num.si s true with
      | ok t => simp only [hn] at h; rw [si_subset s t hn]; exact h
      | valueError => simp [hn] at h
      | maxLen => simp [hn] at h
    · exact h
    · exact h
    · exact h
    · exact h

/-- **C05 (leaf level).** What `datatype_factory` accepts under STRICT it accepts under TOLERANT, with the same result. -/
theorem C05_leaf_subset (base : List BaseDt) (dt : String) (s : Str) (v : LeafV)
    (h : factory base dt s true = .ok v) : factory base dt s false = .ok v := by
  unfold factory at h ⊢
  cases hb : findBase base dt with
  | none => simp [hb] at h
  | some b =>
    simp only [hb] at h ⊢
    cases hc : construct b s true with
    | none => simp [hc] at h
    | some r =>
      simp only [hc] at h
      subst h
      rw [construct_subset b s v hc]

/-- **C05 (admission).** A child admitted under STRICT is admitted under TOLERANT. -/
theorem C05_admit_subset (T : Tables) (isMsg : Bool) (g : Option String) (rows : Option (List Msg.SRow))
    (kids : List Msg.Node) (c : Msg.Node) (h : Msg.admitChild T true isMsg g rows kids c = .ok ()) :
    Msg.admitChild T false isMsg g rows kids c = .ok () := by
  unfold Msg.admitChild at h ⊢
  simp only [bind, Except.bind] at h ⊢
  cases hf : Msg.findChildOk T true isMsg g rows c.name with
  | error e => simp [hf] at h
  | ok u =>
    have : Msg.findChildOk T false isMsg g rows c.name = .ok () := by
      unfold Msg.findChildOk at hf ⊢
      simp only at hf ⊢
      repeat' split at hf
      all_goals simp_all
    simp [this, pure, Except.pure]

/-- **C05 (STRICT enforces the maximum cardinality).** -/
theorem C05_strict_enforces_max (T : Tables) (isMsg : Bool) (g : Option String) (rows : List Msg.SRow)
    (kids : List Msg.Node) (c : Msg.Node) (r : Msg.SRow)
    (hrow : (Msg.keyed rows).find? (·.1 == c.name) = some (c.name, r))
    (hmx : r.card.2 > -1) (hover : ((kids.filter (·.name == c.name)).length + 1 : Int) > r.card.2)
    (hfind : Msg.findChildOk T true isMsg g (some rows) c.name = .ok ()) :
    Msg.admitChild T true isMsg g (some rows) kids c = .error .MaxChildLimitReached := by
  unfold Msg.admitChild
  simp only [bind, Except.bind, hfind, hrow, if_true]
  simp [hover, hmx, throw, throwThe, MonadExceptOf.throw]

/-- **C05 (STRICT enforces the maximum length).** -/
theorem C05_strict_enforces_maxlen (b : BaseDt) (v27 : Bool) (ml : Nat) (hm : b.maxLen = some ml) (s : Str) (hl : s.length > ml) :
    textual b v27 s true = .error .MaxLengthReached := by
  simp [textual, hm, hl]

end Hl7.C05
