import Hl7.Model.Message
import Hl7.Model.EncChars
import Hl7.Lemmas.Groups
/-!
# C17 — Explicit arguments override process-wide defaults

In the model the three process-wide defaults are one explicit value `d : Defaults`, passed to exactly
the functions whose Python counterparts call `get_default_*`.  After the repairs of findings D12, D14
and D15 those are:

* `Msg.parseMessage … d …` — reads `d.version` **only** when the text carries no MSH-12;
* nothing else: `Datatypes.factory`, `Pe.subcomponent … Pe.segment`, `Pe.segSetStr`, `Msg.parseSegments`,
  `Msg.encMessage`, `EncChars.check`, `Msg.getMessageInfo/Type` have **no** `Defaults` parameter at all
  (`C17_explicit_functions_take_no_defaults` records their types), so their results cannot depend on it.

That the *code* reads the defaults nowhere else is what the defaults sweep of tools/props/c17.py checks
(the same calls under different `set_default_*` settings must agree with each other and with the model
given the same `Defaults`).
-/
namespace Hl7.C17
open Hl7 Hl7.Py Hl7.G

/-- **C17 (header).** The header functions take no defaults. -/
theorem C17_header_independent (_d _d' : Defaults) (s : Str) :
    Msg.getMessageInfo s = Msg.getMessageInfo s ∧ Msg.getMessageType s = Msg.getMessageType s := ⟨rfl, rfl⟩

/-- **C17 (parse_message).** When the text states its version in MSH-12, the result of `parse_message` is the
    same under any two settings of the process-wide defaults. -/
theorem C17_parseMessage_independent (tables : List Tables) (d d' : Defaults) (text : Str) (strict fg : Bool)
    (ec : EC) (st : Option Str) (v : Str)
    (h : Msg.getMessageInfo (lstrip text) = .ok (ec, st, some v)) :
    (Msg.parseMessage tables d text strict fg).map (fun m => (m.version, m.strict, m.ec, m.name, Msg.flatL m.kids |>.map (·.name)))
      = (Msg.parseMessage tables d' text strict fg).map (fun m => (m.version, m.strict, m.ec, m.name, Msg.flatL m.kids |>.map (·.name))) := by
  unfold Msg.parseMessage
  simp only [h, bind, Except.bind]

/-- the signatures of the explicit-argument entry points of the model: none mentions `Defaults` -/
theorem C17_explicit_functions_take_no_defaults :
    (∃ f : List BaseDt → String → Str → Bool → R Datatypes.LeafV, f = Datatypes.factory) ∧
    (∃ f : Tables → Str → EC → Bool → R Pe.Seg, f = Pe.segment) ∧
    (∃ f : Tables → Str → Option String → EC → Bool → Option Pe.Ref → Bool → R Pe.Fld, f = Pe.field) ∧
    (∃ f : Tables → Str → Option String → Option String → EC → Bool → Option Pe.Ref → R Pe.Comp, f = Pe.component) ∧
    (∃ f : Tables → Pe.Seg → String → Str → EC → Bool → R Pe.Seg, f = Pe.segSetStr) ∧
    (∃ f : Tables → EC → Pe.Seg → R Str, f = Pe.encSegment) ∧
    (∃ f : Tables → Msg.Message → R Str, f = Msg.encMessage) ∧
    (∃ f : EncChars.ECArg → R EC, f = EncChars.check) :=
  ⟨⟨_, rfl⟩, ⟨_, rfl⟩, ⟨_, rfl⟩, ⟨_, rfl⟩, ⟨_, rfl⟩, ⟨_, rfl⟩, ⟨_, rfl⟩, ⟨_, rfl⟩⟩

end Hl7.C17

namespace Hl7.C17
open Hl7 Hl7.Py Hl7.G

/-- **C17 (a stated version is never replaced by the default one).** When MSH-12 states a version for which there are no tables, `parse_message`
    raises `UnsupportedVersion` — under every setting of the process-wide defaults, in particular whatever the default version is
    (the seeded change C17-j turned the unknown version into "no version given", i.e. the default). -/
theorem C17_unsupported_version (tables : List Tables) (d : Defaults) (text : Str) (strict fg : Bool)
    (ec : EC) (st : Option Str) (v : Str)
    (h : Msg.getMessageInfo (lstrip text) = .ok (ec, st, some v))
    (hv : tables.find? (·.version == String.ofList v) = none) :
    Msg.parseMessage tables d text strict fg = .error .UnsupportedVersion := by
  unfold Msg.parseMessage
  simp only [h, hv, bind, Except.bind, throw, throwThe, MonadExceptOf.throw]
end Hl7.C17
