import Hl7.Model.Cascade
import Hl7.Lemmas.Split
namespace Hl7.Casc
open Hl7 Hl7.Py Hl7.Slots

/-- the leaf texts of a tree, in order -/
def leaves (ls : List Lvl) (t : T) : List Str := (paths ls t).map (·.2)

/-- what the text itself says its pieces are, level by level (no tree involved): at a positional level the non-empty pieces, at a
    repetition level every piece -/
def tokens : List Lvl → Str → List Str
  | [], s => [s]
  | .pos c _ :: ls, s => ((splitOn c s).filter (· ≠ [])).flatMap (tokens ls)
  | .rep c :: ls, s => (splitOn c s).flatMap (tokens ls)

theorem pieces_snd (i : Nat) (xs : List Str) : (pieces i xs).map (·.2) = xs.filter (· ≠ []) := by
  induction xs generalizing i with
  | nil => simp [pieces]
  | cons x xs ih =>
    by_cases hx : x = []
    · simp [pieces, hx, ih]
    · simp [pieces, hx, ih]

theorem flatMap_zipIdx_fst {α β} (f : α → List β) (l : List α) (k : Nat) :
    (l.zipIdx k).flatMap (fun p => f p.1) = l.flatMap f := by
  induction l generalizing k with
  | nil => simp
  | cons a l ih => simp [List.zipIdx_cons, ih]

/-- **C03 (inside a segment, every depth).** For every list of levels and **every** text — canonical or not, with trailing empty
    pieces, with more pieces than the table has positions — the leaves of the parsed tree, in order, are exactly the pieces the text
    consists of: parsing drops nothing and reorders nothing. -/
theorem C03_parse_keeps_every_piece : ∀ (ls : List Lvl) (s : Str), leaves ls (parse ls s) = tokens ls s
  | [], s => by simp [leaves, parse, paths, tokens]
  | .pos c w :: ls, s => by
    have ih := C03_parse_keeps_every_piece ls
    simp only [leaves] at ih
    simp only [leaves, parse, paths, tokens, List.map_flatMap, List.flatMap_map, List.map_map]
    rw [← pieces_snd 0 (splitOn c s), List.flatMap_map]
    congr 1
    funext p
    rw [← ih p.2]
    apply List.map_congr_left
    intro q _
    rfl
  | .rep c :: ls, s => by
    have ih := C03_parse_keeps_every_piece ls
    simp only [leaves] at ih
    simp only [leaves, parse, paths, tokens, List.map_flatMap, List.map_map]
    have h1 : ∀ a : T × Nat, List.map ((fun x : List Nat × Str => x.snd) ∘ fun q => (a.snd :: q.fst, q.snd)) (paths ls a.fst)
        = (fun t => List.map (fun q : List Nat × Str => q.2) (paths ls t)) a.1 := by
      intro a
      apply List.map_congr_left
      intro q _
      rfl
    simp only [h1]
    rw [flatMap_zipIdx_fst (fun t => List.map (fun q : List Nat × Str => q.2) (paths ls t)), List.flatMap_map]
    congr 1
    funext x
    exact ih x
end Hl7.Casc
