import Hl7.Lemmas.Escape
/-!
# C06 — Escaping is delimiter-safe and idempotent for every delimiter set

Model: `Hl7.Escape.escape v27 ec s` (`TextualDataType._escape_value`, base and v2.7 variants).
All theorems are for every string `s : List Char` (no length bound) and every valid delimiter set.
-/
namespace Hl7.Escape
open Py

/-- the delimiters the escaper is responsible for -/
def delims (v27 : Bool) (ec : EC) : List Char :=
  [ec.field, ec.comp, ec.sub, ec.rep] ++ (if v27 then ec.trunc.toList else [])

/-- a valid delimiter set: escape character and delimiters pairwise distinct, none of them one of the
    escape letters (the property quantifies over punctuation characters) -/
def validEC (v27 : Bool) (ec : EC) : Bool :=
  (ec.esc :: delims v27 ec).Nodup && (ec.esc :: delims v27 ec).all (fun c => !(letters true).contains c)

/-- every escape character starts or ends a triple `e L e` with `L` an escape letter, scanning left to right:
    state 0 = outside, 1 = just read the opening `e`, 2 = just read the letter -/
def tokenizesFrom (e : Char) (L : List Char) : Nat → Str → Bool
  | st, [] => st == 0
  | 0, c :: r => if c == e then tokenizesFrom e L 1 r else tokenizesFrom e L 0 r
  | 1, c :: r => L.contains c && tokenizesFrom e L 2 r
  | _, c :: r => c == e && tokenizesFrom e L 0 r

def tokenizes (e : Char) (L : List Char) (s : Str) : Bool := tokenizesFrom e L 0 s

/-! ## helper facts -/

theorem mem_replaceChar {c : Char} {r s : Str} {x : Char} (h : x ∈ replaceChar c r s) :
    (x ∈ s ∧ x ≠ c) ∨ x ∈ r := by
  induction s with
  | nil => simp [replaceChar] at h
  | cons y ys ih =>
    unfold replaceChar at h
    split at h
    · rcases List.mem_append.mp h with h | h
      · exact Or.inr h
      · rcases ih h with ⟨h1, h2⟩ | h1
        · exact Or.inl ⟨List.mem_cons_of_mem _ h1, h2⟩
        · exact Or.inr h1
    · next hne =>
      rcases List.mem_cons.mp h with h | h
      · subst h; exact Or.inl ⟨List.mem_cons_self, hne⟩
      · rcases ih h with ⟨h1, h2⟩ | h1
        · exact Or.inl ⟨List.mem_cons_of_mem _ h1, h2⟩
        · exact Or.inr h1

theorem replaceChar_of_not_mem {c : Char} {r s : Str} (h : c ∉ s) : replaceChar c r s = s := by
  induction s with
  | nil => rfl
  | cons y ys ih =>
    have hy : y ≠ c := fun e => h (by simp [e])
    have hys : c ∉ ys := fun e => h (by simp [e])
    simp [replaceChar, hy, ih hys]

theorem mem_escPass {e : Char} {L : List Char} {s : Str} {p2 p1 : Option Char} {x : Char}
    (h : x ∈ escPass e L p2 p1 s) : x ∈ s ∨ x = e ∨ x = 'E' := by
  induction s generalizing p2 p1 with
  | nil => simp [escPass] at h
  | cons c rest ih =>
    unfold escPass at h
    rcases List.mem_append.mp h with h | h
    · split at h
      · simp at h; rcases h with h | h | h <;> simp [h]
      · simp at h; simp [h]
    · rcases ih h with h | h | h
      · exact Or.inl (List.mem_cons_of_mem _ h)
      · exact Or.inr (Or.inl h)
      · exact Or.inr (Or.inr h)

/-- the facts about a valid set that the proofs use -/
structure Facts (v27 : Bool) (ec : EC) : Prop where
  e_f : ec.esc ≠ ec.field
  e_c : ec.esc ≠ ec.comp
  e_s : ec.esc ≠ ec.sub
  e_r : ec.esc ≠ ec.rep
  f_c : ec.field ≠ ec.comp
  f_s : ec.field ≠ ec.sub
  f_r : ec.field ≠ ec.rep
  c_s : ec.comp ≠ ec.sub
  c_r : ec.comp ≠ ec.rep
  s_r : ec.sub ≠ ec.rep
  notL : ∀ c ∈ ec.esc :: delims v27 ec, c ∉ letters true
  tr : v27 = true → ∀ t, ec.trunc = some t →
        t ≠ ec.esc ∧ t ≠ ec.field ∧ t ≠ ec.comp ∧ t ≠ ec.sub ∧ t ≠ ec.rep

theorem facts_of_valid {v27 : Bool} {ec : EC} (h : validEC v27 ec = true) : Facts v27 ec := by
  unfold validEC at h
  simp only [Bool.and_eq_true, decide_eq_true_eq, List.all_eq_true, Bool.not_eq_true',
    List.contains_eq_mem, decide_eq_false_iff_not] at h
  obtain ⟨hn, hl⟩ := h
  have hsub : [ec.esc, ec.field, ec.comp, ec.sub, ec.rep].Sublist (ec.esc :: delims v27 ec) := by
    unfold delims
    exact List.Sublist.cons₂ _ (List.sublist_append_left _ _)
  have base := hn.sublist hsub
  simp only [List.nodup_cons, List.mem_cons, List.not_mem_nil, or_false, not_or, List.nodup_nil,
    and_true] at base
  obtain ⟨⟨ef, ec', es, er⟩, ⟨fc, fs, fr⟩, ⟨cs, cr⟩, sr, _⟩ := base
  refine ⟨ef, ec', es, er, fc, fs, fr, cs, cr, sr, hl, ?_⟩
  intro hv t ht
  subst hv
  simp only [delims, ht, Option.toList, if_true, List.cons_append, List.nil_append, List.nodup_cons,
    List.mem_cons, List.not_mem_nil, or_false, not_or, List.nodup_nil, and_true] at hn
  obtain ⟨⟨_, _, _, _, et⟩, ⟨_, _, _, ft⟩, ⟨_, _, ct⟩, ⟨_, st⟩, rt, _⟩ := hn
  exact ⟨Ne.symm et, Ne.symm ft, Ne.symm ct, Ne.symm st, Ne.symm rt⟩

/-- letters of either variant are letters of the v2.7 variant -/
theorem letters_sub (v27 : Bool) {c : Char} (h : c ∈ letters v27) : c ∈ letters true := by
  cases v27
  · simp only [letters, Bool.false_eq_true, if_false, if_true, List.mem_cons, List.not_mem_nil, or_false] at h ⊢
    rcases h with h | h | h | h | h | h | h <;> simp [h]
  · exact h

theorem E_mem_letters (v27 : Bool) : 'E' ∈ letters v27 := by cases v27 <;> simp [letters]

theorem esc_not_letter {v27 : Bool} {ec : EC} (F : Facts v27 ec) : ec.esc ∉ letters v27 :=
  fun h => F.notL ec.esc (by simp) (letters_sub v27 h)

/-! ## the translation loop removes every delimiter -/

theorem translate_free {v27 : Bool} {ec : EC} (F : Facts v27 ec) (s : Str) :
    ∀ x ∈ translate v27 ec s, x ∉ delims v27 ec := by
  intro x hx
  have hF : 'F' ∈ letters true := by simp [letters]
  have hS : 'S' ∈ letters true := by simp [letters]
  have hT : 'T' ∈ letters true := by simp [letters]
  have hR : 'R' ∈ letters true := by simp [letters]
  have hL : 'L' ∈ letters true := by simp [letters]
  have nf : ∀ l ∈ letters true, ec.field ≠ l := fun l hl h => F.notL ec.field (by simp [delims]) (h ▸ hl)
  have nc : ∀ l ∈ letters true, ec.comp ≠ l := fun l hl h => F.notL ec.comp (by simp [delims]) (h ▸ hl)
  have ns : ∀ l ∈ letters true, ec.sub ≠ l := fun l hl h => F.notL ec.sub (by simp [delims]) (h ▸ hl)
  have nr : ∀ l ∈ letters true, ec.rep ≠ l := fun l hl h => F.notL ec.rep (by simp [delims]) (h ▸ hl)
  -- membership facts after the four unconditional replacements
  have key : ∀ y, y ∈ replaceChar ec.rep [ec.esc, 'R', ec.esc]
      (replaceChar ec.sub [ec.esc, 'T', ec.esc]
        (replaceChar ec.comp [ec.esc, 'S', ec.esc]
          (replaceChar ec.field [ec.esc, 'F', ec.esc] s))) →
      y ≠ ec.field ∧ y ≠ ec.comp ∧ y ≠ ec.sub ∧ y ≠ ec.rep := by
    intro y hy
    rcases mem_replaceChar hy with ⟨h4, n4⟩ | h4
    · rcases mem_replaceChar h4 with ⟨h3, n3⟩ | h3
      · rcases mem_replaceChar h3 with ⟨h2, n2⟩ | h2
        · rcases mem_replaceChar h2 with ⟨_, n1⟩ | h1
          · exact ⟨n1, n2, n3, n4⟩
          · simp at h1
            rcases h1 with h | h | h <;> subst h
            · exact ⟨F.e_f, n2, n3, n4⟩
            · exact ⟨(nf _ hF).symm, n2, n3, n4⟩
            · exact ⟨F.e_f, n2, n3, n4⟩
        · simp at h2
          rcases h2 with h | h | h <;> subst h
          · exact ⟨F.e_f, F.e_c, n3, n4⟩
          · exact ⟨(nf _ hS).symm, (nc _ hS).symm, n3, n4⟩
          · exact ⟨F.e_f, F.e_c, n3, n4⟩
      · simp at h3
        rcases h3 with h | h | h <;> subst h
        · exact ⟨F.e_f, F.e_c, F.e_s, n4⟩
        · exact ⟨(nf _ hT).symm, (nc _ hT).symm, (ns _ hT).symm, n4⟩
        · exact ⟨F.e_f, F.e_c, F.e_s, n4⟩
    · simp at h4
      rcases h4 with h | h | h <;> subst h
      · exact ⟨F.e_f, F.e_c, F.e_s, F.e_r⟩
      · exact ⟨(nf _ hR).symm, (nc _ hR).symm, (ns _ hR).symm, (nr _ hR).symm⟩
      · exact ⟨F.e_f, F.e_c, F.e_s, F.e_r⟩
  unfold translate at hx
  simp only at hx
  cases v27 with
  | false =>
    simp only at hx
    have := key x hx
    simp [delims, this]
  | true =>
    cases ht : ec.trunc with
    | none =>
      simp only [ht] at hx
      have := key x hx
      simp [delims, ht, this]
    | some t =>
      simp only [ht] at hx
      obtain ⟨te, tf, tc, ts, tr⟩ := F.tr rfl t ht
      have tl : ∀ l ∈ letters true, t ≠ l := fun l hl h =>
        F.notL t (by simp [delims, ht]) (h ▸ hl)
      rcases mem_replaceChar hx with ⟨h5, n5⟩ | h5
      · have := key x h5
        simp [delims, ht, this, n5]
      · simp at h5
        rcases h5 with h | h | h <;> subst h
        · simp [delims, ht, F.e_f, F.e_c, F.e_s, F.e_r, te.symm]
        · simp [delims, ht, (nf _ hL).symm, (nc _ hL).symm, (ns _ hL).symm, (nr _ hL).symm, (tl _ hL).symm]
        · simp [delims, ht, F.e_f, F.e_c, F.e_s, F.e_r, te.symm]

theorem translate_of_free {v27 : Bool} {ec : EC} (s : Str) (h : ∀ x ∈ s, x ∉ delims v27 ec) :
    translate v27 ec s = s := by
  have hf : ec.field ∉ s := fun hm => h _ hm (by simp [delims])
  have hc : ec.comp ∉ s := fun hm => h _ hm (by simp [delims])
  have hs : ec.sub ∉ s := fun hm => h _ hm (by simp [delims])
  have hr : ec.rep ∉ s := fun hm => h _ hm (by simp [delims])
  unfold translate
  simp only [replaceChar_of_not_mem hf, replaceChar_of_not_mem hc, replaceChar_of_not_mem hs,
    replaceChar_of_not_mem hr]
  cases v27 with
  | false => rfl
  | true =>
    cases ht : ec.trunc with
    | none => rfl
    | some t =>
      have htm : t ∉ s := fun hm => h _ hm (by simp [delims, ht])
      simp [replaceChar_of_not_mem htm]

/-! ## property theorems -/

/-- **C06 (delimiter-safe).** The encoding of a textual leaf contains none of the field, component,
    subcomponent, repetition (v2.7: truncation) characters, for every text and every valid set. -/
theorem C06_delimiter_free (v27 : Bool) (ec : EC) (hv : validEC v27 ec = true) (s : Str) :
    ∀ x ∈ escape v27 ec s, x ∉ delims v27 ec := by
  intro x hx
  have F := facts_of_valid hv
  rcases mem_escPass hx with h | h | h
  · exact translate_free F s x h
  · subst h
    intro hm
    have : ec.esc ∈ delims v27 ec := hm
    cases v27 <;> cases ht : ec.trunc <;> simp [delims, ht] at this
    all_goals first
      | (rcases this with h | h | h | h | h <;> first
          | exact F.e_f h | exact F.e_c h | exact F.e_s h | exact F.e_r h
          | exact (F.tr rfl _ ht).1 h.symm)
      | (rcases this with h | h | h | h <;> first
          | exact F.e_f h | exact F.e_c h | exact F.e_s h | exact F.e_r h)
  · subst h
    intro hm
    exact F.notL 'E' (List.mem_cons_of_mem _ hm) (by simp [letters])

/-- **C06 (counts).** Whatever text is assigned, its encoding contributes zero separators of any
    level: the number of fields, components and subcomponents of the message cannot change. -/
theorem C06_counts (v27 : Bool) (ec : EC) (hv : validEC v27 ec = true) (s : Str) :
    ∀ d ∈ delims v27 ec, (escape v27 ec s).count d = 0 := by
  intro d hd
  apply List.count_eq_zero.mpr
  intro hm
  exact C06_delimiter_free v27 ec hv s d hm hd

/-- **C06 (idempotent).** Encoding text that is already the output of the encoder changes nothing. -/
theorem C06_idempotent (v27 : Bool) (ec : EC) (hv : validEC v27 ec = true) (s : Str) :
    escape v27 ec (escape v27 ec s) = escape v27 ec s := by
  have F := facts_of_valid hv
  have hfree := C06_delimiter_free v27 ec hv s
  unfold escape at hfree ⊢
  rw [translate_of_free _ hfree]
  exact pass_idem ec.esc (letters v27) (esc_not_letter F) (E_mem_letters v27) _

/-- **C06 (fixed points).** Text is emitted unchanged exactly when it contains no delimiter and the
    regex pass leaves it alone. -/
theorem C06_fixed_iff (v27 : Bool) (ec : EC) (hv : validEC v27 ec = true) (s : Str) :
    escape v27 ec s = s ↔
      (∀ x ∈ s, x ∉ delims v27 ec) ∧ escPass ec.esc (letters v27) none none s = s := by
  constructor
  · intro h
    have hfree : ∀ x ∈ s, x ∉ delims v27 ec := by
      intro x hx; rw [← h] at hx; exact C06_delimiter_free v27 ec hv s x hx
    refine ⟨hfree, ?_⟩
    unfold escape at h
    rwa [translate_of_free s hfree] at h
  · rintro ⟨hfree, hp⟩
    unfold escape
    rw [translate_of_free s hfree, hp]

/-- tokenised text is left alone by the regex pass (from any scanner state) -/
theorem escPass_of_tokenizes (e : Char) (L : List Char) (hE : e ∉ L) :
    ∀ (s : Str) (st : Nat) (p2 p1 : Option Char),
      tokenizesFrom e L st s = true →
      (st = 0 ∨ (st = 1 ∧ p1 = some e) ∨ (st ≥ 2 ∧ p2 = some e ∧ ∃ l, p1 = some l ∧ l ∈ L)) →
      escPass e L p2 p1 s = s := by
  intro s
  induction s with
  | nil => intros; rfl
  | cons c rest ih =>
    intro st p2 p1 ht hst
    match st, ht, hst with
    | 0, ht, _ =>
      unfold tokenizesFrom at ht
      by_cases hc : c = e
      · subst hc
        simp only [beq_self_eq_true, if_true] at ht
        -- opening escape: the lookahead protects it
        have hah : ahead c L rest = true := by
          match rest, ht with
          | l :: r2, ht =>
            unfold tokenizesFrom at ht
            simp only [Bool.and_eq_true] at ht
            match r2, ht with
            | e2 :: r3, ⟨hl, ht2⟩ =>
              unfold tokenizesFrom at ht2
              simp only [Bool.and_eq_true, beq_iff_eq] at ht2
              have hl' : l ∈ L := by simpa using hl
              simp [ahead, hl', ht2.1]
        have := ih 1 p1 (some c) ht (Or.inr (Or.inl ⟨rfl, rfl⟩))
        simp [escPass, hah, this]
      · have hce : (c == e) = false := by simp [hc]
        simp only [hce, Bool.false_eq_true, if_false] at ht
        have := ih 0 p1 (some c) ht (Or.inl rfl)
        simp [escPass, hc, this]
    | 1, ht, hst =>
      unfold tokenizesFrom at ht
      simp only [Bool.and_eq_true, List.contains_eq_mem, decide_eq_true_eq] at ht
      obtain ⟨hl, ht2⟩ := ht
      have hp1 : p1 = some e := by
        rcases hst with h | ⟨_, h⟩ | ⟨h, _⟩
        · cases h
        · exact h
        · omega
      have hce : c ≠ e := fun h => hE (h ▸ hl)
      have := ih 2 p1 (some c) ht2 (Or.inr (Or.inr ⟨Nat.le_refl _, hp1, c, rfl, hl⟩))
      simp [escPass, hce, this]
    | n+2, ht, hst =>
      unfold tokenizesFrom at ht
      simp only [Bool.and_eq_true, beq_iff_eq] at ht
      obtain ⟨hc, ht2⟩ := ht
      subst hc
      obtain ⟨hp2, l, hp1, hl⟩ : p2 = some c ∧ ∃ l, p1 = some l ∧ l ∈ L := by
        rcases hst with h | ⟨h, _⟩ | ⟨_, h⟩
        · cases h
        · omega
        · exact h
      subst hp2 hp1
      have := ih 0 (some l) (some c) ht2 (Or.inl rfl)
      simp [escPass, behind, hl, this]

/-- **C06 (already escaped ⇒ unchanged).** Text that contains no raw delimiter and in which every
    escape character belongs to an escape sequence is emitted verbatim — so a value read from a
    parsed message re-encodes to the exact text it came from. -/
theorem C06_escaped_fixed (v27 : Bool) (ec : EC) (hv : validEC v27 ec = true) (s : Str)
    (hfree : ∀ x ∈ s, x ∉ delims v27 ec) (htok : tokenizes ec.esc (letters v27) s = true) :
    escape v27 ec s = s := by
  have F := facts_of_valid hv
  unfold escape
  rw [translate_of_free s hfree]
  exact escPass_of_tokenizes ec.esc (letters v27) (esc_not_letter F) s 0 none none htok (Or.inl rfl)

/-- The full-strength tokenisation clause of the property: *every* escape character of the output
    belongs to an escape sequence.  It is **false** of the code today (finding D5). -/
def C06_tokenizes_full : Prop :=
  ∀ (v27 : Bool) (ec : EC), validEC v27 ec = true → ∀ s : Str,
    tokenizes ec.esc (letters v27) (escape v27 ec s) = true

/-- D5 witness: `\F|` encodes to `\F\F\`, which reads back as `|` `F` and a lone escape. -/
theorem C06_witness_tokenizes : ¬ C06_tokenizes_full := by
  intro h
  have := h false EC.default (by decide) ['\\', 'F', '|']
  revert this
  decide

/-- replacing a character that is neither the escape character nor a letter by a triple `e l e`
    keeps the text tokenised (from every scanner state) -/
theorem tokenizes_replace (e : Char) (L : List Char) (d l : Char) (hde : d ≠ e) (hdL : d ∉ L) (hl : l ∈ L) :
    ∀ (t : Str) (st : Nat), tokenizesFrom e L st t = true →
      tokenizesFrom e L st (replaceChar d [e, l, e] t) = true := by
  intro t
  induction t with
  | nil => intro st h; simpa [replaceChar] using h
  | cons c r ih =>
    intro st h
    match st, h with
    | 0, h =>
      unfold tokenizesFrom at h
      by_cases hcd : c = d
      · subst hcd
        have hce : (c == e) = false := by simp [hde]
        simp only [hce, Bool.false_eq_true, if_false] at h
        have := ih 0 h
        simp [replaceChar, tokenizesFrom, hl, this]
      · by_cases hce : c = e
        · subst hce
          simp only [beq_self_eq_true, if_true] at h
          have := ih 1 h
          simp [replaceChar, hcd, tokenizesFrom, this]
        · have hce' : (c == e) = false := by simp [hce]
          simp only [hce', Bool.false_eq_true, if_false] at h
          have := ih 0 h
          simp [replaceChar, hcd, tokenizesFrom, hce, this]
    | 1, h =>
      unfold tokenizesFrom at h
      simp only [Bool.and_eq_true, List.contains_eq_mem, decide_eq_true_eq] at h
      have hcd : c ≠ d := fun hh => hdL (hh ▸ h.1)
      have := ih 2 h.2
      simp [replaceChar, hcd, tokenizesFrom, h.1, this]
    | n+2, h =>
      unfold tokenizesFrom at h
      simp only [Bool.and_eq_true, beq_iff_eq] at h
      obtain ⟨hc, h2⟩ := h
      subst hc
      have hcd : c ≠ d := fun hh => hde hh.symm
      have := ih 0 h2
      simp [replaceChar, hcd, tokenizesFrom, this]

theorem tokenizes_of_no_esc (e : Char) (L : List Char) (s : Str) (h : e ∉ s) :
    tokenizesFrom e L 0 s = true := by
  induction s with
  | nil => rfl
  | cons c r ih =>
    have hc : c ≠ e := fun hh => h (by simp [hh])
    have hr : e ∉ r := fun hh => h (by simp [hh])
    simp [tokenizesFrom, hc, ih hr]

/-- **C06 (tokenisation, partial).** For text that contains no escape character, every escape
    character of the encoding belongs to an escape sequence `e L e`. The guard `ec.esc ∉ s` is what
    finding D5 forces; `C06_witness_tokenizes` shows the statement without it is false. -/
theorem C06_tokenizes_partial (v27 : Bool) (ec : EC) (hv : validEC v27 ec = true) (s : Str)
    (hs : ec.esc ∉ s) : tokenizes ec.esc (letters v27) (escape v27 ec s) = true := by
  have F := facts_of_valid hv
  -- it suffices that the translated text tokenises: then the pass is the identity on it
  suffices htr : tokenizes ec.esc (letters v27) (translate v27 ec s) = true by
    unfold escape
    rw [escPass_of_tokenizes ec.esc (letters v27) (esc_not_letter F) _ 0 none none htr (Or.inl rfl)]
    exact htr
  have nl : ∀ d ∈ delims v27 ec, d ∉ letters v27 := fun d hd h =>
    F.notL d (List.mem_cons_of_mem _ hd) (letters_sub v27 h)
  have hF : 'F' ∈ letters v27 := by cases v27 <;> simp [letters]
  have hS : 'S' ∈ letters v27 := by cases v27 <;> simp [letters]
  have hT : 'T' ∈ letters v27 := by cases v27 <;> simp [letters]
  have hR : 'R' ∈ letters v27 := by cases v27 <;> simp [letters]
  have h0 := tokenizes_of_no_esc ec.esc (letters v27) s hs
  have h1 := tokenizes_replace ec.esc (letters v27) ec.field 'F' (Ne.symm F.e_f) (nl _ (by simp [delims])) hF _ 0 h0
  have h2 := tokenizes_replace ec.esc (letters v27) ec.comp 'S' (Ne.symm F.e_c) (nl _ (by simp [delims])) hS _ 0 h1
  have h3 := tokenizes_replace ec.esc (letters v27) ec.sub 'T' (Ne.symm F.e_s) (nl _ (by simp [delims])) hT _ 0 h2
  have h4 := tokenizes_replace ec.esc (letters v27) ec.rep 'R' (Ne.symm F.e_r) (nl _ (by simp [delims])) hR _ 0 h3
  unfold tokenizes translate
  simp only
  cases v27 with
  | false => exact h4
  | true =>
    cases ht : ec.trunc with
    | none => exact h4
    | some t =>
      have hL : 'L' ∈ letters true := by simp [letters]
      exact tokenizes_replace ec.esc (letters true) t 'L' (F.tr rfl t ht).1 (nl t (by simp [delims, ht])) hL _ 0 h4

/-- non-vacuity: the default sets are valid, and so is an adversarial punctuation set -/
example : validEC false EC.default = true ∧ validEC true EC.default27 = true ∧
    validEC true ⟨'!', '@', '%', '$', '/', some '*'⟩ = true := by decide

end Hl7.Escape
