import Hl7.Lemmas.HeapCases
import Hl7.Props.C11
/-!
# C09 — Child mutations behave like edits of an ordered list  (element-graph core, after the repairs of D7/D8/D23)

Model: `Hl7.Heap`.  For every heap, every structure (`Rules`) and all nodes:

* `append` (`add`, `add_<child>`, assignment of an absent child) puts the child **at the end** of the parent's
  list, lists it once, and changes no other list except that of the child's previous parent, which loses it;
* `remove` deletes exactly the addressed child and changes no other list;
* `replace_child` (assignment over an existing repetition, `__setitem__`) edits the list **in place**:
  the result is `l.set (l.idxOf old) new` — the order of all the other children is untouched (finding D7
  was exactly this: the new child went to the end) — and on a duplicate-free list that is the reference
  model's `specReplace`.

The per-name view (`indexes`) is by definition the child list filtered by name (repair of D24 makes the
implementation's by-name index that filter, which the correspondence checks on every history).
-/
namespace Hl7.Heap

variable (R : Rules)

/-- **C09 (add appends).** After a successful `append` of a child that is not a traversal child of the parent,
    the parent's list is the old list with the child at the end — or the old list when it was listed already. -/
theorem C09_append_list (p c : Nat) (h : Heap) (cn : Node) (hc : h[c]? = some cn)
    (hok : (append R p c h).2 = .ok ()) (hnt : cn.parent = some p ∨ cn.tparent ≠ some p) :
    listOf (append R p c h).1 p = if c ∈ listOf h p then listOf h p else listOf h p ++ [c] := by
  obtain ⟨pn, cn', hp, hc', _, path⟩ := append_ok R p c h hok
  rw [hc] at hc'; cases hc'
  have hasp : has h p = true := has_of_get hp
  rcases path with ⟨h1, h2, _, he⟩ | ⟨h1, _, he⟩ | ⟨h1, h2, _, he⟩
  · rw [he, listOf_detach, listOf_pushList' _ _ _ _ (by simpa using hasp)]
    simp
  · rw [he, listOf_pushList' _ _ _ _ hasp]; simp
  · rcases hnt with hnt | hnt
    · exact absurd hnt h1
    · exact absurd h2 hnt

/-- **C09 (add, frame).** No other list changes, except that the child's previous parent no longer lists it. -/
theorem C09_append_frame (p c q : Nat) (h : Heap) (cn : Node) (hc : h[c]? = some cn)
    (hok : (append R p c h).2 = .ok ()) (hq : q ≠ p) :
    listOf (append R p c h).1 q = if cn.parent = some q ∧ cn.tparent ≠ some p then (listOf h q).erase c else listOf h q := by
  obtain ⟨pn, cn', hp, hc', _, path⟩ := append_ok R p c h hok
  rw [hc] at hc'; cases hc'
  have hasp : has h p = true := has_of_get hp
  have hpq : ¬ p = q := fun e => hq e.symm
  rcases path with ⟨h1, h2, _, he⟩ | ⟨h1, _, he⟩ | ⟨h1, h2, _, he⟩
  · rw [he, listOf_detach, listOf_pushList' _ _ _ _ (by simpa using hasp)]
    simp [hpq, hq, h2]
  · rw [he, listOf_pushList' _ _ _ _ hasp]
    have : ¬ cn.parent = some q := by rw [h1]; intro e; cases e; exact hq rfl
    simp [hpq, this]
  · rw [he, listOf_modify]
    simp [hpq, h2]

/-- **C09 (delete).** `remove` deletes exactly the addressed child from the parent's list … -/
theorem C09_remove_list (p c : Nat) (h : Heap) (cn : Node) (hc : h[c]? = some cn)
    (hok : (remove p c h).2 = .ok ()) (hnt : cn.tparent ≠ some p) :
    listOf (remove p c h).1 p = (listOf h p).erase c := by
  obtain ⟨pn, cn', hp, hc', path⟩ := remove_ok p c h hok
  rw [hc] at hc'; cases hc'
  rcases path with ⟨h1, he⟩ | ⟨h1, _, he⟩
  · exact absurd h1 hnt
  · rw [he, listOf_eraseList]; simp

/-- … and touches no other list. -/
theorem C09_remove_frame (p c q : Nat) (h : Heap) (hok : (remove p c h).2 = .ok ()) (hq : q ≠ p) :
    listOf (remove p c h).1 q = listOf h q := by
  obtain ⟨pn, cn, hp, hc, path⟩ := remove_ok p c h hok
  have hpq : ¬ p = q := fun e => hq e.symm
  rcases path with ⟨h1, he⟩ | ⟨h1, _, he⟩
  · rw [he, listOf_modify]; simp [hpq]
  · rw [he, listOf_eraseList]; simp [hpq]

/-- **C09 (insert keeps the position).** After a successful `insert` at `li` of a child the parent did not list,
    the list is the old one with the child at position `li`. -/
theorem C09_insert_list (p c li : Nat) (h : Heap) (hok : (insertAt R p c li h).2 = .ok ()) :
    listOf (insertAt R p c li h).1 p =
      ((listOf h p).erase c).take li ++ c :: ((listOf h p).erase c).drop li := by
  obtain ⟨pn, cn, hp, hc, _, path⟩ := insertAt_ok R p c li h hok
  have hasp : has (eraseList p c h) p = true := has_of_get hp
  have hl : listOf (eraseList p c h) p = (listOf h p).erase c := by rw [listOf_eraseList]; simp
  rcases path with ⟨h1, _, he⟩ | ⟨h1, _, he⟩
  · rw [he, listOf_insertList' _ _ _ _ _ (by simpa using hasp), listOf_detach]
    simp [hl]
  · rw [he, listOf_insertList' _ _ _ _ _ hasp]; simp [hl]

/-- **C09 (replace in place).** A successful `replace_child(old, new)` of a listed child by one the parent does
    not list yet edits the list in place: same length, same order, `new` exactly where `old` was. -/
theorem C09_replace_in_place (p old new : Nat) (h : Heap) (on : Node) (ho : h[old]? = some on)
    (hnt : on.tparent ≠ some p) (hnew : new ∉ listOf h p)
    (hok : (replaceChild R p old new h).2 = .ok ()) :
    listOf (replaceChild R p old new h).1 p = (listOf h p).set ((listOf h p).idxOf old) new := by
  unfold replaceChild at hok ⊢
  cases hp : h[p]? with
  | none => simp [hp, ho] at hok
  | some pn =>
    simp only [hp, ho, if_neg hnt] at hok ⊢
    cases hr : remove p old h with
    | mk h1 r1 =>
      cases r1 with
      | error e => simp [hr] at hok
      | ok u =>
        simp only [hr] at hok ⊢
        have hrok : (remove p old h).2 = .ok () := by rw [hr]
        obtain ⟨pn', on', hp', ho', path⟩ := remove_ok p old h hrok
        rw [hp] at hp'; cases hp'
        rw [ho] at ho'; cases ho'
        have hh1 : h1 = (remove p old h).1 := by rw [hr]
        rcases path with ⟨h1', _⟩ | ⟨_, hm, he⟩
        · exact absurd h1' hnt
        · rw [← hh1] at he
          cases hi : insertAt R p new (pn.list.idxOf old) h1 with
          | mk h2 r2 =>
            cases r2 with
            | error e => simp [hi] at hok
            | ok u2 =>
              simp only [hi]
              have hiok : (insertAt R p new (pn.list.idxOf old) h1).2 = .ok () := by rw [hi]
              have := C09_insert_list R p new (pn.list.idxOf old) h1 hiok
              rw [hi] at this
              simp only at this
              rw [this, he, listOf_eraseList]
              simp only [if_true]
              rw [listOf_eq h p pn hp] at hnew ⊢
              have hne : new ∉ pn.list.erase old := fun hm' => hnew (List.mem_of_mem_erase hm')
              rw [List.erase_of_not_mem hne]
              exact take_drop_erase_set pn.list old new hm

/-- on a duplicate-free list (invariant C10) that is the reference model's replacement -/
theorem C09_replace_spec (p old new : Nat) (h : Heap) (on : Node) (ho : h[old]? = some on)
    (hnt : on.tparent ≠ some p) (hnew : new ∉ listOf h p) (hnd : (listOf h p).Nodup) (hold : old ∈ listOf h p)
    (hok : (replaceChild R p old new h).2 = .ok ()) :
    listOf (replaceChild R p old new h).1 p = specReplace (listOf h p) old new := by
  rw [C09_replace_in_place R p old new h on ho hnt hnew hok]
  exact set_idxOf_eq_specReplace _ _ _ hnd hold


/-! ### assignment and deletion address a repetition by name and index -/

theorem pyIdx_mem (l : List Nat) (i : Int) (c : Nat) (h : pyIdx l i = some c) : c ∈ l := by
  unfold pyIdx at h
  split at h
  · exact List.mem_of_getElem? h
  · split at h
    · exact List.mem_of_getElem? h
    · cases h

/-- the repetition `child_at_index` finds among the real children is a listed child of that name -/
theorem childAt_listed (h : Heap) (p : Nat) (name : String) (i : Int) (c : Nat)
    (hc : pyIdx (namedReps h p name) i = some c) : c ∈ listOf h p ∧ nameOf h c = some name := by
  have hm := pyIdx_mem _ _ _ hc
  unfold namedReps at hm
  rw [List.mem_filter] at hm
  exact ⟨by unfold listOf; exact hm.1, by simpa using hm.2⟩

/-- **C09 (assignment replaces the addressed repetition in place).** `ElementList.set` on a name whose `i`-th repetition
    exists is `replace_child` of exactly that repetition: the parent's list afterwards is the old one with the addressed
    child replaced at its position. (`hstop`: the parent is not itself a pending traversal child, so the final
    `set_parent_to_traversal()` has nothing to promote.) -/
theorem C09_set_replaces_addressed (p new old : Nat) (i : Int) (h : Heap) (nn on : Node)
    (hn : h[new]? = some nn) (ho : h[old]? = some on)
    (haddr : pyIdx (namedReps h p nn.name) i = some old)
    (hnt : on.tparent ≠ some p) (hnew : new ∉ listOf h p)
    (hstop : ∀ pn1, (replaceChild R p old new h).1[p]? = some pn1 → pn1.tparent = none ∨ pn1.parent ≠ none)
    (hok : (setChild R p new i h).2 = .ok ()) :
    listOf (setChild R p new i h).1 p = (listOf h p).set ((listOf h p).idxOf old) new := by
  unfold setChild at hok ⊢
  have hca : childAt h p nn.name i = some old := by unfold childAt; simp [haddr]
  simp only [hn, hca] at hok ⊢
  cases hr : replaceChild R p old new h with
  | mk h1 r1 =>
    cases r1 with
    | error e => simp [hr] at hok
    | ok u =>
      simp only [hr] at hok ⊢
      have hrok : (replaceChild R p old new h).2 = .ok () := by rw [hr]
      have hl := C09_replace_in_place R p old new h on ho hnt hnew hrok
      rw [hr] at hl; simp only at hl
      cases hp1 : h1[p]? with
      | none =>
        -- no such node: `promote` crashes without touching the heap
        have : (promote R h1.length p h1).1 = h1 := by
          cases hlen : h1.length with
          | zero => rfl
          | succ n => unfold promote; simp [hp1]
        rw [this]; exact hl
      | some pn1 =>
        have hs := hstop pn1 (by rw [hr]; exact hp1)
        rw [(C11_promote_stop R h1.length p h1 pn1 hp1 hs p).1]
        exact hl

/-- **C09 (assignment appends when the addressed repetition is absent).** -/
theorem C09_set_appends_when_absent (p new : Nat) (i : Int) (h : Heap) (nn : Node)
    (hn : h[new]? = some nn) (habs : childAt h p nn.name i = none)
    (hnt : nn.parent = some p ∨ nn.tparent ≠ some p)
    (hstop : ∀ pn1, (append R p new h).1[p]? = some pn1 → pn1.tparent = none ∨ pn1.parent ≠ none)
    (hok : (setChild R p new i h).2 = .ok ()) :
    listOf (setChild R p new i h).1 p = if new ∈ listOf h p then listOf h p else listOf h p ++ [new] := by
  unfold setChild at hok ⊢
  simp only [hn, habs] at hok ⊢
  cases hr : append R p new h with
  | mk h1 r1 =>
    cases r1 with
    | error e => simp [hr] at hok
    | ok u =>
      simp only [hr] at hok ⊢
      have hrok : (append R p new h).2 = .ok () := by rw [hr]
      have hl := C09_append_list R p new h nn hn hrok hnt
      rw [hr] at hl; simp only at hl
      cases hp1 : h1[p]? with
      | none =>
        have : (promote R h1.length p h1).1 = h1 := by
          cases hlen : h1.length with
          | zero => rfl
          | succ n => unfold promote; simp [hp1]
        rw [this]; exact hl
      | some pn1 =>
        have hs := hstop pn1 (by rw [hr]; exact hp1)
        rw [(C11_promote_stop R h1.length p h1 pn1 hp1 hs p).1]
        exact hl

/-- **C09 (deletion removes exactly the addressed repetition).** `remove_by_name(name, i)` erases the `i`-th child of
    that name from the list and nothing else. -/
theorem C09_removeByName (p c : Nat) (name : String) (i : Int) (h : Heap) (cn : Node) (hc : h[c]? = some cn)
    (haddr : pyIdx (namedReps h p name) i = some c) (hnt : cn.tparent ≠ some p)
    (hok : (removeByName p name i h).2 = .ok ()) :
    listOf (removeByName p name i h).1 p = (listOf h p).erase c ∧ ∀ q, q ≠ p → listOf (removeByName p name i h).1 q = listOf h q := by
  unfold removeByName at hok ⊢
  have hca : childAt h p name i = some c := by unfold childAt; simp [haddr]
  simp only [hca] at hok ⊢
  exact ⟨C09_remove_list p c h cn hc hok hnt, fun q hq => C09_remove_frame p c q h hok hq⟩

/-- deleting an absent repetition is refused with a library exception (`ChildNotFound`) and changes nothing (C12, C14) -/
theorem C09_removeByName_absent (p : Nat) (name : String) (i : Int) (h : Heap) (habs : childAt h p name i = none) :
    removeByName p name i h = (h, .error .childNotValid) := by
  unfold removeByName; simp [habs]

/-- non-vacuity: a concrete heap on which replacement succeeds and keeps the order -/
def exRules : Rules := ⟨fun _ _ => true, fun _ _ => -1, fun _ => false⟩
def exHeap : Heap := [{ name := "S", list := [1, 2, 3] }, { name := "A", parent := some 0 }, { name := "B", parent := some 0 },
                     { name := "C", parent := some 0 }, { name := "X" }]
example : (replaceChild exRules 0 1 4 exHeap).2.toBool = true ∧ listOf (replaceChild exRules 0 1 4 exHeap).1 0 = [4, 2, 3] := by decide
/-- … and assignment by name and index: the second `B` of `[A, B, C, B']` is replaced where it stands -/
def exHeap2 : Heap := [{ name := "S", list := [1, 2, 3, 5] }, { name := "A", parent := some 0 }, { name := "B", parent := some 0 },
                      { name := "C", parent := some 0 }, { name := "B" }, { name := "B", parent := some 0 }]
example : (setChild exRules 0 4 1 exHeap2).2.toBool = true ∧ listOf (setChild exRules 0 4 1 exHeap2).1 0 = [1, 2, 3, 4] ∧
    listOf (setChild exRules 0 4 (-2) exHeap2).1 0 = [1, 4, 3, 5] := by decide

end Hl7.Heap

namespace Hl7.Heap

/-- Python's `l[-len(l)]` is the first element: the lowest negative index still addresses a repetition (the boundary seed C09-i moved) -/
theorem pyIdx_neg_length (l : List Nat) (h : l ≠ []) : pyIdx l (-(l.length : Int)) = l.head? := by
  unfold pyIdx
  have hpos : 0 < l.length := List.length_pos_iff.mpr h
  have h1 : ¬ (-(l.length : Int) ≥ 0) := by omega
  simp only [h1, ↓reduceIte, Int.neg_neg, Int.toNat_natCast, Nat.le_refl, Nat.sub_self]
  cases l with
  | nil => exact absurd rfl h
  | cons a t => simp

/-- … and one below it addresses nothing: `set` then appends, `remove_by_name` refuses -/
theorem pyIdx_below (l : List Nat) : pyIdx l (-(l.length : Int) - 1) = none := by
  unfold pyIdx
  have h1 : ¬ (-(l.length : Int) - 1 ≥ 0) := by omega
  have h2 : ¬ ((-(-(l.length : Int) - 1)).toNat ≤ l.length) := by omega
  simp only [h1, ↓reduceIte, h2]

/-- `l[-1]` is the last element -/
theorem pyIdx_neg_one (l : List Nat) : pyIdx l (-1) = l.getLast? := by
  unfold pyIdx
  cases hl : l with
  | nil => simp
  | cons a t =>
    have : ¬ ((-1 : Int) ≥ 0) := by omega
    simp only [this, ↓reduceIte, Int.reduceNeg, Int.neg_neg, Int.toNat_one, List.length_cons]
    have h3 : (1 : Nat) ≤ t.length + 1 := by omega
    simp only [h3, ↓reduceIte, Nat.add_sub_cancel]
    rw [List.getLast?_eq_getElem?]
    simp
end Hl7.Heap
