import Hl7.Lemmas.Shared
import Hl7.Model.Message
/-!
# C19 — Concurrent use gives the same results as sequential use

*Partial by nature* (DESIGN §5 C19).  What is proved: for threads whose atomic steps do not write the
shared state, every schedule yields, for every thread, exactly its solo result (`C19_schedule_independent`,
for every schedule and every number of threads); the model's API entry points are functions of
(tables, defaults, arguments) and therefore read-only steps (`C19_api_step_readonly`); the variant of
`datatype_factory` that overrides the shared `BASE_DATATYPES` map in place instead of a copy — the
defect fixed in hl7apy 1.3.5 — is *not* read-only and makes a later call fail (`C19_regression_nocopy`).
What is checked on the implementation, not proved: that the real calls write no shared state (write
monitor) and that threaded runs reproduce sequential results (stress run).  CPython's bytecode
interleaving, the import lock and the GIL are runtime behaviour the model cannot exhibit.
-/
namespace Hl7.Shared
open Hl7

/-- **C19 (schedule independence).** -/
theorem C19_schedule_independent {σ ℓ : Type} (s : σ) (ts : List (Thread σ ℓ)) (hro : ReadOnly ts) (sched : List Nat) :
    (runSched s ts sched).1 = s ∧ ((runSched s ts sched).2.map (finalLoc s)) = ts.map (finalLoc s) :=
  ⟨(sched_invariant s ts hro sched).1, (sched_invariant s ts hro sched).2.1⟩

/-- an API call as an atomic step: it computes its result from the shared tables/defaults and its own
    arguments, and hands the shared state back untouched -/
def apiStep {σ α β : Type} (f : σ → α → β) (arg : α) : σ → List β → List β × σ :=
  fun s acc => (acc ++ [f s arg], s)

/-- **C19 (the modelled API is read-only).** Any thread made of API calls — `parseMessage`, `encMessage`,
    `Datatypes.factory`, … all have the shape `f : SharedState → Args → Result` in the model — is read-only. -/
theorem C19_api_step_readonly {σ α β : Type} (f : σ → α → β) (args : List α) (s : σ) (l : List β) :
    ∀ st ∈ args.map (apiStep f), (st s l).2 = s := by
  intro st hst
  obtain ⟨a, _, rfl⟩ := List.mem_map.mp hst
  rfl

theorem C19_api_threads_readonly {σ α β : Type} (f : σ → α → β) (calls : List (List α)) :
    ReadOnly (calls.map (fun args => ({ loc := [], steps := args.map (apiStep f) } : Thread σ (List β)))) := by
  intro t ht st hst s l
  obtain ⟨args, _, rfl⟩ := List.mem_map.mp ht
  exact C19_api_step_readonly f args s l st hst

/-! ### the regression the 1.3.5 fix protects -/

/-- the shared `BASE_DATATYPES` map of a version: datatype name ↦ is the entry still the class? -/
abbrev BaseMap := List (String × Bool)

/-- `datatype_factory` as fixed: works on a copy, the shared map is handed back untouched; succeeds iff the
    entry it needs (`base_datatypes[datatype]`) is still a class -/
def factoryCopy (m : BaseMap) (dt : String) : Bool × BaseMap := ((m.lookup dt).getD false, m)

/-- the defective variant: `factories = base_datatypes` (no copy), so installing the factory functions
    overwrites the shared entries for DT, TM, DTM, NM, SI -/
def factoryNoCopy (m : BaseMap) (dt : String) : Bool × BaseMap :=
  ((m.lookup dt).getD false, m.map (fun (k, v) => if ["DT", "TM", "DTM", "NM", "SI"].contains k then (k, false) else (k, v)))

def demoMap : BaseMap := [("ST", true), ("DT", true), ("NM", true)]

/-- **C19 (regression witness).** With the copy, the shared map is never written and a second call succeeds;
    without it the first call changes the shared map and a later call for `DT` fails. -/
theorem C19_regression_nocopy :
    (factoryCopy demoMap "DT").2 = demoMap ∧
    (factoryCopy (factoryCopy demoMap "NM").2 "DT").1 = true ∧
    (factoryNoCopy demoMap "NM").2 ≠ demoMap ∧
    (factoryNoCopy (factoryNoCopy demoMap "NM").2 "DT").1 = false := by decide

/-- non-vacuity: two threads of API calls under an arbitrary schedule -/
example : let ts : List (Thread Nat (List Nat)) :=
            [[1, 2], [3]].map (fun args => { loc := [], steps := args.map (apiStep (fun s a => s + a)) })
          ((runSched 10 ts [1, 0, 0, 1, 7, 0]).2.map (·.loc)) = [[11, 12], [13]] := by decide

end Hl7.Shared
