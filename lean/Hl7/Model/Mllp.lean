import Hl7.Model.Message
/-!
# Model of the MLLP request handler (hl7apy/mllp.py:61-141)

A connection is a script of socket events (`chunk bytes | timeout | eof`); `handle` maps it to the
handler invocations, the reply bytes and the fact that the connection is closed.  Threads, real
sockets and real-time timeouts are *not* modelled (DESIGN §5 C16: partial for simultaneous clients).
-/
namespace Hl7.Mllp
open Hl7 Hl7.Py

abbrev Byte := UInt8
def SB : Byte := 0x0b
def EB : Byte := 0x1c
def CR : Byte := 0x0d

inductive Ev | chunk (bs : List Byte) | timeout | eof
deriving Repr, DecidableEq

inductive Read | data (line : List Byte) | closedNoHandler
deriving Repr, DecidableEq

/-- `line[-2:] == end_seq` -/
def endsFrame (line : List Byte) : Bool :=
  match line.reverse with
  | c :: e :: _ => c == CR && e == EB
  | _ => false

/-- the `while line[-2:] != end_seq` loop reading one byte at a time from the event stream;
    EOF breaks the loop, a timeout closes the connection -/
def readLoop : List Ev → List Byte → Read
  | evs, line =>
    if endsFrame line then .data line else
    match evs with
    | [] => .data line                         -- no more events = EOF
    | .eof :: _ => .data line                  -- `if not char: break`
    | .timeout :: _ => .closedNoHandler
    | .chunk [] :: rest => readLoop rest line
    | .chunk (b :: bs) :: rest => readLoop (.chunk bs :: rest) (line ++ [b])
termination_by evs _ => (evs.length, match evs with | .chunk bs :: _ => bs.length | _ => 0)
decreasing_by
  all_goals simp_wf
  · exact Prod.Lex.left _ _ (by omega)
  · exact Prod.Lex.right _ (by simp)

/-- the initial `recv(3)`: up to 3 bytes of the first non-empty chunk -/
def recv3 : List Ev → Option (List Byte × List Ev)
  | [] => some ([], [])                         -- EOF: recv returns b''
  | .eof :: rest => some ([], .eof :: rest)
  | .timeout :: _ => none
  | .chunk [] :: rest => recv3 rest             -- an empty write is not a TCP event
  | .chunk (b :: bs) :: rest => some ((b :: bs).take 3, .chunk ((b :: bs).drop 3) :: rest)

def readFrame (evs : List Ev) : Read :=
  match recv3 evs with
  | none => .closedNoHandler
  | some (first, rest) =>
    if first.take 1 != [SB] then .closedNoHandler
    else readLoop rest first

def chunks (cs : List (List Byte)) : List Ev := cs.map .chunk

/-! ## decoding and extraction -/

/-- strict UTF-8 decoding (`bytes.decode('utf-8')`): `none` = UnicodeDecodeError -/
def utf8Decode : List Byte → Option (List Char)
  | [] => some []
  | b0 :: rest =>
    let n0 := b0.toNat
    if n0 < 0x80 then (utf8Decode rest).map (Char.ofNat n0 :: ·)
    else if n0 < 0xC2 then none
    else if n0 < 0xE0 then
      match rest with
      | b1 :: r =>
        if b1.toNat / 64 == 2 then (utf8Decode r).map (Char.ofNat ((n0 % 32) * 64 + b1.toNat % 64) :: ·) else none
      | _ => none
    else if n0 < 0xF0 then
      match rest with
      | b1 :: b2 :: r =>
        let cp := (n0 % 16) * 4096 + (b1.toNat % 64) * 64 + b2.toNat % 64
        if b1.toNat / 64 == 2 && b2.toNat / 64 == 2 && cp ≥ 0x800 && !(0xD800 ≤ cp && cp ≤ 0xDFFF)
        then (utf8Decode r).map (Char.ofNat cp :: ·) else none
      | _ => none
    else if n0 < 0xF5 then
      match rest with
      | b1 :: b2 :: b3 :: r =>
        let cp := (n0 % 8) * 262144 + (b1.toNat % 64) * 4096 + (b2.toNat % 64) * 64 + b3.toNat % 64
        if b1.toNat / 64 == 2 && b2.toNat / 64 == 2 && b3.toNat / 64 == 2 && cp ≥ 0x10000 && cp ≤ 0x10FFFF
        then (utf8Decode r).map (Char.ofNat cp :: ·) else none
      | _ => none
    else none

/-- the payload grammar of the validator regex `(([^\r]+\r)*([^\r]+\r?))`: non-empty CR-separated
    pieces, an optional single trailing CR -/
def bodyOk (body : Str) : Bool :=
  let ps := splitOn '\r' body
  match ps.reverse with
  | [] => false
  | last :: initRev =>
    if last.isEmpty then !initRev.isEmpty && initRev.all (fun p => !p.isEmpty)
    else initRev.all (fun p => !p.isEmpty)

/-- `_extract_hl7_message` on the decoded line: `\x0b(body)\x1c\x0d` at the start of the text, where
    the read loop guarantees that the first `\x1c\x0d` is at the end -/
def extract (msg : Str) : Option Str :=
  match msg with
  | sb :: rest =>
    if sb != Char.ofNat 0x0b then none else
    match rest.reverse with
    | cr :: eb :: bodyRev =>
      if cr == '\r' && eb == Char.ofNat 0x1c && bodyOk bodyRev.reverse then some bodyRev.reverse else none
    | _ => none
  | [] => none

/-! ## routing -/

/-- what a handler does with a message: `some reply` or `none` (it raises) -/
abbrev Handler := Str → Option Str

structure Handlers where
  byType : List (Str × Nat)          -- message type -> handler id
  err : Option Nat                   -- id of the 'ERR' handler, if registered
  behave : Nat → Handler             -- behaviour of handler `id`
  errBehave : String → Handler       -- behaviour of the ERR handler, given the exception kind

/-- one invocation: which handler, and for the ERR handler which exception it was given -/
inductive Inv | handler (id : Nat) | errHandler (id : Nat) (exc : String)
deriving Repr, DecidableEq

structure Outcome where
  invocations : List Inv
  reply : Option Str
  closed : Bool
deriving Repr, DecidableEq

/-- the `except Exception as e:` arm of `_route_message` -/
def routeErr (hs : Handlers) (invs : List Inv) (exc : String) (msg : Str) : Outcome :=
  match hs.err with
  | none => ⟨invs, none, true⟩                      -- re-raised; `handle` closes without replying
  | some id => ⟨invs ++ [.errHandler id exc], hs.errBehave exc msg, true⟩

/-- `_route_message(msg)` followed by the write of `handle()` -/
def route (hs : Handlers) (msg : Str) : Outcome :=
  match Msg.getMessageType msg with
  | .error _ => routeErr hs [] "InvalidHL7Message" msg     -- ParserError or InvalidEncodingChars (`C15_getMessageType`): no readable MSH
  | .ok mt =>
    match mt.bind (fun t => hs.byType.lookup t) with
    | none => routeErr hs [] "UnsupportedMessageType" msg
    | some id =>
      match hs.behave id msg with
      | some r => ⟨[.handler id], some r, true⟩
      | none => routeErr hs [.handler id] "HandlerException" msg

/-- `MLLPRequestHandler.handle()` -/
def handle (hs : Handlers) (evs : List Ev) : Outcome :=
  match readFrame evs with
  | .closedNoHandler => ⟨[], none, true⟩
  | .data line =>
    match utf8Decode line with
    | none => ⟨[], none, true⟩                      -- UnicodeDecodeError: no handler; the server closes the request
    | some text =>
      match extract text with
      | none => ⟨[], none, true⟩
      | some msg => route hs msg

end Hl7.Mllp
