import Hl7.Model.Message
/-!
# Model of `check_encoding_chars` and of the MSH-1/MSH-2 spelling of a delimiter set
(hl7apy/__init__.py:47-70; core.py `Message._get_encoding_chars/_set_encoding_chars`)
-/
namespace Hl7.EncChars
open Hl7 Hl7.Py

/-- an `encoding_chars` mapping as supplied by a caller: any of the six roles may be missing -/
structure ECArg where
  field : Option Char
  comp : Option Char
  sub : Option Char
  rep : Option Char
  esc : Option Char
  trunc : Option Char
deriving DecidableEq, Repr

/-- `check_encoding_chars`: the five required keys are present and *all supplied characters*
    (TRUNCATION included — fix of finding D6) are pairwise distinct -/
def check (a : ECArg) : R EC :=
  match a.field, a.comp, a.sub, a.rep, a.esc with
  | some f, some c, some s, some r, some e =>
    if hasDup ([f, c, s, r, e] ++ a.trunc.toList) then .error .InvalidEncodingChars
    else .ok ⟨f, c, s, r, e, a.trunc⟩
  | _, _, _, _, _ => .error .InvalidEncodingChars

/-- the set a message of `version` actually uses: TRUNCATION only from v2.7 on (`_set_encoding_chars`) -/
def effective (version : Str) (ec : EC) : EC :=
  if strGe version "2.7".toList then ec else { ec with trunc := none }

/-- MSH-2 as `_set_encoding_chars` spells it -/
def msh2 (ec : EC) : Str := [ec.comp, ec.rep, ec.esc, ec.sub] ++ ec.trunc.toList

/-- the first segment line of a message: `MSH` + FIELD + MSH-2 + FIELD + the remaining header fields -/
def mshLine (ec : EC) (rest : List Str) : Str := 'M' :: 'S' :: 'H' :: ec.field :: join ec.field (msh2 ec :: rest)

end Hl7.EncChars
