import Hl7.Py.Str
/-!
# Model of `TextualDataType._escape_value` (base_datatypes.py:130-183, v2_7/base_datatypes.py:29-51)

Highlights are not modelled (outside every property's quantifier, DESIGN §7).
-/
namespace Hl7
open Py

/-- A set of encoding characters (one character each; multi-character values are outside the model). -/
structure EC where
  field : Char
  comp : Char
  sub : Char
  rep : Char
  esc : Char
  trunc : Option Char
deriving DecidableEq, Repr

def EC.default : EC := ⟨'|', '^', '&', '~', '\\', none⟩
def EC.default27 : EC := ⟨'|', '^', '&', '~', '\\', some '#'⟩

namespace Escape

/-- the letters of `_get_escape_char_regex`: `[HNFSTRE]`, from the v2.7 classes on `[HNFSTREL]` -/
def letters (v27 : Bool) : List Char :=
  if v27 then ['H','N','F','S','T','R','E','L'] else ['H','N','F','S','T','R','E']

/-- lookahead `(?![L]e)` fails (= protected) when the next two chars are letter, esc -/
def ahead (e : Char) (L : List Char) : Str → Bool
  | l :: e2 :: _ => L.contains l && e2 == e
  | _ => false

/-- lookbehind `(?<!e[L])`: previous two chars are esc, letter -/
def behind (e : Char) (L : List Char) (p2 p1 : Option Char) : Bool :=
  p2 == some e && (match p1 with | some l => L.contains l | none => false)

/-- `re.sub(regex, e+'E'+e, value)`: a left-to-right scan; the lookbehind sees the two previous
    characters of the *original* string (Python evaluates lookaround on the subject, not the output) -/
def escPass (e : Char) (L : List Char) : Option Char → Option Char → Str → Str
  | _, _, [] => []
  | p2, p1, c :: rest =>
    (if c == e && !behind e L p2 p1 && !ahead e L rest then [e, 'E', e] else [c])
      ++ escPass e L p1 (some c) rest

/-- the sequential `value.replace(char, esc_seq)` loop over `_get_translations` -/
def translate (v27 : Bool) (ec : EC) (t : Str) : Str :=
  let e := ec.esc
  let t := replaceChar ec.field [e, 'F', e] t
  let t := replaceChar ec.comp [e, 'S', e] t
  let t := replaceChar ec.sub [e, 'T', e] t
  let t := replaceChar ec.rep [e, 'R', e] t
  match v27, ec.trunc with
  | true, some tr => replaceChar tr [e, 'L', e] t
  | _, _ => t

/-- `_escape_value(value, encoding_chars)` with `highlights=None` -/
def escape (v27 : Bool) (ec : EC) (t : Str) : Str :=
  escPass ec.esc (letters v27) none none (translate v27 ec t)

end Escape
end Hl7
