import Hl7.Py.Str
/-! # Model of NM / SI acceptance and re-encoding (factories.py:275-332, base_datatypes.py:414-452, `Decimal(str)`, `str(Decimal)`, `int(str)`)
Validated reference semantics: DESIGN-appendix A.2. -/
namespace Hl7.Num
open Py

def dropLeadingZeros (s : Str) : Str := let t := s.dropWhile (· == '0'); if t.isEmpty then ['0'] else t

/-- `Decimal(str)`: sign, coefficient digits (no leading zeros), exponent -/
def parseDecimal (s : Str) : Option (Bool × Str × Int) :=
  let t := strip s
  if t.isEmpty then none else
  let (neg, t) := match t with
    | '-' :: r => (true, r)
    | '+' :: r => (false, r)
    | _ => (false, t)
  let ip := t.takeWhile isDig
  let t := t.drop ip.length
  let (fp, t) := match t with
    | '.' :: r => let f := r.takeWhile isDig; (f, r.drop f.length)
    | _ => ([], t)
  if ip.isEmpty && fp.isEmpty then none else
  let expPart : Option (Int × Str) := match t with
    | e :: r =>
      if e == 'e' || e == 'E' then
        let (sg, r) := match r with
          | '-' :: q => ((-1 : Int), q)
          | '+' :: q => ((1 : Int), q)
          | _ => ((1 : Int), r)
        let ds := r.takeWhile isDig
        if ds.isEmpty then none else some (sg * (natOf ds : Int), r.drop ds.length)
      else some (0, t)
    | [] => some (0, [])
  match expPart with
  | none => none
  | some (e, rest) =>
    if !rest.isEmpty then none else
    some (neg, dropLeadingZeros (ip ++ fp), e - (fp.length : Int))


/-- `str(Decimal)` -/
def decStr (neg : Bool) (digits : Str) (exp : Int) : Str :=
  let sg : Str := if neg then ['-'] else []
  let n : Int := digits.length
  let left : Int := exp + n
  let dot : Int := if exp ≤ 0 && left > -6 then left else 1
  let (ip, fp) : Str × Str :=
    if dot ≤ 0 then (['0'], '.' :: (List.replicate (-dot).toNat '0' ++ digits))
    else if dot ≥ n then (digits ++ List.replicate (dot - n).toNat '0', [])
    else (digits.take dot.toNat, '.' :: digits.drop dot.toNat)
  let e : Str := if left == dot then [] else
    let d := left - dot
    'E' :: (if d ≥ 0 then '+' :: intStr d else intStr d)
  sg ++ ip ++ fp ++ e

inductive NumRes | ok (t : Str) | valueError | maxLen
deriving Repr, DecidableEq

def nm (s : Str) (strict : Bool) : NumRes :=
  if s.isEmpty then .ok [] else
  match parseDecimal s with
  | none => .valueError
  | some (neg, ds, e) =>
    let t := decStr neg ds e
    if strict && t.length > 16 then .maxLen else .ok t

/-- optional sign of `int(str)` -/
def signSplit (t : Str) : Bool × Str :=
  match t with
  | '-' :: r => (true, r)
  | '+' :: r => (false, r)
  | _ => (false, t)

def parseInt (s : Str) : Option Int :=
  let p := signSplit (stripBy isIntWS s)
  if p.2.isEmpty || !p.2.all isDig then none else
  let v : Int := natOf p.2
  some (if p.1 then -v else v)

def si (s : Str) (strict : Bool) : NumRes :=
  if s.isEmpty then .ok [] else
  match parseInt s with
  | none => .valueError
  | some v =>
    let t := intStr v
    if strict && t.length > 4 then .maxLen else .ok t
end Hl7.Num
