import Hl7.Model.Parse
/-!
# Model of the message level: header functions, `parse_message`, group finding, `Message.to_er7`
(parser.py:40-195, 636-738; core.py `Group`, `Message`, `Element.to_er7`, `ElementList` admission checks)

Validated reference semantics: DESIGN-appendix A.3 (group finder) and A.7 (messages).
-/
namespace Hl7.Msg
open Hl7 Hl7.Py Hl7.G Hl7.Datatypes

/-! ## header -/

/-- `_split_msh` (parser.py:636-673) -/
def splitMsh (content : Str) : R (List Str × EC) :=
  match content with
  | 'M' :: 'S' :: 'H' :: fs :: _ =>
    if isWS fs then .error .ParserError else
    let msh := (splitOn '\r' content).headD []
    let fields := splitOn fs msh
    let seps := fields.getD 1 []
    if hasDup seps then .error .InvalidEncodingChars else
    if seps.any isWS then .error .InvalidEncodingChars else      -- fix of finding D21
    match seps with
    | [c, r, e, s] => .ok (fields, ⟨fs, c, s, r, e, none⟩)
    | [c, r, e, s, t] =>
      match fields[11]? with
      | none => .error .InvalidEncodingChars          -- `len(fields) > 11 and …` (fix of finding D11a)
      | some v =>
        if strGe v "2.7".toList then .ok (fields, ⟨fs, c, s, r, e, some t⟩) else .error .InvalidEncodingChars
    | _ => .error .InvalidEncodingChars
  | _ => .error .ParserError

/-- `get_message_type` -/
def getMessageType (content : Str) : R (Option Str) := do
  let (fields, _) ← splitMsh content
  pure (fields[8]?.map strip)

/-- `get_message_info`: (encoding chars, message structure, version) -/
def getMessageInfo (content : Str) : R (EC × Option Str × Option Str) := do
  let (fields, ec) ← splitMsh content
  let st : Option Str := match fields[8]? with
    | none => none
    | some f =>
      let mt := splitOn ec.comp (strip f)
      match mt[2]? with
      | some x => some x
      | none => match mt[1]? with
        | some b => some (mt.headD [] ++ '_' :: b)
        | none => none
  let ver : Option Str := match fields[11]? with
    | none => none
    | some f => (splitOn ec.comp (strip f)).head?
  pure (ec, st, ver)

/-! ## structures -/

/-- the structure of a message or group with the nested groups resolved through the tables -/
inductive SRow where
  | seg (name : String) (min : Nat) (max : Int) (hasRef : Bool)
  | grp (name : String) (min : Nat) (max : Int) (rows : List SRow)
  | other (name : String)
deriving Repr

def SRow.name : SRow → String
  | .seg n _ _ _ => n
  | .grp n _ _ _ => n
  | .other n => n

def SRow.card : SRow → Nat × Int
  | .seg _ mn mx _ => (mn, mx)
  | .grp _ mn mx _ => (mn, mx)
  | .other _ => (0, -1)

def entryRows (es : List Entry) (n : String) : List Row := ((es.find? (·.name == n)).map (·.rows)).getD []

/-- resolve group rows by name, `fuel` levels deep (the tables nest at most a handful of levels;
    the kernel obligation `C08_depth` fixes the bound) -/
def resolveRows (T : Tables) : Nat → List Row → List SRow
  | 0, _ => []
  | fuel+1, rows => rows.map fun r =>
    match r.cls with
    | .seg => .seg r.name r.min r.max (r.kind != .none)
    | .grp => .grp r.name r.min r.max (resolveRows T fuel (entryRows T.groups r.name))
    | _ => .other r.name

def structFuel : Nat := 12

/-- `z[a-z0-9]{2}_z[a-z0-9]{2}` ignoring case -/
def alnum (c : Char) : Bool := ('a' ≤ c && c ≤ 'z') || ('A' ≤ c && c ≤ 'Z') || isDig c
def isZMsg (n : Str) : Bool :=
  match n with
  | [z, a, b, '_', z2, c, e] => (z == 'z' || z == 'Z') && alnum a && alnum b && (z2 == 'z' || z2 == 'Z') && alnum c && alnum e
  | _ => false

/-- keys of `structure_by_name` (`_parse_structure`: a repeated child name gets `_<count>` appended) -/
def keysAux : List SRow → List String → List (String × Nat) → List (String × SRow)
  | [], _, _ => []
  | r :: rs, seen, cnt =>
    let k := Pe.renameDup seen cnt r.name
    (k, r) :: keysAux rs (k :: seen) (Pe.bump cnt r.name)

def keyed (rows : List SRow) : List (String × SRow) := keysAux rows [] []

/-- building the structure of a Group/Message from its reference can crash (malformed rows) -/
def structCheck (rows : List SRow) : R Unit :=
  rows.foldlM (fun _ r => match r with
    | .other _ => .error .CrashKeyError            -- `element.child_classes[cls]`
    | .seg _ _ _ false => .error .CrashTypeError   -- `child_ref[3]` on None
    | _ => .ok ()) ()

/-! ## tree -/

inductive Node where
  | seg (s : Pe.Seg)
  | grp (name : String) (rows : List SRow) (kids : List Node)

def Node.name : Node → String
  | .seg s => s.name
  | .grp n _ _ => n

structure Message where
  version : String
  strict : Bool
  ec : EC
  name : Option String
  rows : Option (List SRow)      -- `none`: unknown message (no `reference` attribute)
  kids : List Node

/-- `Group/Message.find_child_reference(name)` as used by `_is_valid_child` -/
def findChildOk (T : Tables) (strict : Bool) (isMsg : Bool) (gname : Option String)
    (rows : Option (List SRow)) (name : String) : R Unit :=
  let n := name.toUpper
  let inBy := match rows with
    | some rs => (keyed rs).any (·.1 == n)
    | none => false
  if inBy then .ok ()
  else if Pe.isZSeg n then .ok ()
  else if !(T.segments.any (·.name == n)) && !(T.groups.any (·.name == n)) then .error .ChildNotFound
  else if strict && !(isMsg && (match gname with | some g => isZMsg g.toList | none => false)) then .error .ChildNotValid
  else .ok ()

/-- admission of `child` into a group/message: `_is_valid_child` + the checks of `_can_add_child` -/
def admitChild (T : Tables) (strict : Bool) (isMsg : Bool) (gname : Option String) (rows : Option (List SRow))
    (kids : List Node) (child : Node) : R Unit := do
  findChildOk T strict isMsg gname rows child.name
  if strict then
    let mx : Int := match rows with
      | some rs => match (keyed rs).find? (·.1 == child.name) with
        | some (_, r) => r.card.2
        | none => -1
      | none => -1
    if ((kids.filter (·.name == child.name)).length + 1 : Int) > mx && mx > -1 then
      throw .MaxChildLimitReached
  pure ()

/-! ## group finding (zipper) -/

def direct (name : String) : List SRow → Option Bool     -- some hasRef
  | [] => none
  | .seg n _ _ h :: rs => if n == name then some h else direct name rs
  | _ :: rs => direct name rs

def maxOf (name : String) (rows : List SRow) : Int :=
  match (keyed rows).find? (·.1 == name) with
  | some (_, r) => r.card.2
  | none => -1

-- `_get_segment_reference`: path of groups to open (outermost first); `some []` = direct member.
-- Direct segments of a level win over nested groups; groups are tried in order, depth first.
-- A direct row whose reference is `None` ends the search at that level with "not found".
mutual
def findInRows (name : String) : List SRow → Option (List (String × List SRow))
  | [] => none
  | r :: rs =>
    match direct name (r :: rs) with
    | some true => some []
    | some false => none
    | none =>
      match r with
      | .grp g _ _ grows =>
        match findInRows name grows with
        | some p => some ((g, grows) :: p)
        | none => findGroupsTail name rs
      | _ => findGroupsTail name rs
def findGroupsTail (name : String) : List SRow → Option (List (String × List SRow))
  | [] => none
  | .grp g _ _ grows :: rs =>
    match findInRows name grows with
    | some p => some ((g, grows) :: p)
    | none => findGroupsTail name rs
  | _ :: rs => findGroupsTail name rs
end

structure Frame where
  name : String
  rows : List SRow
  kids : List Node

/-- zipper: open group frames, innermost first, above the message level -/
structure St where
  frames : List Frame
  topRows : List SRow
  topKids : List Node

def St.curRows (s : St) : List SRow := match s.frames with | f :: _ => f.rows | [] => s.topRows

/-- append a node to the innermost open group (`current_parent.add`, with its admission checks) or to the
    top-level list (`segments.append`, unchecked) -/
def addNode (T : Tables) (strict : Bool) (s : St) (n : Node) : R St :=
  match s.frames with
  | f :: fs => do
    admitChild T strict false (some f.name) (some f.rows) f.kids n
    pure { s with frames := { f with kids := f.kids ++ [n] } :: fs }
  | [] => pure { s with topKids := s.topKids ++ [n] }

/-
  In the Python code a group node is attached to its parent when it is *created* (empty), and filled
  afterwards through the `current_parent` pointer.  In the zipper a frame is attached when it is closed;
  its admission check therefore runs at opening time against the parent's children at that moment
  (`openFrame`), which is the same list the Python code sees.
-/
def openFrame (T : Tables) (strict : Bool) (s : St) (g : String) (rows : List SRow) : R St := do
  structCheck rows
  match s.frames with
  | f :: _ => admitChild T strict false (some f.name) (some f.rows) f.kids (.grp g rows [])
  | [] => pure ()
  pure { s with frames := ⟨g, rows, []⟩ :: s.frames }

def closeTop (s : St) : St :=
  match s.frames with
  | f :: g :: fs => { s with frames := { g with kids := g.kids ++ [.grp f.name f.rows f.kids] } :: fs }
  | [f] => { s with frames := [], topKids := s.topKids ++ [.grp f.name f.rows f.kids] }
  | [] => s

def openPath (T : Tables) (strict : Bool) (s : St) : List (String × List SRow) → R St
  | [] => pure s
  | (g, rows) :: p => do
    let s' ← openFrame T strict s g rows
    openPath T strict s' p

def kidSegNames (ks : List Node) : List String := ks.map (·.name)

/-- one input line whose raw 3-character name is `name`; `mk` parses the line into a segment once its place
    is known; `fuel` bounds the climb (the real loop runs `len(parents_refs)` times) -/
def place (T : Tables) (strict : Bool) (name : String) (mk : Unit → R Pe.Seg) : Nat → St → R St
  | 0, s => pure s
  | fuel+1, s =>
    match findInRows name s.curRows with
    | none =>
      match s.frames with
      | [] => pure s                                   -- not placeable at top level: silently skipped
      | _ :: _ => place T strict name mk fuel (closeTop s)
    | some [] =>
      match s.frames with
      | f :: _ =>
        if (kidSegNames f.kids).contains name && maxOf name f.rows == 1 then do
          -- the non-repeatable member recurs: a new repetition of the same group
          let s1 := closeTop s
          let s2 ← openFrame T strict s1 f.name f.rows
          let sg ← mk ()
          addNode T strict s2 (.seg sg)
        else do
          let sg ← mk ()
          addNode T strict s (.seg sg)
      | [] => do
        let sg ← mk ()
        addNode T strict s (.seg sg)
    | some p => do
      let s' ← openPath T strict s p
      let sg ← mk ()
      addNode T strict s' (.seg sg)

def finish : Nat → St → List Node
  | 0, s => s.topKids
  | fuel+1, s => match s.frames with
    | [] => s.topKids
    | _ :: _ => finish fuel (closeTop s)

/-- one line parsed as a top-level segment (`find_groups=False`) -/
def parseLine (T : Tables) (ec : EC) (strict : Bool) (l : Str) : R Node :=
  match Pe.segment T (strip l) ec strict with
  | .ok sg => .ok (Node.seg sg)
  | .error e => .error e

/-- `parse_segments(text, version, ec, level, references, find_groups)` -/
def parseSegments (T : Tables) (text : Str) (ec : EC) (strict : Bool)
    (refs : Option (List SRow)) (findGroups : Bool) : R (List Node) := do
  let lines := (splitOn '\r' text).filter (fun l => !l.isEmpty)
  match refs, findGroups with
  | some rows, true =>
    let st ← lines.foldlM (fun (s : St) l =>
      place T strict (String.ofList (l.take 3)) (fun _ => Pe.segment T (strip l) ec strict) (s.frames.length + 1) s)
      (⟨[], rows, []⟩ : St)
    pure (finish (st.frames.length + 1) st)
  | _, _ =>
    lines.mapM (parseLine T ec strict)

/-- delimiters for which the `Message(...)` constructor's own MSH assignments can fail (digits, letters,
    white space as delimiters): outside the model's domain -/
def ecInDomain (ec : EC) : Bool :=
  ([ec.field, ec.comp, ec.sub, ec.rep, ec.esc] ++ ec.trunc.toList).all
    (fun c => !alnum c && !isWS c && c.toNat < 128 && c.toNat > 32)

/-- `parse_message(message, validation_level, find_groups)` without message profile -/
def parseMessage (tables : List Tables) (dflt : Defaults) (text : Str) (strict : Bool) (findGroups : Bool) : R Message := do
  let text := lstrip text
  let (ec, st, ver) ← getMessageInfo text
  let version := match ver with | some v => String.ofList v | none => dflt.version
  let T ← match tables.find? (·.version == version) with
    | some T => pure T
    | none => throw .UnsupportedVersion
  if !ecInDomain ec then throw .Unsupported
  if (st.getD []).any (fun c => c.toNat > 127) then throw .Unsupported     -- `str.upper()` of non-ASCII letters
  let name : Option String := st.map (fun s => (String.ofList s).toUpper)
  -- Message(name=structure, …): InvalidName falls back to an unnamed message
  let known : Option (String × List SRow) :=
    match name with
    | some n =>
      match T.messages.find? (·.name == n) with
      | some e => some (n, resolveRows T structFuel e.rows)
      | none => if isZMsg n.toList then some (n, []) else none
    | none => none
  match known with
  | some (n, rows) =>
    structCheck rows
    -- a Z message has no structure: its segments are parsed flat (fix of finding D4z)
    let kids ← parseSegments T text ec strict (some rows) (findGroups && !isZMsg n.toList)
    let kids ← kids.foldlM (fun (acc : List Node) k => do
      admitChild T strict true (some n) (some rows) acc k
      pure (acc ++ [k])) []
    pure ⟨version, strict, ec, some n, some rows, kids⟩
  | none =>
    if strict then throw .OperationNotAllowed
    let kids ← parseSegments T text ec strict none false
    let kids ← kids.foldlM (fun (acc : List Node) k => do
      admitChild T strict true none none acc k
      pure (acc ++ [k])) []
    pure ⟨version, strict, ec, none, none, kids⟩

/-! ## encoding -/

mutual
/-- `Group.to_er7`: children in list order (TOLERANT) or in structure order (STRICT), joined by CR -/
def encNode (T : Tables) (ec : EC) (strict : Bool) : Node → R Str
  | .seg s => Pe.encSegment T ec s
  | .grp _ rows kids => do
    let parts ← encKids T ec strict kids
    pure (encOrder strict (some rows) kids parts)
def encKids (T : Tables) (ec : EC) (strict : Bool) : List Node → R (List Str)
  | [] => pure []
  | k :: ks => do
    let a ← encNode T ec strict k
    let r ← encKids T ec strict ks
    pure (a :: r)
/-- order the already encoded children as `_get_children` does and join them -/
def encOrder (strict : Bool) (rows : Option (List SRow)) (kids : List Node) (parts : List Str) : Str :=
  let named := (kids.map (·.name)).zip parts
  if strict then
    -- structure order first, then the children the structure does not name (Z segments), in list order (repair of D28)
    let keys : List String := match rows with | some rs => (keyed rs).map (fun kr => kr.1) | none => []
    join '\r' (keys.flatMap (fun k => (named.filter (fun p => p.1 == k)).map (fun p => p.2)) ++ (named.filter (fun p => !keys.contains p.1)).map (fun p => p.2))
  else join '\r' parts
end

/-- `Message.to_er7()`: reads the encoding characters back from MSH-1/MSH-2 (IndexError when they are absent) -/
def encMessage (T : Tables) (m : Message) : R Str := do
  let msh := m.kids.filterMap (fun k => match k with | .seg s => if s.name == "MSH" then some s else none | _ => none)
  match msh with
  | [] => throw .CrashIndexError
  | s :: _ =>
    if !(s.kids.any (·.name == some "MSH_1")) || !(s.kids.any (·.name == some "MSH_2")) then throw .CrashIndexError
    let parts ← encKids T m.ec m.strict m.kids
    pure (encOrder m.strict m.rows m.kids parts)

end Hl7.Msg
