import Hl7.Model.Types
/-!
# Well-formedness of table entries (decidable; evaluated by the kernel over the regenerated tables)

`segOk` is what the round-trip and position theorems need of a segment table: the entry is a
`('sequence', rows)` with at least one row; row `i` is named `<SEG>_<i>`, is the very object `FIELDS`
stores under that name, and is either a leaf of a base datatype / `varies`, or a sequence whose rows
are a `DATATYPES_STRUCTS` entry that is itself well formed (components `<DT>_<j>` in order, same
recursion one level down).
-/
namespace Hl7.WF
open Hl7.G

def isBaseName (T : Tables) (dt : Option String) : Bool :=
  match dt with
  | some d => T.base.any (·.name == d)
  | none => false

def findStruct (T : Tables) (n : String) : Option Entry := T.structs.find? (·.name == n)

/-- a leaf row: 6-tuple `('leaf', None, dt, …)` whose datatype is a base datatype (or `varies`) -/
def leafOk (T : Tables) (r : Row) : Bool :=
  r.kind == .leaf && r.arity == 6 && (isBaseName T r.dt || r.dt == some "varies")

/-- rows `i, i+1, …` are named `<pre>_<i+1>, …` -/
def namesOk (pre : String) : Nat → List Row → Bool
  | _, [] => true
  | i, r :: rs => r.name == pre ++ "_" ++ toString (i + 1) && namesOk pre (i + 1) rs

/-- subcomponent level: every row of the struct is a leaf of a base datatype -/
def subStructOk (T : Tables) (dt : String) : Bool :=
  match findStruct T dt with
  | some e => !e.rows.isEmpty && namesOk dt 0 e.rows && e.rows.all (fun r => leafOk T r)
  | none => false

/-- component level: rows are leaves or sequences over a well-formed sub-struct -/
def compRowOk (T : Tables) (r : Row) : Bool :=
  (leafOk T r ||
    (r.kind == .seq && r.arity == 6 && r.dt.isSome && r.struct == r.dt && !isBaseName T r.dt &&
      (match r.struct with | some s => subStructOk T s | none => false)))

def structOk (T : Tables) (dt : String) : Bool :=
  match findStruct T dt with
  | some e => !e.rows.isEmpty && namesOk dt 0 e.rows && e.rows.all (compRowOk T)
  | none => false

/-- field level -/
def fieldRowOk (T : Tables) (r : Row) : Bool :=
  r.cls == .fie && (leafOk T r ||
    (r.kind == .seq && r.arity == 6 && r.dt.isSome && r.struct == r.dt && !isBaseName T r.dt &&
      (match r.struct with | some s => structOk T s | none => false)))

def segOk (T : Tables) (e : Entry) : Bool :=
  (match e.shape with | .ok .seq => true | _ => false) && !e.rows.isEmpty &&
  namesOk e.name 0 e.rows && e.rows.all (fieldRowOk T)

def badSegments (T : Tables) : List String := (T.segments.filter (fun e => !segOk T e)).map (·.name)

/-- finer classification of why a segment entry is not well formed -/
def badNames (T : Tables) : List String :=
  (T.segments.filter (fun e => (match e.shape with | .ok .seq => true | _ => false) && !e.rows.isEmpty && !namesOk e.name 0 e.rows)).map (·.name)
def badShape (T : Tables) : List String :=
  (T.segments.filter (fun e => !((match e.shape with | .ok .seq => true | _ => false) && !e.rows.isEmpty))).map (·.name)
def badRows (T : Tables) : List (String × String) :=
  T.segments.flatMap (fun e => (e.rows.filter (fun r => !fieldRowOk T r)).map (fun r => (e.name, r.name)))

end Hl7.WF

namespace Hl7.WF
open Hl7.G
/-- C14 (table side): the rows of a segment have pairwise distinct names, so looking a row up by its own
    name finds that row; and a long name that is unique in the segment does not collide with any row name -/
def namesDistinct : List Row → Bool
  | [] => true
  | r :: rs => !(rs.any (·.name == r.name)) && namesDistinct rs

def longOk (rows : List Row) (r : Row) : Bool :=
  match r.long with
  | some l => !(rows.any (·.name == l))
  | none => true

def segAddressable (e : Entry) : Bool := namesDistinct e.rows && e.rows.all (longOk e.rows)

def structAddressable (T : Tables) : Bool := T.structs.all segAddressable
end Hl7.WF
