import Hl7.Model.Profile
import Hl7.Model.Message
import Hl7.Model.Validate
/-! `parse_message(text, message_profile=profile)` and `validate()` against the profile. -/
namespace Hl7.Prof
open Hl7 Hl7.G Hl7.Py

/-- a profile as the model sees it: which structure names it has entries for (and which of those are legacy
    entries), and the deviations of its entries from the standard tables -/
structure Profile where
  keys : List (String × Bool)        -- (structure name, legacy?)
  edits : List Edit

def slotOf (p : Profile) (st : Option Str) : Slot :=
  match st with
  | none => .absent                                  -- `profile[None]`: KeyError
  | some s => match p.keys.lookup (String.ofList s) with
    | none => .absent
    | some true => .legacy
    | some false => .present

/-- `parse_message(text, message_profile=p)`: header first, then profile selection, then the parse with the
    profile's tables -/
def parseMessageP (tables : List Tables) (d : Defaults) (p : Profile) (text : Str) (strict fg : Bool) : R Msg.Message := do
  let (_, st, _) ← Msg.getMessageInfo (lstrip text)
  match select (slotOf p st) with
  | .error e => .error e
  | .ok _ => Msg.parseMessage (tables.map (applyAll p.edits)) d text strict fg

end Hl7.Prof
