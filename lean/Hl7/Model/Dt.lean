import Hl7.Py.Str
/-! # Model of DT / TM / DTM acceptance and re-encoding
(utils.py:30-160, factories.py:123-256, base_datatypes.py:209-331) incl. the part of CPython `_strptime` the 14 reachable formats use.
Validated reference semantics: DESIGN-appendix A.1. -/
namespace Hl7.Dt
open Py

def dval (c : Char) : Nat := c.toNat - '0'.toNat
def num (s : Str) : Nat := s.foldl (fun a c => a * 10 + dval c) 0

inductive Dir | Y | m | d | H | M | S | dot | f
deriving DecidableEq, Repr

/-- widths a directive may consume at the head of `s`, in CPython's alternation order -/
def alts : Dir → Str → List Nat
  | .Y, s => match s with
    | a :: b :: c :: e :: _ => if isDig a && isDig b && isDig c && isDig e then [4] else []
    | _ => []
  | .m, s => match s with
    | a :: b :: _ =>
      (if a == '1' && (b == '0' || b == '1' || b == '2') then [2] else []) ++
      (if a == '0' && isDig b && b != '0' then [2] else []) ++
      (if isDig a && a != '0' then [1] else [])
    | [a] => if isDig a && a != '0' then [1] else []
    | [] => []
  | .d, s => match s with
    | a :: b :: _ =>
      (if a == '3' && (b == '0' || b == '1') then [2] else []) ++
      (if (a == '1' || a == '2') && isDig b then [2] else []) ++
      (if a == '0' && isDig b && b != '0' then [2] else []) ++
      (if isDig a && a != '0' then [1] else []) ++
      (if a == ' ' && isDig b && b != '0' then [2] else [])
    | [a] => if isDig a && a != '0' then [1] else []
    | [] => []
  | .H, s => match s with
    | a :: b :: _ =>
      (if a == '2' && (b == '0' || b == '1' || b == '2' || b == '3') then [2] else []) ++
      (if (a == '0' || a == '1') && isDig b then [2] else []) ++
      (if isDig a then [1] else [])
    | [a] => if isDig a then [1] else []
    | [] => []
  | .M, s => match s with
    | a :: b :: _ =>
      (if '0' ≤ a && a ≤ '5' && isDig b then [2] else []) ++ (if isDig a then [1] else [])
    | [a] => if isDig a then [1] else []
    | [] => []
  | .S, s => match s with
    | a :: b :: _ =>
      (if a == '6' && (b == '0' || b == '1') then [2] else []) ++
      (if '0' ≤ a && a ≤ '5' && isDig b then [2] else []) ++ (if isDig a then [1] else [])
    | [a] => if isDig a then [1] else []
    | [] => []
  | .dot, s => match s with
    | '.' :: _ => [1]
    | _ => []
  | .f, s =>
    let k := (s.takeWhile isDig).length
    let k := min k 6
    (List.range k).reverse.map (· + 1)       -- longest first

/-- first match in backtracking order: list of (directive, text) and the unconsumed rest -/
def matchFmt : List Dir → Str → Option (List (Dir × Str) × Str)
  | [], s => some ([], s)
  | dir :: ds, s =>
    (alts dir s).findSome? fun w =>
      match matchFmt ds (s.drop w) with
      | some (acc, rest) => some ((dir, s.take w) :: acc, rest)
      | none => none

def leap (y : Nat) : Bool := y % 4 == 0 && (y % 100 != 0 || y % 400 == 0)
def mdays (y m : Nat) : Nat :=
  match m with
  | 2 => if leap y then 29 else 28
  | 4 | 6 | 9 | 11 => 30
  | _ => 31

structure DT where
  y : Nat
  mo : Nat
  d : Nat
  h : Nat
  mi : Nat
  s : Nat
  us : Str     -- fraction digits as written (≤ 6)
deriving Repr, DecidableEq

def get (acc : List (Dir × Str)) (dir : Dir) : Option Str := (acc.find? (·.1 == dir)).map (·.2)

def strptime (fmt : List Dir) (s : Str) : Option DT :=
  match matchFmt fmt s with
  | some (acc, []) =>
    let y := (get acc .Y).map num |>.getD 1900
    let mo := (get acc .m).map num |>.getD 1
    let dd := (get acc .d).map (fun t => num (t.filter isDig)) |>.getD 1
    let h := (get acc .H).map num |>.getD 0
    let mi := (get acc .M).map num |>.getD 0
    let sec := (get acc .S).map num |>.getD 0
    let us := (get acc .f).getD []
    if y < 1 || sec > 59 || dd > mdays y mo then none
    else some ⟨y, mo, dd, h, mi, sec, us⟩
  | _ => none

def pad2 (n : Nat) : Str := [Char.ofNat (48 + n / 10), Char.ofNat (48 + n % 10)]

def strftime (v : DT) (fmt : List Dir) (prec : Nat) : Str :=
  fmt.flatMap fun
    | .Y => natStr v.y          -- glibc: no zero padding
    | .m => pad2 v.mo
    | .d => pad2 v.d
    | .H => pad2 v.h
    | .M => pad2 v.mi
    | .S => pad2 v.s
    | .dot => ['.']
    | .f => (v.us ++ List.replicate 6 '0').take prec

def dateFmt (v : Str) : Option (List Dir) :=
  match v.length with
  | 4 => some [.Y] | 6 => some [.Y, .m] | 8 => some [.Y, .m, .d] | _ => none

def tsFmt (v : Str) : Option (List Dir × Nat) :=
  let n := v.length
  if n == 2 then some ([.H], 4) else if n == 4 then some ([.H, .M], 4) else if n == 6 then some ([.H, .M, .S], 4)
  else if 8 ≤ n && n ≤ 11 && v[6]? == some '.' then some ([.H, .M, .S, .dot, .f], n - 7) else none

/-- Python `str.replace(old, "")` (fuel = length of the text; every step consumes at least one char) -/
def removeAllAux (old : Str) : Nat → Str → Str
  | 0, s => s
  | _, [] => []
  | fuel+1, s@(c :: cs) =>
    if old ≠ [] ∧ old.isPrefixOf s then removeAllAux old fuel (s.drop old.length) else c :: removeAllAux old fuel cs
def removeAll (old s : Str) : Str := removeAllAux old s.length s

def splitOffset (v : Str) : Str × Str :=
  if v.length ≥ 5 then
    match v.drop (v.length - 5) with
    | [sg, h1, h2, m1, m2] =>
      let ok := (sg == '+' && ((h1 == '1' && '0' ≤ h2 && h2 ≤ '4') || (h1 == '0' && isDig h2))) ||
                (sg == '-' && ((h1 == '1' && '0' ≤ h2 && h2 ≤ '2') || (h1 == '0' && isDig h2)))
      if ok && '0' ≤ m1 && m1 ≤ '5' && isDig m2 then
        let t := [sg, h1, h2, m1, m2]
        (removeAll t v, t)
      else (v, [])
    | _ => (v, [])
  else (v, [])

def tmInitOk (off : Str) : Bool :=
  match off with
  | [] => true
  | [sg, h1, h2, m1, m2] =>
    match strptime [.H, .M] [h1, h2, m1, m2] with
    | some r => !((sg == '+' && r.h > 14) || (sg == '-' && r.h > 12)) && (sg == '+' || sg == '-')
    | none => false
  | _ => false

inductive Kind | DT | TM | DTM deriving DecidableEq, Repr

/-- text produced by `datatype_factory(kind, s, v, STRICT).to_er7()`, or `none` where it raises ValueError -/
def accept : Kind → Str → Option Str
  | .DT, s => do
    let f ← dateFmt s
    let r ← strptime f s
    pure (strftime r f 4)
  | .TM, s => do
    let (v, off) := splitOffset s
    let (f, prec) ← tsFmt v
    let r ← strptime f v
    if tmInitOk off then pure (strftime r f prec ++ off) else none
  | .DTM, s => do
    let (v, off) := splitOffset s
    let df ← dateFmt (v.take 8)
    let (tf, prec) ← (match tsFmt (v.drop 8) with
      | some x => some x
      | none => if (v.drop 8).isEmpty then some ([], 4) else none)
    let fmt := df ++ tf
    let r ← strptime fmt v
    if tmInitOk off then pure (strftime r fmt prec ++ off) else none
end Hl7.Dt

