/-!
# Model of the element graph's list/pointer logic (`core.py` `ElementList`, parent setters) — after the
  repairs of findings D7, D8, D9a, D9b

A node is an element reduced to what the attach logic reads and writes: its name, validation level,
version, parent pointer, traversal-parent pointer, ordered child list, traversal index.  What the
*structure* says about a child (`_is_valid_child`, class-specific `add` pre-checks) is an abstract
parameter `valid`, so every theorem holds for every structure; the STRICT cardinality limit of a
name under a parent is the abstract `maxRep`.

Mutating operations have type `Op α := Heap → Heap × Except Err α`: the heap **survives** an error
(Python keeps whatever was mutated before a `raise`), which is what makes C12 a real statement.
The re-entrancy of the Python code (`child.parent = element` → `element.add(child)` → `append` again)
is two levels deep and is written out flat.
-/
namespace Hl7.Heap

structure Node where
  name : String
  level : Nat := 2
  version : Nat := 25
  parent : Option Nat := none
  tparent : Option Nat := none
  list : List Nat := []       -- ElementList.list (ElementList.indexes is `list` grouped by name)
  tidx : List Nat := []       -- ElementList.traversal_indexes, flattened
deriving Repr, DecidableEq

abbrev Heap := List Node

inductive Err | childNotValid | maxChild | opNotAllowed | crash
deriving Repr, DecidableEq

def Op (α : Type) := Heap → Heap × Except Err α

@[inline] def Op.pure {α} (a : α) : Op α := fun h => (h, .ok a)
@[inline] def Op.bind {α β} (m : Op α) (f : α → Op β) : Op β := fun h =>
  match m h with
  | (h', .ok a) => f a h'
  | (h', .error e) => (h', .error e)
instance : Monad Op where
  pure := Op.pure
  bind := Op.bind

def fail {α} (e : Err) : Op α := fun h => (h, .error e)
def getNode (i : Nat) : Op Node := fun h => match h[i]? with | some n => (h, .ok n) | none => (h, .error .crash)
def upd (i : Nat) (f : Node → Node) : Op Unit := fun h => (match h[i]? with | some n => h.set i (f n) | none => h, .ok ())

/-- the structure-dependent knowledge, abstract: is `c` a valid child of `p` (`_is_valid_child` and the class
    `add` pre-checks), and the maximum number of children named `c.name` under `p` (`repetitions`; -1 = unbounded) -/
structure Rules where
  valid : Node → Node → Bool
  maxRep : Node → String → Int
  strict : Node → Bool

variable (R : Rules)

def countNamed (h : Heap) (l : List Nat) (name : String) : Nat :=
  (l.filter (fun i => match h[i]? with | some n => n.name == name | none => false)).length

/-- the admission checks of `_can_add_child` once the child points at the parent -/
def admit (p c : Nat) : Op Unit := fun h =>
  match h[p]?, h[c]? with
  | some pn, some cn =>
    if R.strict pn && ((countNamed h pn.list cn.name : Int) + 1 > R.maxRep pn cn.name) && (R.maxRep pn cn.name > -1) then (h, .error .maxChild)
    else if pn.level ≠ cn.level then (h, .error .opNotAllowed)
    else if pn.version ≠ cn.version then (h, .error .opNotAllowed)
    else (h, .ok ())
  | _, _ => (h, .error .crash)

def validCheck (p c : Nat) : Op Unit := fun h =>
  match h[p]?, h[c]? with
  | some pn, some cn => if R.valid pn cn then (h, .ok ()) else (h, .error .childNotValid)
  | _, _ => (h, .error .crash)

/-- `list.append(child)` unless it is already listed (repair of D8) -/
def push (p c : Nat) : Op Unit := upd p fun n => if n.list.contains c then n else { n with list := n.list ++ [c], tidx := n.tidx.erase c }

/-- remove `c` from the child list of its previous parent `q` (repair of D8: one parent only) -/
def detachFrom (q : Option Nat) (p c : Nat) : Op Unit :=
  match q with
  | some q => if q = p then Op.pure () else upd q fun n => { n with list := n.list.erase c }
  | none => Op.pure ()

/-- `ElementList.append(child)` -/
def append (p c : Nat) : Op Unit := do
  validCheck R p c
  let cn ← getNode c
  if cn.parent ≠ some p ∧ cn.tparent ≠ some p then
    -- `child.parent = element`: pointer first, then `element.add(child)` → admission → list
    upd c fun n => { n with parent := some p, tparent := none }
    fun h => match admit R p c h with
      | (h', .ok ()) => (push p c >>= fun _ => detachFrom cn.parent p c) h'
      | (h', .error e) =>
        -- refused: the previous pointers are restored (repair of D9b)
        ((upd c fun n => { n with parent := cn.parent, tparent := cn.tparent }) h').1 |> fun h'' => (h'', .error e)
  else do
    admit R p c
    if cn.parent = some p then push p c
    else upd p fun n => { n with tidx := n.tidx ++ [c] }

/-- `ElementList.insert(index, child)` (repair of D7: the position is kept) -/
def insertAt (p c li : Nat) : Op Unit := do
  -- a child the element already lists is moved, never listed twice
  upd p fun n => { n with list := n.list.erase c }
  let cn ← getNode c
  if cn.parent ≠ some p ∧ cn.tparent ≠ some p then
    validCheck R p c
    upd c fun n => { n with parent := some p, tparent := none }
    fun h => match admit R p c h with
      | (h', .ok ()) =>
        -- detach from the previous parent first (repair of D8), then insert at the index
        (detachFrom cn.parent p c >>= fun _ => upd p fun n => { n with list := n.list.take li ++ c :: n.list.drop li }) h'
      | (h', .error e) => ((upd c fun n => { n with parent := cn.parent, tparent := cn.tparent }) h').1 |> fun h'' => (h'', .error e)
  else do
    validCheck R p c
    admit R p c
    upd p fun n => { n with list := n.list.take li ++ c :: n.list.drop li }

/-- `ElementList.remove(child)` -/
def remove (p c : Nat) : Op Unit := do
  let cn ← getNode c
  let pn ← getNode p
  if cn.tparent = some p then upd p fun n => { n with tidx := n.tidx.erase c }
  else if pn.list.contains c then upd p fun n => { n with list := n.list.erase c }
  else fail .crash        -- `list.remove(x)`: ValueError

/-- `ElementList.replace_child(old, new)` (repair of D9a: the old child is put back when the new one is refused) -/
def replaceChild (p old new : Nat) : Op Unit := do
  let pn ← getNode p
  let on ← getNode old
  if on.tparent = some p then do
    remove p old
    append R p new
  else
    let li := pn.list.idxOf old
    fun h => match remove p old h with
      | (h1, .ok ()) =>
        match insertAt R p new li h1 with
        | (h2, .ok ()) => (h2, .ok ())
        | (h2, .error e) => ((upd p fun n => { n with list := n.list.take li ++ old :: n.list.drop li }) h2).1 |> fun h3 => (h3, .error e)
      | (h1, .error e) => (h1, .error e)

def listOf (h : Heap) (p : Nat) : List Nat := match h[p]? with | some n => n.list | none => []
def parentOf (h : Heap) (c : Nat) : Option Nat := match h[c]? with | some n => n.parent | none => none

/-- the ordered-list reference model of C09 -/
def specReplace (l : List Nat) (old new : Nat) : List Nat := l.map fun x => if x = old then new else x

end Hl7.Heap
