/-!
# Model of the element graph's list/pointer logic (`core.py` `ElementList`, parent setters) — after the
  repairs of findings D7, D8, D9a, D9b

A node is an element reduced to what the attach logic reads and writes: its name, validation level,
version, parent pointer, traversal-parent pointer, ordered child list, traversal index.  What the
*structure* says about a child (`_is_valid_child`, class-specific `add` pre-checks) is an abstract
parameter `valid`, so every theorem holds for every structure; the STRICT cardinality limit of a
name under a parent is the abstract `maxRep`.

Mutating operations have type `Op α := Heap → Heap × Except Err α`: the heap **survives** an error
(Python keeps whatever was mutated before a `raise`), which is what makes C12 a real statement.
The re-entrancy of the Python code (`child.parent = element` → `element.add(child)` → `append` again)
is two levels deep and is written out flat.
-/
namespace Hl7.Heap

structure Node where
  name : String
  level : Nat := 2
  version : Nat := 25
  parent : Option Nat := none
  tparent : Option Nat := none
  list : List Nat := []       -- ElementList.list (ElementList.indexes is `list` grouped by name)
  tidx : List Nat := []       -- ElementList.traversal_indexes, flattened
deriving Repr, DecidableEq

abbrev Heap := List Node

inductive Err | childNotValid | maxChild | opNotAllowed | crash
deriving Repr, DecidableEq

def Op (α : Type) := Heap → Heap × Except Err α

@[inline] def Op.pure {α} (a : α) : Op α := fun h => (h, .ok a)
@[inline] def Op.bind {α β} (m : Op α) (f : α → Op β) : Op β := fun h =>
  match m h with
  | (h', .ok a) => f a h'
  | (h', .error e) => (h', .error e)
instance : Monad Op where
  pure := Op.pure
  bind := Op.bind

def fail {α} (e : Err) : Op α := fun h => (h, .error e)
def getNode (i : Nat) : Op Node := fun h => match h[i]? with | some n => (h, .ok n) | none => (h, .error .crash)
def upd (i : Nat) (f : Node → Node) : Op Unit := fun h => (match h[i]? with | some n => h.set i (f n) | none => h, .ok ())

/-- the structure-dependent knowledge, abstract: is `c` a valid child of `p` (`_is_valid_child` and the class
    `add` pre-checks), and the maximum number of children named `c.name` under `p` (`repetitions`; -1 = unbounded) -/
structure Rules where
  valid : Node → Node → Bool
  maxRep : Node → String → Int
  strict : Node → Bool

variable (R : Rules)

def countNamed (h : Heap) (l : List Nat) (name : String) : Nat :=
  (l.filter (fun i => match h[i]? with | some n => n.name == name | none => false)).length

/-- the admission checks of `_can_add_child` once the child points at the parent -/
def admission (p c : Nat) : Op Unit := fun h =>
  match h[p]?, h[c]? with
  | some pn, some cn =>
    if R.strict pn && ((countNamed h pn.list cn.name : Int) + 1 > R.maxRep pn cn.name) && (R.maxRep pn cn.name > -1) then (h, .error .maxChild)
    else if pn.level ≠ cn.level then (h, .error .opNotAllowed)
    else if pn.version ≠ cn.version then (h, .error .opNotAllowed)
    else (h, .ok ())
  | _, _ => (h, .error .crash)

def validCheck (p c : Nat) : Op Unit := fun h =>
  match h[p]?, h[c]? with
  | some pn, some cn => if R.valid pn cn then (h, .ok ()) else (h, .error .childNotValid)
  | _, _ => (h, .error .crash)

/-! ### pure single-node updates -/

def modify (i : Nat) (f : Node → Node) (h : Heap) : Heap :=
  match h[i]? with | some n => h.set i (f n) | none => h

/-- `child._parent, child._traversal_parent = a, b` -/
def setPtr (c : Nat) (par tpar : Option Nat) (h : Heap) : Heap := modify c (fun n => { n with parent := par, tparent := tpar }) h

/-- `list.append(child)` unless it is already listed (repair of D8); a promoted traversal child leaves the traversal index -/
def pushList (p c : Nat) (h : Heap) : Heap :=
  modify p (fun n => if n.list.contains c then n else { n with list := n.list ++ [c], tidx := n.tidx.erase c }) h

def eraseList (p c : Nat) (h : Heap) : Heap := modify p (fun n => { n with list := n.list.erase c }) h

def insertList (p c li : Nat) (h : Heap) : Heap :=
  modify p (fun n => { n with list := n.list.take li ++ c :: n.list.drop li }) h

/-- remove `c` from the child list of its previous parent `q` (repair of D8: one parent only) -/
def detach (q : Option Nat) (p c : Nat) (h : Heap) : Heap :=
  match q with
  | some q => if q = p then h else eraseList q c h
  | none => h

/-- `ElementList.append(child)` -/
def append (p c : Nat) : Op Unit := fun h =>
  match (validCheck R p c h).2 with
  | .error e => (h, .error e)
  | .ok _ =>
    match h[c]? with
    | none => (h, .error .crash)
    | some cn =>
      if cn.parent ≠ some p ∧ cn.tparent ≠ some p then
        -- `child.parent = element`: pointer first, then `element.add(child)` → admission → list
        let h1 := setPtr c (some p) none h
        match (admission R p c h1).2 with
        | .ok _ => (detach cn.parent p c (pushList p c h1), .ok ())
        | .error e => (setPtr c cn.parent cn.tparent h1, .error e)     -- refused: pointers restored (repair of D9b)
      else
        match (admission R p c h).2 with
        | .error e => (h, .error e)
        | .ok _ =>
          if cn.parent = some p then (pushList p c h, .ok ())
          else (modify p (fun n => { n with tidx := n.tidx ++ [c] }) h, .ok ())

/-- a traversal child that becomes a real child leaves the traversal index (repair of D25) -/
def untrav (t : Option Nat) (p c : Nat) (h : Heap) : Heap :=
  if t = some p then modify p (fun n => { n with tidx := n.tidx.erase c }) h else h

/-- `ElementList.insert(index, child)` (repair of D7: the position is kept; of D25: a traversal child is attached) -/
def insertAt (p c li : Nat) : Op Unit := fun h0 =>
  -- a child the element already lists is moved, never listed twice
  let h := eraseList p c h0
  match h[c]? with
  | none => (h, .error .crash)
  | some cn =>
    match (validCheck R p c h).2 with
    | .error e => (h, .error e)
    | .ok _ =>
      if cn.parent ≠ some p then
        let h1 := setPtr c (some p) none h
        match (admission R p c h1).2 with
        | .ok _ => (insertList p c li (detach cn.parent p c (untrav cn.tparent p c h1)), .ok ())
        | .error e => (setPtr c cn.parent cn.tparent h1, .error e)
      else
        match (admission R p c h).2 with
        | .error e => (h, .error e)
        | .ok _ => (insertList p c li h, .ok ())

/-- `ElementList.remove(child)` -/
def remove (p c : Nat) : Op Unit := fun h =>
  match h[c]?, h[p]? with
  | some cn, some pn =>
    if cn.tparent = some p then (modify p (fun n => { n with tidx := n.tidx.erase c }) h, .ok ())
    else if pn.list.contains c then (eraseList p c h, .ok ())
    else (h, .error .crash)        -- `list.remove(x)`: ValueError
  | _, _ => (h, .error .crash)

/-- `ElementList.replace_child(old, new)` (repair of D9a: the old child is put back when the new one is refused) -/
def replaceChild (p old new : Nat) : Op Unit := fun h =>
  match h[p]?, h[old]? with
  | some pn, some on =>
    if on.tparent = some p then
      match remove p old h with
      | (h1, .ok _) => append R p new h1
      | (h1, .error e) => (h1, .error e)
    else
      let li := pn.list.idxOf old
      match remove p old h with
      | (h1, .ok _) =>
        match insertAt R p new li h1 with
        | (h2, .ok _) => (h2, .ok ())
        | (h2, .error e) => (insertList p old li h2, .error e)
      | (h1, .error e) => (h1, .error e)
  | _, _ => (h, .error .crash)

/-- `child.parent = p` — the public setter (repair of D26: refused ⇒ pointers restored; accepted ⇒ the previous
    parent no longer lists the child) -/
def setParent (p c : Nat) : Op Unit := fun h =>
  match h[c]? with
  | none => (h, .error .crash)
  | some cn =>
    match append R p c (setPtr c (some p) none h) with
    | (h2, .ok _) => (detach cn.parent p c h2, .ok ())
    | (h2, .error e) => (setPtr c cn.parent cn.tparent h2, .error e)

/-- `child.parent = None` -/
def unsetParent (c : Nat) : Op Unit := fun h =>
  match h[c]? with
  | none => (h, .error .crash)
  | some cn =>
    let h1 := modify c (fun n => { n with parent := none }) h
    match cn.parent with
    | some q => (eraseList q c h1, .ok ())
    | none => (h1, .ok ())

/-- `child.traversal_parent = p` — internal setter used when a traversal child is created: pointer, then `p.add(child)` -/
def setTrav (p c : Nat) : Op Unit := fun h =>
  match h[c]? with
  | none => (h, .error .crash)
  | some cn => append R p c (setPtr c cn.parent (some p) h)

/-- `set_parent_to_traversal()`: the first write promotes the chain of traversal children, leaf first -/
def promote : Nat → Nat → Op Unit
  | 0, _ => fun h => (h, .ok ())
  | fuel + 1, c => fun h =>
    match h[c]? with
    | none => (h, .error .crash)
    | some cn =>
      match cn.tparent, cn.parent with
      | some p, none =>
        match setParent R p c h with
        | (h1, .ok _) => promote fuel p h1
        | (h1, .error e) => (h1, .error e)
      | _, _ => (setPtr c cn.parent none h, .ok ())

/-! ### receiving a real child materialises an element reached by traversal (repair of D34)

`ElementList.append` promotes its own element first when that element is still a pending traversal child and the child is
really going to be listed.  `append` above is the list / pointer core (all the C09–C12 theorems are about it); the operations
below are what the library's entry points do now. -/

def pending (h : Heap) (p : Nat) : Bool :=
  match h[p]? with
  | some pn => pn.parent.isNone && pn.tparent.isSome
  | none => false

/-- the core append put `c` into `p`'s list, where it was not before -/
def listsNew (h h2 : Heap) (p c : Nat) : Bool :=
  (match h2[p]? with | some n => n.list.contains c | none => false) && !(match h[p]? with | some n => n.list.contains c | none => false)

/-- `ElementList.append(child)` as a whole: admission first (a refused child promotes nothing), then the promotion of the element
    itself when the child is about to be listed, then the core append on the promoted heap -/
def appendP (fuel p c : Nat) : Op Unit := fun h =>
  match append R p c h with
  | (h2, .error e) => (h2, .error e)
  | (h2, .ok _) =>
    if listsNew h h2 p c && pending h p then
      match promote R fuel p h with
      | (h1, .ok _) => append R p c h1
      | (h1, .error e) => (h1, .error e)
    else (h2, .ok ())

/-- `child.parent = p` with the promotion of `p` (`p.add(child)` is `ElementList.append`) -/
def setParentP (fuel p c : Nat) : Op Unit := fun h =>
  match h[c]? with
  | none => (h, .error .crash)
  | some cn =>
    match appendP R fuel p c (setPtr c (some p) none h) with
    | (h2, .ok _) => (detach cn.parent p c h2, .ok ())
    | (h2, .error e) => (setPtr c cn.parent cn.tparent h2, .error e)

/-! ### addressing a repetition by name and index (`ElementList.child_at_index`, `set`, `remove_by_name`) -/

def nameOf (h : Heap) (c : Nat) : Option String := match h[c]? with | some n => some n.name | none => none

/-- Python list indexing with a possibly negative index -/
def pyIdx (l : List Nat) (i : Int) : Option Nat :=
  if i ≥ 0 then l[i.toNat]? else if (-i).toNat ≤ l.length then l[l.length - (-i).toNat]? else none

/-- `indexes[name]`: the by-name view is the child list filtered by name -/
def namedReps (h : Heap) (p : Nat) (name : String) : List Nat :=
  (match h[p]? with | some n => n.list | none => []).filter (fun c => nameOf h c == some name)

/-- `traversal_indexes[name]` -/
def namedTrav (h : Heap) (p : Nat) (name : String) : List Nat :=
  (match h[p]? with | some n => n.tidx | none => []).filter (fun c => nameOf h c == some name)

/-- `child_at_index(name, index)`: the real repetitions first, then the not-yet-materialised ones -/
def childAt (h : Heap) (p : Nat) (name : String) (i : Int) : Option Nat :=
  match pyIdx (namedReps h p name) i with
  | some c => some c
  | none => pyIdx (namedTrav h p name) i

/-- `ElementList.set(name, <Element new>, index)` for an element named `name`: replace the addressed repetition, or append -/
def setChild (p new : Nat) (i : Int) : Op Unit := fun h =>
  match h[new]? with
  | none => (h, .error .crash)
  | some nn =>
    match (match childAt h p nn.name i with
           | none => append R p new h
           | some old => replaceChild R p old new h) with
    | (h1, .ok _) => promote R h1.length p h1        -- `self.element.set_parent_to_traversal()`
    | (h1, .error e) => (h1, .error e)

/-- `remove_by_name(name, index)` -/
def removeByName (p : Nat) (name : String) (i : Int) : Op Unit := fun h =>
  match childAt h p name i with
  | none => (h, .error .childNotValid)  -- no such child: `ChildNotFound` (the harness files it with `ChildNotValid`); before the repair `remove(None)` crashed
  | some c => remove p c h

def listOf (h : Heap) (p : Nat) : List Nat := match h[p]? with | some n => n.list | none => []
def parentOf (h : Heap) (c : Nat) : Option Nat := match h[c]? with | some n => n.parent | none => none

/-- the ordered-list reference model of C09 -/
def specReplace (l : List Nat) (old new : Nat) : List Nat := l.map fun x => if x = old then new else x

end Hl7.Heap
