/-!
# Types of the generated tables (`Hl7/Gen/*.lean` is produced by `tools/gen_tables.py` on every run)

A table entry keeps what the Python tuples say *verbatim*, including malformed shapes
(`('sequence',)`, missing wrapper, `None` child references, 7-tuples): the model must crash where
the code crashes (DESIGN §4.2).
-/
namespace Hl7.G

/-- the class tag of a child row: `'SEG' | 'GRP' | 'FIE' | 'CMP' | 'SUB'` (anything else: `other`) -/
inductive Cls | seg | grp | fie | cmp | sub | other
deriving DecidableEq, Repr

/-- what a reference tuple's first item / arity says -/
inductive RefKind
  | leaf                 -- ('leaf', None, dt, long, table, maxlen)
  | seq                  -- ('sequence', rows[, dt, long, table, maxlen])
  | choice               -- ('choice', rows)
  | none                 -- Python `None`
  | malformed (n : Nat)  -- anything else; `n` = arity of the tuple
deriving DecidableEq, Repr

/-- one child row of a structure, with the child's own reference summarised inline.
    `same` records the translator's identity check: the child reference is the very object stored
    under `name` in the table its class designates. -/
structure Row where
  name : String
  cls : Cls
  min : Nat
  max : Int
  kind : RefKind
  /-- arity of the child's reference tuple: 6 for field/datatype references, 2 for segment/group ones -/
  arity : Nat
  dt : Option String
  long : Option String
  table : Option String
  maxLen : Int
  /-- for a `seq` row carrying components: the DATATYPES_STRUCTS entry its row tuple *is* (by identity) -/
  struct : Option String
  same : Bool
deriving DecidableEq, Repr

inductive Shape
  | ok (kind : RefKind)   -- ('sequence'|'choice', rows)
  | bad (arity : Nat)
deriving DecidableEq, Repr

structure Entry where
  name : String
  shape : Shape
  rows : List Row
deriving DecidableEq, Repr

/-- how a base datatype class behaves (from its MRO) -/
inductive BaseKind
  | text        -- hl7apy.base_datatypes.TextualDataType
  | text27      -- hl7apy.v2_7.base_datatypes.TextualDataType
  | tn          -- TN: textual with a format regex
  | nm | si | dt | tm | dtm
  | other
deriving DecidableEq, Repr

structure BaseDt where
  name : String
  kind : BaseKind
  maxLen : Option Nat
deriving DecidableEq, Repr

structure Tables where
  version : String
  segments : List Entry
  fields : List Row
  datatypes : List Row
  structs : List Entry
  messages : List Entry
  groups : List Entry
  base : List BaseDt
  /-- value tables: only the table ids are needed by the model -/
  valueTables : List String

end Hl7.G
