import Hl7.Model.Datatypes
/-!
# Message profiles (`Message(name, reference=profile)`, `parse_message(text, message_profile=profile)`)

A message profile is a dict `structure name ↦ reference`, the reference being a nested tuple of exactly the
shape `load_reference` builds from the version's tables.  In the model every function takes the tables `T`
as a parameter and reads children, cardinalities and datatypes from nowhere else, so *a profile is a `Tables`
value*: the standard tables with the profile's deviations applied (`Edit.apply`).  The harness synthesises
the Python profile from the same edits (`tools/profiles.py`), applied uniformly by name, and the
correspondence compares the real library given the profile with the model given `applyAll edits T`.

What the real code must get right — and what C18 is about — is that the reference threaded down from the
profile is the one consulted at every depth and on every creation path; in the model that is true by
construction (there is no other table to consult), so every theorem proved for an arbitrary `T` (C01–C05, C08,
C14) holds of the profiled tables as well.
-/
namespace Hl7.Prof
open Hl7 Hl7.G

/-- which table the edited parent entry lives in -/
inductive Tab | messages | groups | segments | structs
deriving DecidableEq, Repr

inductive Edit
  /-- tighten / change the cardinality of `child` under `parent` -/
  | card (t : Tab) (parent child : String) (min : Nat) (max : Int)
  /-- the profile does not allow `child` under `parent` (row removed) -/
  | forbid (t : Tab) (parent child : String)
  /-- the field `child` of segment `parent` gets another datatype (`struct = some dt` for a complex one) -/
  | retype (parent child : String) (kind : RefKind) (dt : String) (struct : Option String)
deriving Repr

def editRows (child : String) (f : Row → Option Row) (rows : List Row) : List Row :=
  rows.filterMap fun r => if r.name = child then f r else some r

def editEntries (parent child : String) (f : Row → Option Row) (es : List Entry) : List Entry :=
  es.map fun e => if e.name = parent then { e with rows := editRows child f e.rows } else e

def onTab (t : Tab) (g : List Entry → List Entry) (T : Tables) : Tables :=
  match t with
  | .messages => { T with messages := g T.messages }
  | .groups => { T with groups := g T.groups }
  | .segments => { T with segments := g T.segments }
  | .structs => { T with structs := g T.structs }

def tab (t : Tab) (T : Tables) : List Entry :=
  match t with
  | .messages => T.messages | .groups => T.groups | .segments => T.segments | .structs => T.structs

def Edit.apply : Edit → Tables → Tables
  | .card t p c mn mx, T => onTab t (editEntries p c (fun r => some { r with min := mn, max := mx })) T
  | .forbid t p c, T => onTab t (editEntries p c (fun _ => none)) T
  | .retype p c k dt st, T => onTab .segments (editEntries p c (fun r => some { r with kind := k, dt := some dt, struct := st })) T

def applyAll (es : List Edit) (T : Tables) : Tables := es.foldl (fun T e => e.apply T) T

/-- rows of `parent` in a table -/
def rowsOf (es : List Entry) (parent : String) : List Row := ((es.find? (·.name == parent)).map (·.rows)).getD []

/-! ### profile selection (`Message.__init__`, `parse_message`) -/

/-- what a profile holds under a structure name, as far as selection cares -/
inductive Slot | absent | legacy | present
deriving DecidableEq, Repr

/-- `reference = profile[name]`: `KeyError → MessageProfileNotFound`, entry starting with `'mp'` → `LegacyMessageProfile` -/
def select (s : Slot) : Except Exc Unit :=
  match s with
  | .absent => .error .MessageProfileNotFound
  | .legacy => .error .LegacyMessageProfile
  | .present => .ok ()

end Hl7.Prof
