import Hl7.Py.Str
import Hl7.Lemmas.Slots
/-!
# The ER7 cascade as one recursive function over a list of levels

`parse` splits a text level by level — a *positional* level (fields of a segment, components of a field, subcomponents of a
component: the non-empty pieces become children named by their position) or a *repetition* level (every piece is a child) —
down to leaf texts; `enc` puts the children back under their positions in table order (a table of `width` positions), trims
trailing empty positions and joins.  This is the structure `parse_segment → to_er7` walks for a segment whose table rows are
the positions `1 … n` in order without gaps (the per-version kernel obligation `segWF`); the theorem of `Props/C01.lean`
(`C01_cascade`) is the round trip at every depth at once.
-/
namespace Hl7.Casc
open Hl7 Hl7.Py Hl7.Slots

inductive Lvl
  | pos (sep : Char) (width : Nat)
  | rep (sep : Char)
deriving Repr

inductive T
  | leaf (s : Str)
  | pos (kids : List (Nat × T))
  | reps (items : List T)

def parse : List Lvl → Str → T
  | [], s => .leaf s
  | .pos c _ :: ls, s => .pos ((pieces 0 (splitOn c s)).map (fun p => (p.1, parse ls p.2)))
  | .rep c :: ls, s => .reps ((splitOn c s).map (parse ls))

def enc : List Lvl → T → Str
  | [], t => (match t with | .leaf s => s | _ => [])
  | .pos c w :: ls, t =>
    (match t with
     | .pos kids => join c (render (dropTrailing (slots (kids.map (fun p => (p.1, enc ls p.2))) 0 w)))
     | _ => [])
  | .rep c :: ls, t =>
    (match t with
     | .reps items => join c (items.map (enc ls))
     | _ => [])

/-- canonical text: at every positional level no trailing empty piece and no more pieces than the table has positions; every
    non-empty piece canonical one level down; at a repetition level every repetition canonical -/
def Canon : List Lvl → Str → Prop
  | [], _ => True
  | .pos c w :: ls, s => (splitOn c s).length ≤ w ∧ NoTrailingEmpty (splitOn c s) ∧ ∀ x ∈ splitOn c s, x ≠ [] → Canon ls x
  | .rep c :: ls, s => ∀ x ∈ splitOn c s, Canon ls x

def noTrailB : List Str → Bool
  | [] => true
  | [x] => !x.isEmpty
  | _ :: y :: ys => noTrailB (y :: ys)

theorem noTrailB_sound : ∀ xs, noTrailB xs = true → NoTrailingEmpty xs
  | [], _ => trivial
  | [x], h => by
    simp only [noTrailB, Bool.not_eq_true', List.isEmpty_eq_false_iff] at h
    exact h
  | _ :: y :: ys, h => by
    simp only [noTrailB] at h
    exact noTrailB_sound (y :: ys) h

/-- executable form of `Canon` (what the driver evaluates before it claims a round trip) -/
def canonB : List Lvl → Str → Bool
  | [], _ => true
  | .pos c w :: ls, s => decide ((splitOn c s).length ≤ w) && noTrailB (splitOn c s) && (splitOn c s).all (fun x => x.isEmpty || canonB ls x)
  | .rep c :: ls, s => (splitOn c s).all (canonB ls)

theorem canonB_sound : ∀ (ls : List Lvl) (s : Str), canonB ls s = true → Canon ls s
  | [], _, _ => trivial
  | .pos c w :: ls, s, h => by
    simp only [canonB, Bool.and_eq_true, decide_eq_true_eq, List.all_eq_true, Bool.or_eq_true] at h
    refine ⟨h.1.1, noTrailB_sound _ h.1.2, ?_⟩
    intro x hx hne
    rcases h.2 x hx with he | hc
    · exact absurd (List.isEmpty_iff.mp he) hne
    · exact canonB_sound ls x hc
  | .rep c :: ls, s, h => by
    simp only [canonB, List.all_eq_true] at h
    intro x hx
    exact canonB_sound ls x (h x hx)

/-- the leaves with their positional paths (what the correspondence compares with the real element tree) -/
def paths : List Lvl → T → List (List Nat × Str)
  | [], t => (match t with | .leaf s => [([], s)] | _ => [])
  | .pos _ _ :: ls, t =>
    (match t with
     | .pos kids => kids.flatMap (fun p => (paths ls p.2).map (fun q => (p.1 :: q.1, q.2)))
     | _ => [])
  | .rep _ :: ls, t =>
    (match t with
     | .reps items => items.zipIdx.flatMap (fun p => (paths ls p.1).map (fun q => (p.2 :: q.1, q.2)))
     | _ => [])

end Hl7.Casc
