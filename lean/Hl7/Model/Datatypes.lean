import Hl7.Model.Types
import Hl7.Model.Escape
import Hl7.Model.Dt
import Hl7.Model.Num
/-!
# Model of `datatype_factory` and of the base datatype classes' `to_er7`
(factories.py:37-106, base_datatypes.py:47-90, 414-480)
-/
namespace Hl7
open Py G

/-- the process-wide defaults (`hl7apy/__init__.py:47-228`), an explicit argument of every model
    entry point that the code lets read them -/
structure Defaults where
  version : String
  strict : Bool
  ec : EC          -- `_DEFAULT_ENCODING_CHARS`
  ec27 : EC        -- `_DEFAULT_ENCODING_CHARS_27`
deriving Repr

def Defaults.std : Defaults := ⟨"2.5", false, EC.default, EC.default27⟩

/-- `get_default_encoding_chars(version)` -/
def Defaults.ecFor (d : Defaults) (version : Option String) : EC :=
  match version with
  | some v => if v != "" && strGe v.toList "2.7".toList then d.ec27 else d.ec
  | none => d.ec

inductive Exc
  | OperationNotAllowed | InvalidName | ChildNotFound | ChildNotValid | MaxChildLimitReached
  | MaxLengthReached | InvalidDataType | ValueError | UnsupportedVersion | InvalidEncodingChars
  | ParserError | MessageProfileNotFound | LegacyMessageProfile | ValidationError
  | InvalidDateOffset
  | CrashTypeError | CrashIndexError | CrashKeyError | CrashAttributeError
  | Unsupported       -- input outside the model's domain (never a claim about the code)
deriving Repr, DecidableEq

def Exc.show : Exc → String
  | .OperationNotAllowed => "OperationNotAllowed" | .InvalidName => "InvalidName"
  | .ChildNotFound => "ChildNotFound" | .ChildNotValid => "ChildNotValid"
  | .MaxChildLimitReached => "MaxChildLimitReached" | .MaxLengthReached => "MaxLengthReached"
  | .InvalidDataType => "InvalidDataType" | .ValueError => "ValueError"
  | .UnsupportedVersion => "UnsupportedVersion" | .InvalidEncodingChars => "InvalidEncodingChars"
  | .ParserError => "ParserError" | .MessageProfileNotFound => "MessageProfileNotFound"
  | .LegacyMessageProfile => "LegacyMessageProfile" | .ValidationError => "ValidationError"
  | .InvalidDateOffset => "InvalidDateOffset"
  | .CrashTypeError => "Crash:TypeError" | .CrashIndexError => "Crash:IndexError"
  | .CrashKeyError => "Crash:KeyError" | .CrashAttributeError => "Crash:AttributeError"
  | .Unsupported => "Unsupported"

/-- the exceptions the library may raise by contract (C15): `HL7apyException` subclasses -/
def Exc.isLibrary : Exc → Bool
  | .CrashTypeError | .CrashIndexError | .CrashKeyError | .CrashAttributeError | .ValueError | .Unsupported => false
  | _ => true

abbrev R := Except Exc

deriving instance DecidableEq for Except

namespace Datatypes

def findBase (base : List BaseDt) (dt : String) : Option BaseDt := base.find? (·.name == dt)

def isBase (base : List BaseDt) (dt : Option String) : Bool :=
  match dt with
  | some d => base.any (·.name == d)
  | none => false

/-- a base datatype *object*: what `to_er7` will emit -/
inductive LeafV
  | empty                               -- no value
  | raw (t : Str)                       -- numeric / date objects: text fixed at construction
  | esc (v27 : Bool) (t : Str)          -- textual object: escaped at encoding time
deriving Repr, DecidableEq

/-- `re.match(r'(\d\d\s)?(\(\d+\))?(\d+-?\d+)(X\d+)?(B\d+)?(C.+)?', s)`: only the mandatory core decides -/
def tnCore (s : Str) : Bool :=
  let k := (s.takeWhile isDig).length
  if k ≥ 2 then true
  else if k == 1 then
    match s.drop 1 with
    | '-' :: d :: _ => isDig d
    | _ => false
  else false
def tnParen (s : Str) : Bool :=
  match s with
  | '(' :: r =>
    let k := (r.takeWhile isDig).length
    k ≥ 1 && (match r.drop k with | ')' :: q => tnCore q | _ => false)
  | _ => false
def tnOk (s : Str) : Bool :=
  tnCore s || tnParen s ||
  (match s with
   | a :: b :: w :: r => isDig a && isDig b && isWS w && (tnCore r || tnParen r)
   | _ => false)

/-- textual class constructor: `BaseDataType.__init__` length check under STRICT -/
def textual (b : BaseDt) (v27 : Bool) (text : Str) (strict : Bool) : R LeafV :=
  match b.maxLen with
  | some ml => if strict && text.length > ml then .error .MaxLengthReached else .ok (.esc v27 text)
  | none => .ok (.esc v27 text)

def lowerC (c : Char) : Char := if 'A' ≤ c && c ≤ 'Z' then Char.ofNat (c.toNat + 32) else c

/-- the special values `Decimal(str)` accepts besides numbers: `[+-](inf|infinity|nan<digits>|snan<digits>)` -/
def decimalSpecial (s : Str) : Bool :=
  let t := (Num.signSplit (strip s)).2.map lowerC
  t == "inf".toList || t == "infinity".toList ||
  ("nan".toList.isPrefixOf t && (t.drop 3).all isDig) || ("snan".toList.isPrefixOf t && (t.drop 4).all isDig)

/-- inputs **outside the model's domain** (the model answers `Unsupported`, never a claim about the
    code): `_` digit separators and non-ASCII characters (Python's `int`, `Decimal` and the `\d` of
    `strptime`/`re` accept Unicode digits), and the special values of `Decimal`. -/
def outOfDomain (k : BaseKind) (s : Str) : Bool :=
  match k with
  | .dt | .tm | .dtm | .tn => s.any (fun c => c.toNat > 127)
  | .si => s.any (fun c => c.toNat > 127 && !isWS c) ||
      (s.contains '_' && (Num.parseInt (s.filter (· != '_'))).isSome)
  | .nm => s.any (fun c => c.toNat > 127 && !isWS c) || decimalSpecial (s.filter (· != '_')) ||
      (s.contains '_' && (Num.parseDecimal (s.filter (· != '_'))).isSome)
  | _ => false

/-- one factory call `factories[datatype](value, …)` before the TOLERANT fallback;
    `none` = the call raised `ValueError` -/
def constructCore (b : BaseDt) (text : Str) (strict : Bool) : Option (R LeafV) :=
  match b.kind with
  | .dt => (Dt.accept .DT text).map (fun r => .ok (.raw r))
  | .tm => (Dt.accept .TM text).map (fun r => .ok (.raw r))
  | .dtm => (Dt.accept .DTM text).map (fun r => .ok (.raw r))
  | .nm => match Num.nm text strict with
    | .ok t => some (.ok (.raw t)) | .valueError => none | .maxLen => some (.error .MaxLengthReached)
  | .si => match Num.si text strict with
    | .ok t => some (.ok (.raw t)) | .valueError => none | .maxLen => some (.error .MaxLengthReached)
  | .tn => if tnOk text then some (textual b false text strict) else none
  | .text => some (textual b false text strict)
  | .text27 => some (textual b true text strict)
  | .other => some (.error .Unsupported)

def construct (b : BaseDt) (text : Str) (strict : Bool) : Option (R LeafV) :=
  if outOfDomain b.kind text then some (.error .Unsupported) else constructCore b text strict

/-- `datatype_factory(datatype, value, version, validation_level)` for a `str` value.
    No process-wide default is read: the TOLERANT fallback `factories['ST'](value, validation_level=…)`
    carries the caller's level (fix of finding D12), so the function takes no `Defaults` argument. -/
def factory (base : List BaseDt) (dt : String) (text : Str) (strict : Bool) : R LeafV :=
  match findBase base dt with
  | none => .error .InvalidDataType
  | some b =>
    match construct b text strict with
    | some r => r
    | none =>
      if strict then .error .ValueError
      else match findBase base "ST" with
        | none => .error .CrashKeyError
        | some st =>
          match construct st text strict with
          | some r => r
          | none => .error .ValueError

def encLeaf (ec : EC) : LeafV → Str
  | .empty => []
  | .raw t => t
  | .esc v27 t => Escape.escape v27 ec t

end Datatypes
end Hl7
