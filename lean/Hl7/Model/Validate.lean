import Hl7.Model.Message
/-!
# Model of `Validator.validate` (validation.py:80-235): the error list

Warnings (value tables, maximum lengths) are not modelled; errors are, as structured values.
Validated reference semantics: DESIGN-appendix A.6.
-/
namespace Hl7.Val
open Hl7 Hl7.Py Hl7.G Hl7.Datatypes Hl7.Pe

inductive VErr
  | unknown (parent : String) (el : String)            -- "Unknown element found: <parent>.<el>"
  | invalidEl (el : String)                            -- "Invalid element found: <el>"
  | invalidChildren (el : String) (names : List String) -- "Invalid children detected for <el>: [...]" (names sorted)
  | missing (parent child : String)                    -- "Missing required child P.C"
  | exceeded (parent child : String)                   -- "Child limit exceeded P.C"
  | datatype (dt : String) (parent el : String)        -- "Datatype D is not correct for P.E (it must be …)"
deriving Repr, DecidableEq

def VErr.show : VErr → String
  | .unknown p _ => "unknown:" ++ p
  | .invalidEl e => "invalid-element:" ++ e
  | .invalidChildren e ns => "invalid-children:" ++ e ++ ":" ++ ",".intercalate ns
  | .missing p c => "missing:" ++ p ++ "." ++ c
  | .exceeded p c => "exceeded:" ++ p ++ "." ++ c
  | .datatype d p e => "datatype:" ++ d ++ ":" ++ p ++ "." ++ e

/-- `_check_repetitions` -/
def checkReps (pname cn : String) (mn : Nat) (mx : Int) (k : Nat) : List VErr :=
  if mx != -1 then
    (if k < mn then [.missing pname cn] else if (k : Int) > mx then [.exceeded pname cn] else [])
  else if k < mn then [.missing pname cn] else []

/-- insertion sort of names (the Python message prints `list(set - set)`, compared as a sorted list) -/
def insertS (x : String) : List String → List String
  | [] => [x]
  | y :: ys => if x ≤ y then x :: y :: ys else y :: insertS x ys
def sortS (l : List String) : List String := l.foldr insertS []
def dedup (l : List String) : List String := l.foldr (fun x acc => if acc.contains x then acc else x :: acc) []

def oName (o : Option String) : String := o.getD "None"

variable (T : Tables)

/-- what happens when a leaf-typed reference meets an element whose datatype is complex:
    `_is_valid(el, DATATYPES_STRUCTS[dt])` indexes the row tuple as if it were a reference -/
def complexUnderLeaf (dt : String) : R (List VErr) :=
  match structRows T dt with
  | none => .error .ChildNotFound
  | some rows => if rows.length < 5 then .error .CrashIndexError else .error .CrashTypeError

/-- the `else` branch of `_check_known_element` (leaf reference) for an element of datatype `elDt` -/
def leafBranch (elDt : Option String) (pname ename : String) (refDt : Option String) : R (List VErr) :=
  if elDt == some "varies" then pure [] else
  let e1 : List VErr := if elDt != refDt then [.datatype (oName elDt) pname ename] else []
  match elDt with
  | some d => if !isBase T elDt then do
      let more ← complexUnderLeaf T d
      pure (e1 ++ more)
    else pure e1
  | none => pure e1

/-- rows of a sequence reference as (name, min, max, child reference) -/
def refRows (rows : List Row) : List (String × Nat × Int × Ref) :=
  rows.map (fun r => (r.name, r.min, r.max, rowRef T r))

/-- SubComponent -/
def validSub (pname : String) (s : SubC) (ref : Option Ref) : R (List VErr) :=
  if s.name == s.dt then pure [.unknown pname (oName s.dt)] else
  let ename := oName s.name
  let ref : Option Ref := match ref with
    | some r => some r
    | none => getDatatype T ename
  match ref with
  | none => pure [.invalidEl ename]
  | some (.leaf d) => leafBranch T s.dt pname ename d
  | some (.seq rows _) => pure ((refRows T rows).flatMap (fun (cn, mn, mx, _) => checkReps ename cn mn mx 0))
  | some (.bad _) => .error .CrashIndexError
  | some .none => .error .CrashTypeError

/-- Component -/
def validComp (pname : String) (c : Comp) (ref : Option Ref) : R (List VErr) :=
  if c.name == c.dt then pure [.unknown pname (oName c.dt)] else
  let ename := oName c.name
  let ref : Option Ref := match ref with
    | some r => some r
    | none => getDatatype T ename
  match ref with
  | none => pure [.invalidEl ename]
  | some (.leaf d) => leafBranch T c.dt pname ename d
  | some (.seq rows _) => do
    let names := dedup (c.kids.map (fun k => oName k.name))
    let valid := rows.map (·.name)
    let extra := names.filter (fun n => !valid.contains n)
    let e0 : List VErr := if extra.isEmpty then [] else [.invalidChildren ename (sortS extra)]
    let per ← (refRows T rows).mapM (fun (cn, mn, mx, cref) => do
      let kids := c.kids.filter (fun k => k.name == some cn)
      let sub ← kids.mapM (fun k => validSub T ename k (some cref))
      pure (checkReps ename cn mn mx kids.length ++ sub.flatten))
    pure (e0 ++ per.flatten)
  | some (.bad _) => .error .CrashIndexError
  | some .none => .error .CrashTypeError

/-- `el.children.get(name)` on a field: the components named `cn`, or `none` when the lookup raises
    (the validator then skips the row) -/
def fieldLookup (f : Fld) (cn : String) : Option (List Comp) :=
  let direct := f.kids.filter (fun k => k.name == some cn)
  if !direct.isEmpty then some direct else
  match fieldFindName T f cn with
  | .ok n => some (f.kids.filter (fun k => k.name == some n))
  | .error _ => none

def isZFieldEl (f : Fld) : Bool := match f.name with | some n => isZField n | none => false

/-- Field: `check_known` against a reference -/
def validFieldKnown (pname : String) (f : Fld) (ref : Ref) : R (List VErr) :=
  let ename := oName f.name
  match ref with
  | .leaf d => leafBranch T f.dt pname ename d
  | .seq rows _ => do
    let names := dedup (f.kids.map (fun k => oName k.name))
    let valid := rows.map (·.name)
    let extra := names.filter (fun n => !valid.contains n)
    let e0 : List VErr := if extra.isEmpty then [] else [.invalidChildren ename (sortS extra)]
    let per ← (refRows T rows).mapM (fun (cn, mn, mx, cref) =>
      match fieldLookup T f cn with
      | none => pure []
      | some kids => do
        let sub ← kids.mapM (fun k => validComp T ename k (some cref))
        pure (checkReps ename cn mn mx kids.length ++ sub.flatten))
    pure (e0 ++ per.flatten)
  | .bad _ => .error .CrashIndexError
  | .none => .error .CrashTypeError

def validField (pname : String) (f : Fld) (ref : Option Ref) : R (List VErr) :=
  if f.name == f.dt then pure [.unknown pname (oName f.dt)] else
  if isZFieldEl f then do
    -- `_check_z_element`
    let e1 ← (if isBase T f.dt || f.dt == some "varies" then pure []
      else match f.dt with
        | some d => match structRows T d with
          | some rows => validFieldKnown T pname f (.seq rows (some f.dt))
          | none => .error .ChildNotFound
        | none => pure [])
    if isBase T f.dt || f.dt == some "varies" then pure [] else do
      let kids ← f.kids.mapM (fun k => validComp T (oName f.name) k none)
      pure (e1 ++ kids.flatten)
  else
    let ename := oName f.name
    let ref : Option Ref := match ref with
      | some r => some r
      | none => getField T ename
    match ref with
    | none => pure [.invalidEl ename]
    | some r => validFieldKnown T pname f r

/-- `segment.children.get(name)`: the fields named `cn`, or `none` when the lookup raises -/
def segLookup (sg : Seg) (cn : String) : Option (List Fld) :=
  let direct := sg.kids.filter (fun k => k.name == some cn)
  if !direct.isEmpty then some direct else
  match segFindChild T sg cn with
  | .ok (n, _) => some (sg.kids.filter (fun k => k.name == some n))
  | .error _ => none

/-- Segment against the rows of its reference -/
def validSegKnown (sg : Seg) (rows : List (String × Nat × Int × Ref)) : R (List VErr) := do
  let names0 := dedup ((sg.kids.filter (fun k => !isZFieldEl k)).map (fun k => oName k.name))
  -- a varies-terminated segment accepts further fields `<SEG>_<n>` (fix of finding D18)
  let names := if sg.inf then names0.filter (fun n => !validChildName (some n) sg.name) else names0
  let valid := rows.map (·.1)
  let extra := names.filter (fun n => !valid.contains n)
  let e0 : List VErr := if extra.isEmpty then [] else [.invalidChildren sg.name (sortS extra)]
  let per ← rows.mapM (fun (cn, mn, mx, cref) =>
    match segLookup T sg cn with
    | none => pure []
    | some kids => do
      let sub ← kids.mapM (fun k => validField T sg.name k (some cref))
      pure (checkReps sg.name cn mn mx kids.length ++ sub.flatten))
  let z ← (sg.kids.filter isZFieldEl).mapM (fun k => validField T sg.name k none)
  pure (e0 ++ per.flatten ++ z.flatten)

/-- rows of a segment's own structure (what `Segment.reference[1]` holds) -/
def segOwnRows (sg : Seg) : List (String × Nat × Int × Ref) :=
  sg.byName.map (fun (k, r) => let c := (sg.reps.lookup k).getD (0, -1); (k, c.1, c.2, r))

def validSeg (sg : Seg) (fromRef : Bool) : R (List VErr) :=
  if isZSeg sg.name then do
    let kids ← sg.kids.mapM (fun k => validField T sg.name k none)
    pure kids.flatten
  else if fromRef then validSegKnown T sg (segOwnRows sg)
  else match T.segments.find? (·.name == sg.name) with
    | some e => validSegKnown T sg (refRows T e.rows)
    | none => pure [.invalidEl sg.name]

def nodeIsZ : Msg.Node → Bool
  | .seg s => isZSeg s.name
  | .grp _ _ _ => false

/-- names of the non-Z children that no row of the structure declares -/
def extraKids (rows : List Msg.SRow) (kids : List Msg.Node) : List String :=
  (dedup ((kids.filter (fun k => !nodeIsZ k)).map (·.name))).filter (fun n => !(rows.map (·.name)).contains n)

/-- assemble the report of a group/message from the reports of its children (`per[i]` is the report of
    `kids[i]`, empty for children the validator never visits) -/
def combine (pname : String) (rows : List Msg.SRow) (kids : List Msg.Node) (per : List (List VErr)) : List VErr :=
  let extra := extraKids rows kids
  let e0 : List VErr := if extra.isEmpty then [] else [.invalidChildren pname (sortS extra)]
  let kp := kids.zip per
  let perRow := rows.flatMap (fun r =>
    let mine := kp.filter (fun (k, _) => k.name == r.name)
    checkReps pname r.name r.card.1 r.card.2 mine.length ++ (mine.map (·.2)).flatten)
  let z := ((kp.filter (fun (k, _) => nodeIsZ k)).map (·.2)).flatten
  e0 ++ perRow ++ z

mutual
/-- Group / Message children: each child that is declared in `rows` (or is a Z segment) is validated -/
def validNode : Msg.Node → R (List VErr)
  | .seg s => validSeg T s true
  | .grp n rows kids => do
    let per ← validList rows kids
    pure (combine n rows kids per)
def validList (rows : List Msg.SRow) : List Msg.Node → R (List (List VErr))
  | [] => pure []
  | k :: ks => do
    let a ← (if nodeIsZ k || rows.any (fun r => r.name == k.name) then validNode k else pure [])
    let b ← validList rows ks
    pure (a :: b)
end

/-- `message.validate(return_errors=True)`: the errors -/
def validateMessage (m : Msg.Message) : R (List VErr) :=
  match m.name, m.rows with
  | some n, some rows =>
    if Msg.isZMsg n.toList then do
      -- `_check_z_element`: every child is validated against its own standard reference
      let per ← m.kids.mapM (fun k => match k with
        | .seg s => validSeg T s false
        | .grp _ _ _ => validNode T k)
      pure per.flatten
    else do
      let per ← validList T rows m.kids
      pure (combine n rows m.kids per)
  | _, _ => pure [.unknown "None" "Message"]

end Hl7.Val
