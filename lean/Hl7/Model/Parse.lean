import Hl7.Model.Datatypes
/-!
# Model of the parser and of the ER7 encoder below the message level
(parser.py:198-632; core.py `Element/CanBeVaries/SupportComplexDataType/Field/Component/SubComponent/Segment`
constructors, `_is_valid_child`, `find_child_reference`, `_get_children`, `to_er7`).

Validated reference semantics: DESIGN-appendix A.4.  Every partial Python operation is an explicit
`Except` branch returning the crash kind.
-/
namespace Hl7.Pe
open Hl7 Hl7.Py Hl7.G Hl7.Datatypes

/-- a reference as the Python tuples: ('leaf', None, dt, …) | ('sequence', rows, dt, …) | ('sequence'|'choice', rows) | malformed | None -/
inductive Ref
  | leaf (dt : Option String)
  | seq (rows : List Row) (dt : Option (Option String))   -- dt = none for 2-tuples (segments, groups)
  | bad (arity : Nat)
  | none
deriving Repr

variable (T : Tables)

def isBase (dt : Option String) : Bool := Datatypes.isBase T.base dt

def structRows (dt : String) : Option (List Row) := (T.structs.find? (·.name == dt)).map (·.rows)

/-- the child's own reference, from the inline row data -/
def entryRows (es : List Entry) (n : String) : List Row := ((es.find? (·.name == n)).map (·.rows)).getD []

def rowRef (r : Row) : Ref :=
  match r.kind with
  | .leaf => .leaf r.dt
  | .seq | .choice =>
    if r.arity == 2 then
      .seq (match r.cls with
            | .seg => entryRows T.segments r.name
            | .grp => entryRows T.groups r.name
            | _ => []) Option.none
    else
      match r.struct with
      | some st => .seq ((structRows T st).getD []) (some r.dt)
      | Option.none => .seq [] (some r.dt)
  | .none => .none
  | .malformed n => .bad n

def getField (n : String) : Option Ref := (T.fields.find? (·.name == n)).map (rowRef T)
def getDatatype (n : String) : Option Ref := (T.datatypes.find? (·.name == n)).map (rowRef T)

def upper (s : String) : String := s.toUpper

/-- `_valid_child_name(name, parent)` : "<parent>_<int>" (case-insensitive on parent) -/
def validChildName (n : Option String) (parent : String) : Bool :=
  match n with
  | none => false
  | some n =>
    let cs := n.toList
    if !cs.contains '_' then false else
    let rev := cs.reverse
    let idx := (rev.takeWhile (· != '_')).reverse
    let par := (rev.dropWhile (· != '_')).drop 1 |>.reverse
    -- int(): optional sign, digits, surrounding whitespace; names never contain those, keep digits(+sign)
    let okInt := match Num.parseInt idx with | some _ => true | none => false
    okInt && (String.ofList par).toUpper == parent.toUpper

def isZSeg (n : String) : Bool := n.toUpper.startsWith "Z" && n.length == 3
def alnum19 (c : Char) : Bool := c.isAlpha && c.toNat < 128 || ('1' ≤ c && c ≤ '9')
/-- `^z[a-z1-9]{2}_\d+$` ignoring case -/
def isZField (n : String) : Bool :=
  match n.toList with
  | z :: a :: b :: '_' :: ds => (z == 'z' || z == 'Z') && alnum19 a && alnum19 b && !ds.isEmpty && ds.all isDig
  | _ => false

/-- result of `ElementFinder._parse_structure` -/
structure Struct where
  byName : Option (List (String × Ref))      -- structure_by_name, in ordered_children order
  reps : List (String × (Nat × Int))
  byLong : List (String × String)
  dt : Option (Option String)                 -- none = no datatype attribute set by the reference

def renameDup (seen : List String) (counters : List (String × Nat)) (n : String) : String :=
  if seen.contains n then n ++ "_" ++ toString ((counters.lookup n).getD 0) else n

def bump (counters : List (String × Nat)) (n : String) : List (String × Nat) :=
  match counters.lookup n with
  | some k => (n, k + 1) :: counters.filter (·.1 != n)
  | none => (n, 1) :: counters

def rowsStruct (rows : List Row) : R (List (String × Ref) × List (String × (Nat × Int)) × List (String × String)) :=
  let rec go (rs : List Row) (seen : List String) (cnt : List (String × Nat))
      (acc : List (String × Ref)) (reps : List (String × (Nat × Int))) (lg : List (String × String)) :
      R (List (String × Ref) × List (String × (Nat × Int)) × List (String × String)) :=
    match rs with
    | [] => .ok (acc.reverse, reps.reverse, lg.reverse)
    | r :: rs =>
      let k := renameDup seen cnt r.name
      match rowRef T r with
      | .none => .error .CrashTypeError                 -- child_ref[3] on None
      | ref =>
        let lg := match r.long with | some l => (l, k) :: lg.filter (·.1 != l) | none => lg
        go rs (k :: seen) (bump cnt r.name) ((k, ref) :: acc) ((k, (r.min, r.max)) :: reps) lg
  go rows [] [] [] [] []

def parseStruct (ref : Ref) : R Struct :=
  match ref with
  | .leaf dt => .ok ⟨none, [], [], some dt⟩
  | .seq rows dt => do
    let (by_, reps, lg) ← rowsStruct T rows
    .ok ⟨some by_, reps, lg, dt⟩
  | .bad n => if n > 5 then .error .ValueError else .ok ⟨none, [], [], none⟩
  | .none => .error .CrashTypeError

-- ---------------------------------------------------------------- leaves
/-- `SubComponent.value = text`: `datatype_factory(datatype, text, version, validation_level)` -/
def leaf (dt : Option String) (text : Str) (strict : Bool) : R LeafV :=
  match dt with
  | Option.none => .error .InvalidDataType
  | some dn => Datatypes.factory T.base dn text strict

-- ---------------------------------------------------------------- subcomponents
structure SubC where
  name : Option String
  dt : Option String
  val : LeafV
deriving Repr

def startsWithVaries (n : String) : Bool := n.startsWith "VARIES"

def subcomponent (text : Str) (name dt : Option String) (strict : Bool) (reference : Option Ref) : R SubC := do
  if (name.isNone || name == some "") && dt.isNone then throw .OperationNotAllowed
  let reference := if dt == some "varies" && reference.isNone then some (Ref.leaf (some "varies")) else reference
  let isVar := validChildName name "VARIES"
  let nm := name.map upper
  let st : Option Struct ←
    if isVar then
      match reference with
      | some r => (parseStruct T r).map some
      | none => pure none
    else
      if nm.isSome || reference.isSome then
        match reference with
        | some r => (parseStruct T r).map some
        | none =>
          match getDatatype T (nm.getD "") with
          | some r => (parseStruct T r).map some
          | none => throw .InvalidName
      else pure none
  let mut cur : Option String := none
  match st with
  | some s =>
    match s.dt with
    | some d =>
      if d.isSome && !isBase T d then throw .OperationNotAllowed
      cur := d
    | none => pure ()
  | none => pure ()
  let mut nmOut := nm
  match nm with
  | some n =>
    if n != "" then
      if !startsWithVaries n && cur.isNone then throw .InvalidName
  | none => pure ()
  let named := match nm with | some n => n != "" | none => false
  if named then
    if strict && dt.isSome && cur.isSome && dt != cur then throw .OperationNotAllowed
    else if dt.isSome then
      if !isBase T dt then throw .OperationNotAllowed
      if strict && cur.isSome && dt != cur then throw .OperationNotAllowed
      cur := dt
  else
    if dt.isSome && !isBase T dt then throw .OperationNotAllowed
    cur := dt
    nmOut := cur
  if isVar && cur.isNone then cur := some "ST"
  let v ← if text.isEmpty then pure LeafV.empty else leaf T cur text strict
  pure ⟨nmOut, cur, v⟩

def lookupRef (refs : Option (List (String × Ref))) (n : String) : Option Ref :=
  match refs with
  | some l => l.lookup n
  | none => none

def subcomponents (text : Str) (cdt : Option String) (ec : EC) (strict : Bool)
    (refs : Option (List (String × Ref))) : R (List SubC) :=
  (splitOn ec.sub text).zipIdx.foldlM (fun acc (sub, i) => do
    let (n, d) : Option String × Option String :=
      if isBase T cdt || cdt.isNone then (none, some (cdt.getD "ST"))
      else (some (cdt.getD "" ++ "_" ++ toString (i+1)), none)
    let (n, d, ref) : Option String × Option String × Option Ref :=
      match refs, n with
      | some _, some nn =>
        match lookupRef refs nn with
        | some r => (n, d, some r)
        | none => (none, some "ST", none)
      | _, _ => (n, d, none)
    if !blank sub || n.isNone then
      let sc ← subcomponent T sub n d strict ref
      pure (acc ++ [sc])
    else pure acc) []

-- ---------------------------------------------------------------- components
structure Comp where
  name : Option String
  dt : Option String
  byName : Option (List (String × Ref))
  kids : List SubC
deriving Repr

def truthy (o : Option String) : Bool := match o with | some s => s != "" | none => false

def getStructRef (dt : String) : R (List Row) :=
  match structRows T dt with
  | some r => .ok r
  | none => .error .ChildNotFound

/-- `_set_datatype` (SupportComplexDataType) on a (name, dt, byName, #children) record -/
def setDatatype (dt0 : Option String) (by0 : Option (List (String × Ref))) (nKids : Nat)
    (datatype : Option String) (strict : Bool) : R (Option String × Option (List (String × Ref))) := do
  if strict && truthy dt0 && datatype != dt0 then throw .OperationNotAllowed
  let mut by_ := by0
  if !isBase T datatype && datatype != some "varies" && datatype.isSome && datatype != dt0 && dt0.isSome then
    let rows ← getStructRef T (datatype.getD "")
    let st ← parseStruct T (.seq rows (some datatype))
    by_ := st.byName
  if nKids ≥ 1 then
    if isBase T dt0 then pure (datatype, by_) else throw .OperationNotAllowed
  else pure (datatype, by_)

def componentNew (name datatype : Option String) (strict : Bool) (reference : Option Ref) : R Comp := do
  let mut reference := reference
  if datatype == some "varies" && reference.isNone then reference := some (.leaf (some "varies"))
  if !strict && datatype.isSome && datatype != some "varies" && !isBase T datatype then
    let rows ← getStructRef T (datatype.getD "")
    match name with
    | some n =>
      match getDatatype T n with
      | some _ => reference := some (.seq rows (some datatype))
      | none => throw .ChildNotFound
    | none => reference := some (.seq rows (some datatype))
  let isVar := validChildName name "VARIES"
  let nm := name.map upper
  let st : Option Struct ←
    if isVar then
      match reference with
      | some r => (parseStruct T r).map some
      | none => pure none
    else if nm.isSome || reference.isSome then
      match reference with
      | some r => (parseStruct T r).map some
      | none =>
        match getDatatype T (nm.getD "") with
        | some r => (parseStruct T r).map some
        | none => throw .InvalidName
    else pure none
  let mut cdt : Option String := none
  let mut by_ : Option (List (String × Ref)) := none
  match st with
  | some s =>
    by_ := s.byName
    match s.dt with
    | some d => cdt := d
    | none => pure ()
  | none => pure ()
  if truthy nm && !startsWithVaries (nm.getD "") && cdt.isNone then throw .InvalidName
  let mut nmOut := nm
  if truthy nm then
    if strict && datatype.isSome && cdt.isSome && datatype != cdt then throw .OperationNotAllowed
    else if datatype.isSome then
      let (d, b) ← setDatatype T cdt by_ 0 datatype strict
      cdt := d; by_ := b
  else
    let (d, b) ← setDatatype T cdt by_ 0 datatype strict
    cdt := d; by_ := b
    nmOut := cdt
  let unknown := nmOut == cdt
  if unknown && strict && !isBase T cdt && cdt != some "varies" then throw .OperationNotAllowed
  pure ⟨nmOut, cdt, by_, []⟩

def compAdd (c : Comp) (sc : SubC) (strict : Bool) : R Comp := do
  if truthy c.name && isBase T c.dt && c.kids.length ≥ 1 then throw .MaxChildLimitReached
  let n := sc.name
  let d := sc.dt
  if truthy n && n != d && !validChildName n (c.dt.getD "") then throw .ChildNotValid
  let isb := isBase T c.dt
  let unknown := n == d
  let ok : Bool :=
    if !isb then
      if (c.dt.isNone || c.dt == some "varies") && validChildName n "varies" then true
      else if c.dt.isNone && validChildName c.name "varies" && unknown then true
      else if unknown && strict then false
      else if !unknown && truthy c.dt && !validChildName n (c.dt.getD "") then false
      else true
    else
      if truthy d && d != c.dt then false else true
  if !ok then throw .ChildNotValid
  pure { c with kids := c.kids ++ [sc] }

def component (text : Str) (name datatype : Option String) (ec : EC) (strict : Bool) (reference : Option Ref) : R Comp := do
  let c ← match componentNew T name datatype strict reference with
    | .ok c => pure c
    | .error .InvalidName => if strict then throw Exc.InvalidName else componentNew T datatype none strict reference
    | .error e => throw e
  let kids ← subcomponents T text c.dt ec strict c.byName
  let mut c := c
  if !strict && isBase T c.dt && kids.length > 1 then
    let (d, b) ← setDatatype T c.dt c.byName 0 none strict
    c := { c with dt := d, byName := b }
  kids.foldlM (fun c k => compAdd T c k strict) c

-- ---------------------------------------------------------------- encoding
def intercalate (sep : Char) (xs : List Str) : Str := join sep xs

def encGroups (groups : List (List Str)) : List Str :=
  groups.flatMap fun g => if g.isEmpty then [[]] else g

def encComponent (ec : EC) (c : Comp) : Str :=
  let groups : List (List SubC) :=
    if isBase T c.dt || c.dt.isNone then [c.kids]
    else
      let ordered := (c.byName.getD []).map (·.1)
      let g := ordered.map (fun n => c.kids.filter (·.name == some n))
      let g := g ++ (c.kids.filter (fun k => k.name.isNone || k.name == some "ST")).map (fun k => [k])
      dropTrailing List.isEmpty g
  intercalate ec.sub (encGroups (groups.map (·.map (fun k => encLeaf ec k.val))))

-- ---------------------------------------------------------------- fields
structure Fld where
  name : Option String
  dt : Option String
  byName : Option (List (String × Ref))
  reps : List (String × (Nat × Int))
  byLong : List (String × String)
  kids : List Comp
  raw : Option Str := none
deriving Repr

def fieldNew (name datatype : Option String) (strict : Bool) (reference : Option Ref) : R Fld := do
  if name.isNone && strict && datatype != some "varies" then throw .OperationNotAllowed
  let mut reference := reference
  let mut datatype := datatype
  if datatype == some "varies" && reference.isNone then reference := some (.leaf (some "varies"))
  let nm := name.map upper
  let mut f : Fld := ⟨nm, none, none, [], [], [], none⟩
  match nm with
  | some n =>
    let ref : Ref ← match reference with
      | some r => pure r
      | none =>
        match getField T n with
        | some r => pure r
        | none =>
          if isZField (name.getD "") then
            datatype := some (datatype.getD "ST")
            if isBase T datatype then pure (Ref.leaf datatype)
            else do
              let rows ← getStructRef T (datatype.getD "")
              pure (Ref.seq rows (some datatype))
          else throw .InvalidName
    let st ← parseStruct T ref
    f := { f with byName := st.byName, reps := st.reps, byLong := st.byLong }
    match st.dt with
    | some d => f := { f with dt := d }
    | none => pure ()
  | none => pure ()
  if datatype.isSome && strict && datatype != some "varies" && datatype != f.dt then throw .OperationNotAllowed
  if datatype.isSome then
    let (d, b) ← setDatatype T f.dt f.byName 0 datatype strict
    f := { f with dt := d, byName := b }
  else if f.name.isNone then f := { f with dt := none }
  pure f

/-- `Field.find_child_reference` as used by `_is_valid_child`: ok / ChildNotFound / ChildNotValid -/
def fieldFindChild (f : Fld) (name : String) : R Unit := do
  if isBase T f.dt then
    if some name == f.dt then pure () else throw .ChildNotFound
  else if f.dt == some "varies" && validChildName (some name) "varies" then pure ()
  else
    let n := upper name
    let inBy := match f.byName with | some l => (l.lookup n).isSome | none => false
    if inBy || (f.byLong.lookup n).isSome then pure ()
    else if (T.datatypes.find? (·.name == n)).isNone then throw .ChildNotFound
    else if f.byName.isSome then throw .ChildNotValid
    else pure ()

def fieldAdd (f : Fld) (c : Comp) (strict : Bool) : R Fld := do
  if truthy f.name && isBase T f.dt && f.kids.length ≥ 1 then throw .MaxChildLimitReached
  let n := c.name
  let unknown := c.name == c.dt
  let isb := isBase T f.dt
  let tail : R Bool :=
    match n with
    | some nn =>
      if !isBase T n then
        match fieldFindChild T f nn with
        | .ok _ => .ok true
        | .error .ChildNotFound => .ok false
        | .error e => .error e
      else .ok true
    | none => .ok true
  let ok ← if !isb then
      if (f.dt.isNone || f.dt == some "varies") && validChildName n "varies" then pure true
      else if f.dt.isNone && validChildName f.name "varies" && unknown then pure true
      else if unknown && strict then pure false
      else if !unknown && truthy f.dt && !validChildName n (f.dt.getD "") then pure false
      else tail
    else
      if truthy c.dt && c.dt != f.dt then pure false else tail
  if !ok then throw .ChildNotValid
  if strict then
    let (_, mx) := match n with | some nn => (f.reps.lookup nn).getD (0, -1) | none => (0, -1)
    if ((f.kids.filter (·.name == n)).length + 1 : Int) > mx && mx > -1 then throw .MaxChildLimitReached
  pure { f with kids := f.kids ++ [c] }

def components (text : Str) (fdt : Option String) (ec : EC) (strict : Bool)
    (refs : Option (List (String × Ref))) : R (List Comp) :=
  (splitOn ec.comp text).zipIdx.foldlM (fun acc (comp, i) => do
    let (cn, cdt) : Option String × Option String :=
      if isBase T fdt then (none, fdt)
      else if fdt.isNone || fdt == some "varies" then (some ("VARIES_" ++ toString (i+1)), none)
      else (some (fdt.getD "" ++ "_" ++ toString (i+1)), none)
    let ref : Option Ref := match cn with | some n => lookupRef refs n | none => none
    let isVar := match cn with | some n => n.startsWith "VARIES_" | none => false
    if !blank comp || cn.isNone || isVar then
      let c ← component T comp cn cdt ec strict ref
      pure (acc ++ [c])
    else pure acc) []

def field (text : Str) (name : Option String) (ec : EC) (strict : Bool) (reference : Option Ref) (forceVaries : Bool) : R Fld := do
  let f ← match fieldNew T name none strict reference with
    | .ok f => pure f
    | .error .InvalidName =>
      if forceVaries then fieldNew T name none strict (some (.leaf (some "varies")))
      else fieldNew T none none strict reference
    | .error e => throw e
  if name == some "MSH_1" || name == some "MSH_2" then
    let sc ← subcomponent T text none (some "ST") strict none
    let c ← componentNew T none (some "ST") strict none
    let c ← compAdd T c sc strict
    let f ← fieldAdd T f c strict
    pure { f with raw := some text }
  else
    let kids ← components T text f.dt ec strict f.byName
    let mut f := f
    if !strict && isBase T f.dt && kids.length > 1 then
      let (d, b) ← setDatatype T f.dt f.byName 0 none strict
      f := { f with dt := d, byName := b }
    kids.foldlM (fun f k => fieldAdd T f k strict) f

def encField (ec : EC) (f : Fld) : R Str := do
  match f.raw with
  | some r => if f.name == some "MSH_1" || f.name == some "MSH_2" then return r
  | none => pure ()
  let groups : List (List Comp) ←
    if f.dt == some "varies" then do
      let n := f.kids.length
      let gs ← (List.range n).mapM (fun i =>
        let g := f.kids.filter (·.name == some ("VARIES_" ++ toString (i+1)))
        if g.isEmpty then (throw Exc.CrashKeyError : R (List Comp)) else pure g)
      pure (dropTrailing List.isEmpty gs ++ (f.kids.filter (fun c => c.name == c.dt)).map (fun c => [c]))
    else if isBase T f.dt || f.dt.isNone then pure [f.kids]
    else
      let ordered := (f.byName.getD []).map (·.1)
      let g := ordered.map (fun n => f.kids.filter (·.name == some n))
      let g := g ++ (f.kids.filter (fun k => k.name.isNone || k.name == some "ST")).map (fun k => [k])
      pure (dropTrailing List.isEmpty g)
  pure (intercalate ec.comp (encGroups (groups.map (·.map (encComponent T ec)))))

-- ---------------------------------------------------------------- segments
structure Seg where
  name : String
  byName : List (String × Ref)
  reps : List (String × (Nat × Int))
  byLong : List (String × String)
  inf : Bool
  lastAllowed : Nat
  last : Nat
  kids : List Fld
deriving Repr

def idxOf (fieldName : String) : Nat := (natOf ((fieldName.toList.drop 4)))

def segAdd (sg : Seg) (f : Fld) (strict : Bool) : R Seg := do
  if f.name.isNone && strict then throw .ChildNotValid
  match f.name with
  | some n =>
    if !((sg.byName.lookup n).isSome || (sg.byLong.lookup n).isSome) then
      if sg.inf && validChildName (some n) sg.name then pure ()
      else if (T.fields.find? (·.name == n)).isSome then throw .ChildNotValid
      else throw .ChildNotFound
    if !(n.toUpper.startsWith sg.name.toUpper) then throw .ChildNotValid
  | none => pure ()
  if strict then
    let (_, mx) := match f.name with | some nn => (sg.reps.lookup nn).getD (0, -1) | none => (0, -1)
    if ((sg.kids.filter (·.name == f.name)).length + 1 : Int) > mx && mx > -1 then throw .MaxChildLimitReached
  let last := match f.name with
    | some n => if sg.inf && idxOf n > sg.last then idxOf n else sg.last
    | none => sg.last
  pure { sg with kids := sg.kids ++ [f], last := last }

/-- `Segment(name, version=…, validation_level=…)` (core.py:1597-1620) -/
def segmentNew (name : String) : R Seg :=
  let nameU := name.toUpper
  -- model domain: `str.upper()` of cased non-ASCII letters (e.g. 'ÿ' → 'Ÿ') is not modelled
  if name.toList.any (fun c => c.toNat > 127) then throw .Unsupported else
  if isZSeg name then pure ⟨nameU, [], [], [], true, 0, 0, []⟩
  else
    match T.segments.find? (·.name == nameU) with
    | none => throw .InvalidName
    | some e =>
      match e.shape with
      | .bad n => if n < 2 then throw .CrashIndexError else throw .CrashTypeError
      | .ok _ => do
        let (by_, reps, lg) ← rowsStruct T e.rows
        match by_.getLast? with
        | none => throw .CrashIndexError
        | some (lastName, lastRef) =>
          let isVaries := match lastRef with | .leaf d => d == some "varies" | .seq _ d => d == some (some "varies") | _ => false
          pure ⟨nameU, by_, reps, lg, isVaries, idxOf lastName, idxOf lastName, []⟩

/-- `Segment.find_child_reference(name)`: canonical child name and its reference -/
def segFindChild (sg : Seg) (name : String) : R (String × Ref) :=
  let n := name.toUpper
  match sg.byName.lookup n with
  | some r => pure (n, r)
  | none =>
    match (sg.byLong.lookup n).bind (fun k => (sg.byName.lookup k).map (fun r => (k, r))) with
    | some kr => pure kr      -- `structure_by_longname[long]` is the same dict object as `structure_by_name[k]`
    | none =>
      if sg.inf && validChildName (some n) sg.name then
        pure (n, .leaf (some (if isZField n then "ST" else "varies")))
      else if (T.fields.find? (·.name == n)).isSome then throw .ChildNotValid
      else throw .ChildNotFound

/-- `Field.find_child_reference(name)['name']` for an upper-cased `name` -/
def fieldFindName (f : Fld) (name : String) : R String :=
  if isBase T f.dt then
    if some name == f.dt then pure name else throw .ChildNotFound
  else if f.dt == some "varies" && validChildName (some name) "varies" then pure name
  else
    let n := upper name
    let inBy := match f.byName with | some l => (l.lookup n).isSome | none => false
    if inBy then pure n
    else match f.byLong.lookup n with
      | some k => pure k
      | none =>
        if (T.datatypes.find? (·.name == n)).isNone then throw .ChildNotFound
        else if f.byName.isSome then throw .ChildNotValid
        else pure n

/-- datatype of the component named `cn` of field `f` (`structure_by_name[cn]['ref'][2]`) -/
def compDatatype (f : Fld) (cn : String) : Option String :=
  match f.byName with
  | some l => match l.lookup cn with
    | some (.leaf d) => d
    | some (.seq _ (some d)) => d
    | _ => none
  | none => none

/-- sub-structure of the component named `cn` -/
def compRows (f : Fld) (cn : String) : Option (List Row) :=
  match f.byName with
  | some l => match l.lookup cn with
    | some (.seq rows _) => some rows
    | _ => none
  | none => none

/-- `Field._do_traversal` name resolution: a child name, a long name, or a positional path
    `<SEG>_<i>_<j>[_<k>]`; result = (component name, optional subcomponent name) -/
def fieldTraverse (f : Fld) (name : String) : R (String × Option String) :=
  let nameU := upper name
  match fieldFindName T f nameU with
  | .ok n => pure (n, none)
  | .error .ChildNotFound =>
    let parts := (splitOn '_' nameU.toList)
    if parts.length < 3 || parts.length > 4 then throw .ChildNotFound else
    let pre := String.ofList (parts.getD 0 [] ++ '_' :: parts.getD 1 [])
    match Num.parseInt (parts.getD 2 []), (if parts.length == 4 then (Num.parseInt (parts.getD 3 [])).map some else some none) with
    | some ci, some si =>
      if some pre != f.name then throw .ChildNotFound else
      let cn : R String :=
        if isBase T f.dt then
          (if si.isSome || ci != 1 then throw .ChildNotFound else pure (f.dt.getD ""))
        else pure (f.dt.getD "None" ++ "_" ++ String.ofList (intStr ci))
      do
        let cn ← cn
        let cn' ← match fieldFindName T f cn with
          | .ok n => pure n
          | .error e => throw e
        match si with
        | none => pure (cn', none)
        | some k =>
          let cdt := compDatatype f cn'
          let sn := (cdt.getD "None") ++ "_" ++ String.ofList (intStr k)
          -- the subcomponent must be a row of the component's datatype
          let ok := if isBase T cdt then false else
            match compRows f cn' with
            | some rows => rows.any (·.name == sn)
            | none => false
          if ok then pure (cn', some sn) else throw .ChildNotFound
    | _, _ => throw .ChildNotFound
  | .error e => throw e

/-- `segment.<name> = "text"` on a segment that has no child of that name yet
    (`ElementList.set` → `parse_child` → `append`) -/
def segSetStr (sg : Seg) (name : String) (value : Str) (ec : EC) (strict : Bool) : R Seg := do
  let (cname, ref) ← segFindChild T sg name
  let f ← field T value (some cname) ec strict (some ref) sg.inf
  if f.name != some cname then throw .ChildNotValid
  segAdd T sg f strict

def segment (text : Str) (ec : EC) (strict : Bool) : R Seg := do
  -- `segment_name = text[:3].upper()` (after the repair of defect D46: the header segment is recognised in any letter case)
  let name := (String.ofList (text.take 3)).toUpper
  let rest := if name != "MSH" then text.drop 4 else text.drop 3
  let sg0 ← segmentNew T name
  -- parse_fields
  let rest := ((rest.dropWhile (· == '\r')).reverse.dropWhile (· == '\r')).reverse
  let fields ← (splitOn ec.field rest).zipIdx.foldlM (fun (acc : List Fld) (ft, i) => do
    let fname := name ++ "_" ++ toString (i+1)
    let ref := sg0.byName.lookup fname
    if !blank ft then
      if fname == "MSH_2" then
        let f ← field T ft (some fname) ec strict ref false
        pure (acc ++ [f])
      else
        (splitOn ec.rep ft).foldlM (fun acc rep => do
          let f ← field T rep (some fname) ec strict ref sg0.inf
          pure (acc ++ [f])) acc
    else if fname == "MSH_1" then
      let f ← field T [ec.field] (some fname) ec strict ref false
      pure (acc ++ [f])
    else pure acc) []
  fields.foldlM (fun sg f => segAdd T sg f strict) sg0

def encSegment (ec : EC) (sg : Seg) : R Str := do
  let ordered := sg.byName.map (·.1)
  let g : List (Option (List Fld)) := ordered.map (fun n =>
    let l := sg.kids.filter (·.name == some n); if l.isEmpty then none else some l)
  let extra : List (Option (List Fld)) :=
    if sg.inf then (List.range (sg.last - sg.lastAllowed)).map (fun k =>
      let l := sg.kids.filter (·.name == some (sg.name ++ "_" ++ toString (sg.lastAllowed + 1 + k)))
      if l.isEmpty then none else some l) else []
  let unk : List (Option (List Fld)) := (sg.kids.filter (fun f => f.name.isNone || f.name == some "ST")).map (fun f => some [f])
  let groups := dropTrailing (fun (o : Option (List Fld)) => o.isNone) (g ++ extra ++ unk)
  let parts ← groups.mapM (fun o => match o with
    | none => pure []
    | some l => do
      let es ← l.mapM (encField T ec)
      pure (intercalate ec.rep es))
  let out := sg.name.toList :: parts
  let out := if sg.name == "MSH" && out.length > 1 then out.head! :: out.drop 2 else out
  pure (intercalate ec.field out)
end Hl7.Pe
