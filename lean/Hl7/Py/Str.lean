/-!
# Python string primitives used by hl7apy, on `List Char`

Every definition here is the model's version of one CPython `str` operation that hl7apy calls.
They are trusted only as far as the correspondence check exercises them (DESIGN §4.1, §7).
No imports: this file is part of the driver.
-/
namespace Hl7

abbrev Str := List Char

namespace Py

/-- Python `s.split(sep)` for a single-character separator. -/
def splitOn (sep : Char) : Str → List Str
  | [] => [[]]
  | c :: cs =>
    if c = sep then [] :: splitOn sep cs
    else match splitOn sep cs with
      | [] => [[c]]          -- unreachable (`splitOn_ne_nil`)
      | x :: xs => (c :: x) :: xs

/-- Python `sep.join(xs)` for a single-character separator. -/
def join (sep : Char) : List Str → Str
  | [] => []
  | [x] => x
  | x :: y :: ys => x ++ sep :: join sep (y :: ys)

/-- Python `str.isspace()` code points. -/
def pyWS : List Nat :=
  [0x20,0x09,0x0a,0x0d,0x0b,0x0c,0x1c,0x1d,0x1e,0x1f,0x85,0xa0,0x1680,0x2000,0x2001,0x2002,0x2003,
   0x2004,0x2005,0x2006,0x2007,0x2008,0x2009,0x200a,0x2028,0x2029,0x202f,0x205f,0x3000]

def isWS (c : Char) : Bool := pyWS.contains c.toNat

/-- whitespace skipped by `int(str)`: as `isWS` but not `\x1c`–`\x1f` (CPython quirk, measured). -/
def isIntWS (c : Char) : Bool := isWS c && !(0x1c ≤ c.toNat && c.toNat ≤ 0x1f)

def stripBy (p : Char → Bool) (s : Str) : Str := ((s.dropWhile p).reverse.dropWhile p).reverse

/-- `str.strip()` -/
def strip (s : Str) : Str := stripBy isWS s

/-- `str.lstrip()` -/
def lstrip (s : Str) : Str := s.dropWhile isWS

/-- `s.strip('\r')` -/
def stripCR (s : Str) : Str := stripBy (· == '\r') s

/-- `not s.strip()` -/
def blank (s : Str) : Bool := (strip s).isEmpty

/-- `str.replace(c, r)` for a one-character pattern. -/
def replaceChar (c : Char) (r : Str) : Str → Str
  | [] => []
  | x :: xs => if x = c then r ++ replaceChar c r xs else x :: replaceChar c r xs

/-- Python string `>=` (code-point lexicographic). -/
def strGe : Str → Str → Bool
  | _, [] => true
  | [], _ :: _ => false
  | a :: as, b :: bs => if a = b then strGe as bs else decide (a.toNat > b.toNat)

def isDig (c : Char) : Bool := '0' ≤ c && c ≤ '9'

def natOf (s : Str) : Nat := s.foldl (fun a c => a * 10 + (c.toNat - 48)) 0

/-- ASCII `str.upper()`; the model's domain excludes cased non-ASCII letters (DESIGN §7). -/
def upperC (c : Char) : Char := if 'a' ≤ c && c ≤ 'z' then Char.ofNat (c.toNat - 32) else c
def upper (s : Str) : Str := s.map upperC

/-- decimal digits of a natural number, most significant first (`str(n)`); fuel-recursive so that the
    kernel can evaluate it (`decide`) -/
def natDigits : Nat → Nat → Str → Str
  | 0, _, acc => acc
  | f+1, n, acc =>
    let acc' := Char.ofNat (48 + n % 10) :: acc
    if n / 10 = 0 then acc' else natDigits f (n / 10) acc'
def natStr (n : Nat) : Str := natDigits (n + 1) n []
/-- `str(i)` for an `int` -/
def intStr (i : Int) : Str := if i < 0 then '-' :: natStr i.natAbs else natStr i.natAbs

def hasDup : Str → Bool
  | [] => false
  | c :: cs => cs.contains c || hasDup cs

/-- `_remove_trailing`-style trimming of a list from the right. -/
def dropTrailing {α} (empty : α → Bool) (xs : List α) : List α :=
  (xs.reverse.dropWhile empty).reverse

end Py
end Hl7
