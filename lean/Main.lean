import Hl7.Model.Datatypes
import Hl7.Model.Parse
import Hl7.Model.Message
import Hl7.Model.Mllp
import Hl7.Model.Validate
import Hl7.Model.Heap
import Hl7.Model.ProfileMsg
import Hl7.Model.Cascade
import Hl7.Model.WF
import Hl7.Gen.Known
import Hl7.Gen.All
/-!
# Line-protocol driver: one operation per input line, one canonical result line per operation.
Run as `lake env lean --run Main.lean < ops.txt`.  Strings travel hex-encoded (UTF-8 code points as
`xxxxxx;`-free fixed 6-digit groups would waste space: we use variable `\u`-free hex of code points
separated by `.` when > 0xff; see `unhex`).
-/
open Hl7 Hl7.G

def hexVal (c : Char) : Nat :=
  if c.isDigit then c.toNat - 48 else if 'a' ≤ c && c ≤ 'f' then c.toNat - 87 else c.toNat - 55

/-- code points as 2 hex digits, or `u` + 6 hex digits for code points > 0xff -/
partial def unhex : List Char → List Char
  | 'u' :: a :: b :: c :: d :: e :: f :: r =>
    Char.ofNat (((((hexVal a * 16 + hexVal b) * 16 + hexVal c) * 16 + hexVal d) * 16 + hexVal e) * 16 + hexVal f) :: unhex r
  | a :: b :: r => Char.ofNat (hexVal a * 16 + hexVal b) :: unhex r
  | _ => []

def hexDigit (n : Nat) : Char := if n < 10 then Char.ofNat (48 + n) else Char.ofNat (87 + n)

def tohex (s : List Char) : String :=
  String.ofList (s.flatMap fun c =>
    let n := c.toNat
    if n < 256 then [hexDigit (n / 16), hexDigit (n % 16)]
    else 'u' :: (List.range 6).map (fun i => hexDigit ((n / 16 ^ (5 - i)) % 16)))

def optS (s : String) : Option String := if s == "-" then none else some s

def parseEC (hx : String) : Option EC :=
  match unhex hx.toList with
  | [f, c, s, r, e] => some ⟨f, c, s, r, e, none⟩
  | [f, c, s, r, e, t] => some ⟨f, c, s, r, e, some t⟩
  | _ => none

def tablesFor (ver : String) : Option Tables := Hl7.Gen.tables.find? (·.version == ver)

def showR (r : R (List Char)) : String :=
  match r with
  | .ok t => "ok " ++ tohex t
  | .error e => "exc " ++ e.show

/-- a name as it travels in the line protocol: verbatim when it is made of letters, digits and `_`, hex-encoded otherwise
    (a segment "name" is the first three characters of its line, whatever they are) -/
def safeName (n : String) : String :=
  if n.toList.all (fun c => c.isAlphanum || c == '_') then n else "x" ++ tohex n.toList

mutual
partial def showNode : Msg.Node → String
  | .seg s => safeName s.name
  | .grp n _ kids => safeName n ++ "(" ++ showNodes kids ++ ")"
partial def showNodes : List Msg.Node → String
  | [] => ""
  | [k] => showNode k
  | k :: ks => showNode k ++ "," ++ showNodes ks
end

def optHex (o : Option (List Char)) : String := match o with | some t => "s" ++ tohex t | none => "-"

partial def unhexBytes : List Char → List UInt8
  | a :: b :: r => (hexVal a * 16 + hexVal b).toUInt8 :: unhexBytes r
  | _ => []

def parseEvents (s : String) : List Mllp.Ev :=
  (s.splitOn ",").filterMap fun tok =>
    match tok.toList with
    | 'c' :: hx => some (.chunk (unhexBytes hx))
    | ['t'] => some .timeout
    | ['e'] => some .eof
    | _ => none

/-- handlers of the MLLP harness: `types` registered (reply "ACK:"+type), `raising` registered but raising,
    optional ERR handler (reply "ERR:"+exception kind) -/
def mkHandlers (types raising : List (List Char)) (err : Bool) : Mllp.Handlers :=
  let all := types ++ raising
  { byType := all.zipIdx.map (fun (t, i) => (t, i)),
    err := if err then some 999 else none,
    behave := fun id _ => match all[id]? with
      | some t => if raising.contains t then none else some ("ACK:".toList ++ t)
      | none => none,
    errBehave := fun e _ => some ("ERR:".toList ++ e.toList) }

def showInv (hs : List (List Char)) : Mllp.Inv → String
  | .handler id => "H:" ++ tohex (hs.getD id [])
  | .errHandler _ e => "E:" ++ e

/-- one history on the element-graph core: `HEAP <nodes> <maxreps> <ops>`
    nodes  = `name:level:version,…`            (ids are positions)
    maxreps = `parent/name=k,…` or `-`         (STRICT cardinality per parent name and child name; unlisted = unbounded)
    ops    = `A.p.c.v;I.p.c.li.v;R.p.c;X.p.old.new.v;S.p.c.v;U.c;T.p.c.v;P.c.v;…`  (v = 1 when the structure accepts the child) -/
def heapShow (h : Heap.Heap) : String :=
  ";".intercalate (h.map (fun n => ",".intercalate (n.list.map toString) ++ "/" ++
    (match n.parent with | some p => toString p | none => "-") ++ "/" ++ (match n.tparent with | some p => toString p | none => "-")
    ++ "/" ++ ",".intercalate ((n.tidx.toArray.qsort (· < ·)).toList.map toString)))

def heapRun (nodes maxreps ops : String) : String :=
  let h0 : Heap.Heap := (nodes.splitOn ",").filterMap fun t =>
    match t.splitOn ":" with
    | [n, l, v] => some { name := n, level := l.toNat!, version := v.toNat! }
    | _ => none
  let mr : List (String × Int) := if maxreps == "-" then [] else (maxreps.splitOn ",").filterMap fun t =>
    match t.splitOn "=" with
    | [n, k] => some (n, (k.toInt?.getD (-1)))
    | _ => none
  let rules (v : Bool) : Heap.Rules := ⟨fun _ _ => v, fun pn name => (mr.lookup (pn.name ++ "/" ++ name)).getD (-1), fun p => p.level == 1⟩
  let step (acc : Heap.Heap × List String) (o : String) : Heap.Heap × List String :=
    let (h, out) := acc
    let r : Heap.Heap × Except Heap.Err Unit :=
      match o.splitOn "." with
      | ["A", p, c, v] => Heap.appendP (rules (v == "1")) h.length p.toNat! c.toNat! h
      | ["I", p, c, li, v] => Heap.insertAt (rules (v == "1")) p.toNat! c.toNat! li.toNat! h
      | ["R", p, c] => Heap.remove p.toNat! c.toNat! h
      | ["X", p, a, b, v] => Heap.replaceChild (rules (v == "1")) p.toNat! a.toNat! b.toNat! h
      | ["S", p, c, v] => Heap.setParentP (rules (v == "1")) h.length p.toNat! c.toNat! h
      | ["U", c] => Heap.unsetParent c.toNat! h
      | ["N"] => (h, .ok ())
      | ["E", p, c, i, v] => Heap.setChild (rules (v == "1")) p.toNat! c.toNat! (i.toInt?.getD 0) h
      | ["D", p, nm, i] => Heap.removeByName p.toNat! nm (i.toInt?.getD 0) h
      | ["T", p, c, v] => Heap.setTrav (rules (v == "1")) p.toNat! c.toNat! h
      | ["P", c, v] => Heap.promote (rules (v == "1")) h.length c.toNat! h
      | _ => (h, .error .crash)
    let tag := match r.2 with
      | .ok _ => "ok" | .error .childNotValid => "ChildNotValid" | .error .maxChild => "MaxChildLimitReached"
      | .error .opNotAllowed => "OperationNotAllowed" | .error .crash => "crash"
    (r.1, out ++ [tag ++ " " ++ heapShow r.1])
  "|".intercalate ((ops.splitOn ";").foldl step (h0, [])).2

/-- edits: `C.<tab>.<parent>.<child>.<min>.<max>` | `F.<tab>.<parent>.<child>` | `R.<segment>.<field>.<L|S>.<dt>`, `;`-separated, `-` for none;
    tab ∈ m (message) g (group) s (segment) d (datatype struct) -/
def parseTab (s : String) : Option Prof.Tab :=
  match s with | "m" => some .messages | "g" => some .groups | "s" => some .segments | "d" => some .structs | _ => none

def parseEdit (s : String) : Option Prof.Edit :=
  match s.splitOn "." with
  | ["C", t, p, c, mn, mx] => (parseTab t).map fun t => .card t p c mn.toNat! (mx.toInt?.getD (-1))
  | ["F", t, p, c] => (parseTab t).map fun t => .forbid t p c
  | ["R", p, c, "L", dt] => some (.retype p c .leaf dt none)
  | ["R", p, c, "S", dt] => some (.retype p c .seq dt (some dt))
  | _ => none

def parseProfile (keys edits : String) : Prof.Profile :=
  { keys := if keys == "-" then [] else (keys.splitOn ",").filterMap fun k =>
      match k.splitOn ":" with | [n, "l"] => some (n, true) | [n, _] => some (n, false) | _ => none,
    edits := if edits == "-" then [] else (edits.splitOn ";").filterMap parseEdit }

def handle (line : String) : String :=
  match line.splitOn " " with
  | ["ESC", v27, ec, hx] =>
    match parseEC ec with
    | some ec => "ok " ++ tohex (Escape.escape (v27 == "1") ec (unhex hx.toList))
    | none => "bad-ec"
  | ["FAC", ver, lvl, _dlvl, ec, dt, hx] =>
    match tablesFor ver, parseEC ec with
    | some T, some ec =>
      showR ((Datatypes.factory T.base dt (unhex hx.toList) (lvl == "S")).map (Datatypes.encLeaf ec))
    | _, _ => "bad-args"
  | ["COMP", ver, lvl, _dlvl, ec, name, dt, hx] =>
    match tablesFor ver, parseEC ec with
    | some T, some ec =>
      showR ((Pe.component T (unhex hx.toList) (optS name) (optS dt) ec (lvl == "S") none).map (Pe.encComponent T ec))
    | _, _ => "bad-args"
  | ["FLD", ver, lvl, _dlvl, ec, name, hx] =>
    match tablesFor ver, parseEC ec with
    | some T, some ec =>
      showR (do let f ← Pe.field T (unhex hx.toList) (optS name) ec (lvl == "S") none false; Pe.encField T ec f)
    | _, _ => "bad-args"
  | ["SETF", ver, lvl, ec, seg, name, hx] =>
    match tablesFor ver, parseEC ec with
    | some T, some ec =>
      showR (do
        let sg ← Pe.segmentNew T seg
        let sg ← Pe.segSetStr T sg name (unhex hx.toList) ec (lvl == "S")
        Pe.encSegment T ec sg)
    | _, _ => "bad-args"
  | ["RESF", ver, seg, hx] =>
    match tablesFor ver with
    | some T =>
      match (do let sg ← Pe.segmentNew T seg; Pe.segFindChild T sg (String.ofList (unhex hx.toList))) with
      | .ok (n, _) => "ok " ++ n
      | .error e => "exc " ++ e.show
    | none => "bad-args"
  | ["RESC", ver, fld, hx] =>
    match tablesFor ver with
    | some T =>
      match (do let f ← Pe.fieldNew T (some fld) none false none; Pe.fieldTraverse T f (String.ofList (unhex hx.toList))) with
      | .ok (n, none) => "ok " ++ n
      | .ok (n, some k) => "ok " ++ n ++ "/" ++ k
      | .error e => "exc " ++ e.show
    | none => "bad-args"
  | ["SEG", ver, lvl, _dlvl, ec, hx] =>
    match tablesFor ver, parseEC ec with
    | some T, some ec =>
      showR (do let sg ← Pe.segment T (unhex hx.toList) ec (lvl == "S"); Pe.encSegment T ec sg)
    | _, _ => "bad-args"
  | ["MSG", lvl, dlvl, dver, fg, hx] =>
    let d : Defaults := { Defaults.std with strict := dlvl == "S", version := dver }
    match Msg.parseMessage Hl7.Gen.tables d (unhex hx.toList) (lvl == "S") (fg == "1") with
    | .error e => "exc " ++ e.show
    | .ok m =>
      match tablesFor m.version with
      | none => "bad-version"
      | some T =>
        match Msg.encMessage T m with
        | .ok t => "ok " ++ tohex t ++ " " ++ showNodes m.kids
        | .error e => "encexc " ++ e.show ++ " " ++ showNodes m.kids
  | ["VALM", lvl, fg, hx] =>
    match Msg.parseMessage Hl7.Gen.tables Defaults.std (unhex hx.toList) (lvl == "S") (fg == "1") with
    | .error e => "exc " ++ e.show
    | .ok m =>
      match tablesFor m.version with
      | none => "bad-version"
      | some T =>
        match Val.validateMessage T m with
        | .ok errs => "ok " ++ "|".intercalate (errs.map (·.show))
        | .error e => "valexc " ++ e.show
  | ["PMSG", lvl, fg, keys, edits, hx] =>
    -- parse_message(text, message_profile=p) ; to_er7 ; validate against the profile
    let p := parseProfile keys edits
    match Prof.parseMessageP Hl7.Gen.tables Defaults.std p (unhex hx.toList) (lvl == "S") (fg == "1") with
    | .error e => "exc " ++ e.show
    | .ok m =>
      match tablesFor m.version with
      | none => "bad-version"
      | some T0 =>
        let T := Prof.applyAll p.edits T0
        let enc := match Msg.encMessage T m with
          | .ok t => "ok " ++ tohex t ++ " " ++ showNodes m.kids
          | .error e => "encexc " ++ e.show ++ " " ++ showNodes m.kids
        let val := match Val.validateMessage T m with
          | .ok errs => "ok " ++ "|".intercalate (errs.map (·.show))
          | .error e => "valexc " ++ e.show
        enc ++ " # " ++ val
  | ["CASC", ec, nf, hx] =>
    -- the cascade of C01 on a segment body: canonical?  enc (parse body)  leaves with their positional paths
    match parseEC ec with
    | some ec =>
      let ls : List Casc.Lvl := [.pos ec.field nf.toNat!, .rep ec.rep, .pos ec.comp 64, .pos ec.sub 64]
      let body := unhex hx.toList
      let t := Casc.parse ls body
      (if Casc.canonB ls body then "canon " else "noncanon ") ++ tohex (Casc.enc ls t) ++ " " ++
        ";".intercalate ((Casc.paths ls t).map (fun p => ".".intercalate (p.1.map toString) ++ "=" ++ tohex p.2))
    | none => "bad-ec"
  | ["VALS", ver, lvl, ec, hx] =>
    match tablesFor ver, parseEC ec with
    | some T, some ec =>
      match Pe.segment T (unhex hx.toList) ec (lvl == "S") with
      | .error e => "exc " ++ e.show
      | .ok sg =>
        match Val.validSeg T sg true with
        | .ok errs => "ok " ++ "|".intercalate (errs.map (·.show))
        | .error e => "valexc " ++ e.show
    | _, _ => "bad-args"
  | ["BADSEGS", ver] =>
    -- executable version of the table obligation `segWF`: segment entries that are not well formed and not guard-listed
    match tablesFor ver with
    | some T => "ok " ++ ",".intercalate ((WF.badSegments T).filter (fun n => !(Hl7.Gen.Known.segExcluded ver).contains n))
    | none => "bad-args"
  | ["HEAP", nodes, maxreps, ops] => heapRun nodes maxreps ops
  | ["MTYPE", hx] =>
    match Msg.getMessageType (unhex hx.toList) with
    | .ok o => "ok " ++ optHex o
    | .error e => "exc " ++ e.show
  | ["MINFO", hx] =>
    match Msg.getMessageInfo (unhex hx.toList) with
    | .ok (ec, st, ver) => "ok " ++ tohex ([ec.field, ec.comp, ec.sub, ec.rep, ec.esc] ++ ec.trunc.toList) ++ " " ++ optHex st ++ " " ++ optHex ver
    | .error e => "exc " ++ e.show
  | ["MLLP", types, raising, err, evs] =>
    let ts := (types.splitOn ",").filter (· != "-") |>.map (fun h => unhex h.toList)
    let rs := (raising.splitOn ",").filter (· != "-") |>.map (fun h => unhex h.toList)
    let hs := mkHandlers ts rs (err == "1")
    let o := Mllp.handle hs (parseEvents evs)
    "inv=" ++ ",".intercalate (o.invocations.map (showInv (ts ++ rs))) ++ " reply=" ++ (match o.reply with | some r => tohex r | none => "-")
      ++ " closed=" ++ (if o.closed then "1" else "0")
  | _ => "bad-op"

partial def loop (h : IO.FS.Stream) (out : IO.FS.Stream) : IO Unit := do
  let line ← h.getLine
  if line.isEmpty then return ()
  out.putStrLn (handle (line.dropEndWhile (· == '\n')).toString)
  loop h out

def main : IO Unit := do
  let out ← IO.getStdout
  loop (← IO.getStdin) out
