"""C11 on the real objects: read chains of depth 1-4 through children that do not exist yet, then one write at the end.

A job navigates message -> [group ->] segment -> field -> [component -> [subcomponent]] by attribute reads, any number of
times, interleaved with len / iteration / repr / to_er7 / validate, and compares a full snapshot of the message before and
after; then it assigns a value at the end of the chain and checks that the only new elements are the ones on the chain
(once each, each listed by the element before it) plus the content of the assigned value, and that the message encodes the
value at the position the tables define.
"""
import vlib


def tree(el):
    if el.classname == 'SubComponent':
        return (el.name,)
    return (el.name, tuple(tree(c) for c in el.children))


def reachable(el, acc):
    acc[id(el)] = el
    if el.classname != 'SubComponent':
        for c in el.children:
            reachable(c, acc)
    return acc


def snapshot(m):
    try:
        enc = m.to_er7()
    except Exception as e:  # noqa
        enc = 'ENC-EXC:' + vlib.exc_name(e)
    try:
        val = m.validate(return_errors=True)
        val = (val[0], sorted(str(x) for x in val[1])) if isinstance(val, tuple) else val
    except Exception as e:  # noqa
        val = 'VAL-EXC:' + vlib.exc_name(e)
    return enc, tree(m), val


def standalone_job(a):
    """(version, segment, [field, component, sub]): the same reads — and the read of `.value` — on a free-standing Segment that holds nothing
    (a standalone MSH has no MSH-1 / MSH-2: seed C11-h). A read may raise; it may not write."""
    from hl7apy.core import Segment
    v, S, names = a
    try:
        s = Segment(S, version=v)
    except Exception as e:  # noqa
        return 'ok mk:' + vlib.exc_name(e)
    base = snapshot(s)
    names = [n.lower() for n in names if n]
    for r in range(2):
        for depth in range(1, len(names) + 1):
            for what in ('len', 'iter', 'repr', 'to_er7', 'value', 'index', 'children', 'validate'):
                try:
                    x = s
                    for n in names[:depth]:
                        x = getattr(x, n)
                    if what == 'len':
                        len(x)
                    elif what == 'iter':
                        [y for y in x]
                    elif what == 'repr':
                        repr(x)
                    elif what == 'to_er7':
                        x.to_er7()
                    elif what == 'value':
                        x.value
                    elif what == 'index':
                        x[0]
                    elif what == 'children':
                        list(x.children)
                    else:
                        x.validate(return_errors=True)
                except Exception:  # noqa
                    pass
                now = snapshot(s)
                if now != base:
                    return 'read-wrote standalone %s: %s of %s (pass %d): before=%r after=%r' % (S, what, '.'.join(names[:depth]), r, base[:2], now[:2])
    return 'ok 0'


def chain_job(a):
    """a = dict(version, structure, groups=[...], segment, field, component|None, sub|None, spelling='name'|'path', value, reads, expected_line)"""
    try:
        return _chain_job(a)
    except Exception as e:  # noqa
        import traceback
        return 'HARNESS ' + vlib.exc_name(e) + ' ' + traceback.format_exc()[-400:].replace('\n', ' / ')


def _chain_job(a):
    from hl7apy.core import Message
    m = Message(a['structure'], version=a['version'])
    m.msh.msh_7 = '20200101'       # Message() stamps MSH-7 with now(): two messages built at different instants are compared below
    m.msh.msh_9 = 'ADT^A01'
    base = snapshot(m)
    names = [g.lower() for g in a['groups']] + [a['segment'].lower(), a['field'].lower()]
    if a['component']:
        names.append(a['component'].lower())
    if a['sub']:
        names.append(a['sub'].lower())

    def nav(upto):
        x = m
        for n in names[:upto]:
            x = getattr(x, n)
        return x
    if a.get('refuse'):
        # a refused write at the end of the chain (an element of another HL7 version, or of the other validation level) must
        # raise and materialise nothing: the message looks as it did before the call (C12 on a target reached by traversal)
        from hl7apy.core import Field, Component, SubComponent
        cls = SubComponent if a['sub'] else Component if a['component'] else Field
        other_v = '2.4' if a['version'] != '2.4' else '2.5'
        for how in ('version', 'level'):
            try:
                bad = cls(names[-1].upper(), version=other_v) if how == 'version' else cls(names[-1].upper(), version=a['version'], validation_level=1)
            except Exception:  # noqa
                continue
            try:
                setattr(nav(len(names) - 1), names[-1], bad)
                outcome = 'accepted'
            except Exception as e:  # noqa
                outcome = vlib.exc_name(e)
            now = snapshot(m)
            if outcome != 'accepted' and now != base:
                return 'refused-write-changed-root how=%s raised=%s before=%r after=%r' % (how, outcome, base[:2], now[:2])
            if outcome == 'accepted':
                return 'ok 0'          # (the library accepted it: nothing to say about atomicity; mismatches are refused elsewhere)
    if a.get('valuewrite') is not None:
        # the first write spelled `chain.value = v` (through the proxy of the last link, at any depth 1..len) — values that carry no content
        # ('' , '^^', a bare segment name) included — must do what the equivalent assignment `parent.<last> = v` does on a fresh message:
        # materialise the chain (C11: a write, whatever it writes, creates exactly the path read)
        depth, v = a['valuewrite']
        depth = max(1, min(depth, len(names)))
        m2 = Message(a['structure'], version=a['version'])
        m2.msh.msh_7 = '20200101'
        m2.msh.msh_9 = 'ADT^A01'

        def nav2(upto):
            x = m2
            for n in names[:upto]:
                x = getattr(x, n)
            return x
        try:
            nav(depth).value = v
            o1 = 'ok'
        except Exception as e:  # noqa
            o1 = vlib.exc_name(e)
        try:
            setattr(nav2(depth - 1), names[depth - 1], v)
            o2 = 'ok'
        except Exception as e:  # noqa
            o2 = vlib.exc_name(e)
        s1, s2 = snapshot(m), snapshot(m2)
        if o1 != 'ok' and s1 != base:
            return 'refused-value-write-changed-root depth=%d value=%r raised=%s before=%r after=%r' % (depth, v, o1, base[:2], s1[:2])       # (C12; defect D36)
        # (the two spellings may refuse with different exception classes; what must agree is whether they accept, and what they leave behind)
        if (o1 == 'ok') != (o2 == 'ok') or s1[:2] != s2[:2]:
            return 'value-write-differs-from-assignment depth=%d value=%r: .value -> %s %r ; assignment -> %s %r' % (depth, v, o1, s1[:2], o2, s2[:2])
        if o1 == 'ok':
            x = m
            for n in names[:depth]:
                p = getattr(x, n)
                if len(p) != 1 or p[0].parent is not x or sum(1 for y in x.children if y is p[0]) != 1:
                    return 'value-write-did-not-materialise %s (depth=%d value=%r)' % (n, depth, v)
                x = p[0]
        return 'ok 0'
    total = 0
    for rnd in range(a.get('rounds', 1)):
        value = a['value'] if rnd == 0 or a['value'] != 'X' else 'X%d' % rnd
        expected_line = a['expected_line'] if value == a['value'] else a['expected_line'][:-len(a['value'])] + value
        for r in range(a['reads']):
            for depth in range(1, len(names) + 1):
                x = nav(depth)
                len(x)
                [y for y in x]
                repr(x)
                try:
                    x.to_er7()
                except Exception:  # noqa
                    pass
                if r % 2:
                    try:
                        x[0]
                    except IndexError:
                        pass
            now = snapshot(m)
            if now != base:
                return 'read-wrote round=%d depth=%d pass=%d before=%r after=%r' % (rnd, len(names), r, base[:2], now[:2])
        before = reachable(m, {})
        parent = nav(len(names) - 1)
        setattr(parent, names[-1], value)
        after = reachable(m, {})
        new = [e for i, e in after.items() if i not in before]
        # the chain, as now materialised
        chain = []
        x = m
        for n in names:
            p = getattr(x, n)
            if len(p) != 1:
                return 'chain-element-count %s: %d' % (n, len(p))
            c = p[0]
            if c.parent is not x or sum(1 for y in x.children if y is c) != 1:
                return 'chain-element-not-listed-once %s' % n
            if c.traversal_parent is not None:
                return 'chain-element-still-traversal %s' % n
            chain.append(c)
            x = c
        last = chain[-1]
        inside = reachable(last, {})
        for e in new:
            if not any(e is c for c in chain) and id(e) not in inside:
                return 'extra-element %s under %s' % (e.name, e.parent.name if e.parent is not None else None)
        for c in chain:
            if id(c) in before:
                return 'chain-element-existed %s' % c.name
        enc = m.to_er7()
        lines = enc.split('\r')
        if lines[1:] != [expected_line]:
            return 'encoding got=%r expected=%r' % (lines[1:], expected_line)
        # nothing left behind in the shadow index along the chain
        x = m
        for c in chain:
            if any(c is y for l in x.children.traversal_indexes.values() for y in l):
                return 'chain-element-left-in-traversal-index %s' % c.name
            x = c
        total += len(new)
        if rnd + 1 < a.get('rounds', 1):
            # delete what the write created and start again: the element must look as it did at the beginning
            delattr(m, names[0])
            now = snapshot(m)
            if now != base:
                return 'delete-did-not-restore round=%d before=%r after=%r' % (rnd, base[:2], now[:2])
            try:
                leaf = nav(len(names)).to_er7()
            except Exception as e:  # noqa
                leaf = 'EXC ' + vlib.exc_name(e)
            if leaf not in ('', None):
                return 'read-after-delete-sees-old-value round=%d value=%r' % (rnd, leaf)
    return 'ok %d' % total
