#!/usr/bin/env python3
"""Seeded-change bookkeeping.

  seed.py collect <name> <property> <worktree>   copy patch/demo/note from a sub-agent's scratch worktree into /verif/seeded/<name>/
  seed.py confirm <name>                          in a fresh scratch worktree of /repo: suite passes with the patch, demo fails with it and passes without
  seed.py run <name> [checks...]                  apply the patch to /repo, run the named checks (default: the property's), undo; record the outcome in meta.json
"""
import json, os, subprocess, sys, shutil, time

VERIF = os.path.dirname(os.path.dirname(os.path.abspath(__file__)))
SEEDED = os.path.join(VERIF, 'seeded')
PY = '/venv/bin/python'
REPO = os.environ.get('HL7APY_REPO', '/repo')     # a snapshot of /repo when the seeds are re-run in parallel (vp run --with-repo)


def sh(cmd, **kw):
    return subprocess.run(cmd, stdout=subprocess.PIPE, stderr=subprocess.STDOUT, text=True, **kw)


def meta_path(name):
    return os.path.join(SEEDED, name, 'meta.json')


def load(name):
    try:
        return json.load(open(meta_path(name)))
    except FileNotFoundError:
        return {}


def save(name, m):
    json.dump(m, open(meta_path(name), 'w'), indent=1)


def collect(name, prop, wt):
    d = os.path.join(SEEDED, name)
    os.makedirs(d, exist_ok=True)
    diff = sh(['git', '-C', wt, 'diff', '--', 'hl7apy']).stdout
    open(os.path.join(d, 'patch.diff'), 'w').write(diff)
    for f in ('demo.py', 'NOTE.md'):
        if os.path.exists(os.path.join(wt, f)):
            shutil.copy(os.path.join(wt, f), os.path.join(d, f))
    m = load(name)
    m.update({'property': prop, 'files_changed': [l[6:] for l in diff.splitlines() if l.startswith('+++ b/')],
              'needs_to_manifest': m.get('needs_to_manifest', ''), 'origin': 'independent sub-agent given only the property text and a scratch worktree'})
    save(name, m)
    print('collected', name, m['files_changed'], len(diff), 'bytes')


def confirm(name):
    d = os.path.join(SEEDED, name)
    wt = '/tmp/seedconfirm-%s-%d' % (name, os.getpid())
    sh(['git', '-C', '/repo', 'worktree', 'add', '--detach', wt, 'HEAD'])
    try:
        env = dict(os.environ, PYTHONPATH=wt, PYTHONDONTWRITEBYTECODE='1')
        shutil.copy(os.path.join(d, 'demo.py'), os.path.join(wt, 'demo.py'))
        clean = sh([PY, 'demo.py'], cwd=wt, env=env, timeout=600)
        ap = sh(['git', '-C', wt, 'apply', os.path.join(d, 'patch.diff')])
        if ap.returncode != 0:
            print('patch does not apply:', ap.stdout)
            return 1
        for attempt in range(4):
            suite = sh([PY, '-m', 'pytest', '-q', '-p', 'no:cacheprovider'], cwd=wt, env=env, timeout=900)
            if suite.returncode == 0 or 'Address already in use' not in suite.stdout:
                break
            time.sleep(20)          # tests/test_mllp.py binds fixed ports: another suite run was holding them
        demo = sh([PY, 'demo.py'], cwd=wt, env=env, timeout=600)
        m = load(name)
        m['confirmed'] = {'demo_unchanged_rc': clean.returncode, 'suite_with_patch': suite.stdout.strip().splitlines()[-1] if suite.stdout.strip() else '',
                          'suite_rc': suite.returncode, 'demo_with_patch_rc': demo.returncode, 'demo_with_patch_tail': demo.stdout[-400:],
                          'at': time.strftime('%Y-%m-%dT%H:%M:%S')}
        m['kept'] = (clean.returncode == 0 and suite.returncode == 0 and demo.returncode != 0)
        save(name, m)
        print(json.dumps(m['confirmed'], indent=1))
        print('KEPT' if m['kept'] else 'REJECTED')
        return 0 if m['kept'] else 1
    finally:
        sh(['git', '-C', '/repo', 'worktree', 'remove', '--force', wt])


def run(name, checks):
    d = os.path.join(SEEDED, name)
    m = load(name)
    checks = checks or [m['property']]
    st = sh(['git', '-C', REPO, 'status', '--porcelain']).stdout.strip()
    if st:
        print(REPO + ' is not clean:', st)
        return 2
    ap = sh(['git', '-C', REPO, 'apply', os.path.join(d, 'patch.diff')])
    if ap.returncode != 0:
        print('patch does not apply:', ap.stdout)
        return 2
    res = {}
    # the evidence files under /verif/evidence must describe the unchanged tree: keep them aside while a changed tree is checked
    ev = os.path.join(VERIF, 'evidence')
    saved = {c: open(os.path.join(ev, c + '.json')).read() for c in checks if os.path.exists(os.path.join(ev, c + '.json'))}
    try:
        for c in checks:
            r = sh([os.path.join(VERIF, 'bin', 'check'), c, '--tier', os.environ.get('SEED_TIER', 'quick')], cwd=VERIF, timeout=3600)
            lines = [l for l in r.stdout.splitlines() if l.startswith(('VIOLATION', 'KNOWN-FINDING', c + ' tier', 'INFRA'))]
            viol = [l for l in lines if l.startswith('VIOLATION')]
            replay = None
            if viol:
                pth = viol[0].split('replay=')[1].split(' ')[0]
                try:
                    rp = json.load(open(pth))
                    replay = json.dumps(rp.get('what') or rp.get('no_longer_checks'))[:600]
                except Exception:  # noqa
                    pass
            res[c] = {'rc': r.returncode, 'detected': r.returncode == 1, 'lines': [l[:300] for l in lines if not l.startswith('KNOWN-FINDING')], 'replay_excerpt': replay}
            print(c, 'rc=%d' % r.returncode, (viol[0][:200] if viol else lines[-1][:200] if lines else r.stdout[-300:]))
            if replay:
                print('   ', replay[:400])
    finally:
        sh(['git', '-C', REPO, 'checkout', '--', '.'])
        for c, txt in saved.items():
            open(os.path.join(ev, c + '.json'), 'w').write(txt)
    m.setdefault('check_runs', {})
    m['check_runs'].update(res)
    m['detected_by'] = sorted(c for c, v in m['check_runs'].items() if v.get('detected'))
    save(name, m)
    return 0


if __name__ == '__main__':
    a = sys.argv[1:]
    if a[0] == 'collect':
        collect(a[1], a[2], a[3])
    elif a[0] == 'confirm':
        sys.exit(confirm(a[1]))
    elif a[0] == 'run':
        sys.exit(run(a[1], a[2:]))
