#!/bin/bash
# runs the given checks at a tier against a private copy of the repository (vp run --with-repo): one line per check
# usage: vp run --with-repo -- tools/run_tier.sh thorough C01 C02 ...
cd "$(dirname "$0")/.."
export HL7APY_REPO=${VP_RUN_REPO:-/repo}
tier=$1; shift
/venv/bin/python tools/gen_tables.py > /dev/null && (cd lean && lake build > /dev/null 2>&1)
for p in "$@"; do
  s=$(date +%s)
  out=$(bin/check $p --tier $tier 2>&1); rc=$?
  echo "$p rc=$rc $(( $(date +%s) - s ))s $(echo "$out" | grep -E "^VIOLATION|INFRA|Traceback" | head -3 | cut -c1-300) $(echo "$out" | tail -1 | cut -c1-200)"
done
echo ALLDONE
