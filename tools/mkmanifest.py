#!/usr/bin/env python3
"""Writes /verif/MANIFEST.json from the table below (keep claims and reality in one place)."""
import json, os
VERIF = os.path.dirname(os.path.dirname(os.path.abspath(__file__)))

HIST_NOTE = ("History independence: results computed once are recomputed for a sample in one process and in another order (Check.again), and the checks "
             "that a memo could confuse interleave what it would be keyed on (two references of one name, delimiter sets differing in one role, the same "
             "structure name in all versions, TOLERANT before STRICT, long-lived threads across a change of the defaults). ")
NOTE_COMMON = ("Trusted: Lean 4.33 kernel; axioms ⊆ {propext, Classical.choice, Quot.sound} (audited with #print axioms on every run, "
               "no sorry/axiom/native_decide); the translator tools/gen_tables.py; the hand model of the Python primitives and of hl7apy's "
               "algorithms, tied to /repo only by this run's correspondence check (differential; reach bounded by its generators); "
               "CPython/re/datetime/decimal are modelled, not verified. " + HIST_NOTE)

CLAIMS = {
    'C06': dict(
        text="Lean theorems for every string and every valid delimiter set (no length bound): delimiter-free output, zero separator count, "
             "idempotence, fixed-point characterisation, already-escaped text unchanged; tokenisation proved under the guard 'no escape "
             "character in the input' with a kernel-checked counterexample for the unguarded statement (finding D5). The model "
             "Hl7.Escape.escape is tied to /repo by a correspondence run against every textual class of every version.",
        note=NOTE_COMMON + "Highlights are not modelled; delimiters are single characters.",
        technique="Lean 4 proof (induction over the string) + differential correspondence model vs implementation",
        design="DESIGN.md §5 C06"),
    'C13': dict(
        text="Lean theorems over the model of datatype_factory / strptime / Decimal / int for every string: TOLERANT is total and keeps rejected text "
             "verbatim, STRICT raises only ValueError/MaxLengthReached, the max-length clause, DT length discipline, SI rejection of non-digits and "
             "SI round trip on 0..999 by kernel evaluation. The clause 'STRICT acceptance = HL7 lexical definition' is FALSE of the code (finding D10, "
             "seven kernel-checked witnesses, one per root cause); outside those causes it is decided by the exhaustive-grid correspondence plus an "
             "independent HL7 lexical oracle run on the implementation (partial: not a theorem).",
        note=NOTE_COMMON + "Model domain excludes '_' digit separators, non-ASCII digits and Decimal's inf/nan (answered Unsupported, reported as finding D10i/D10e "
             "by the implementation-side oracle); no newline inside DT/TM/DTM values.",
        technique="Lean 4 proof (case analysis over the model, decide +kernel on finite domains and generated tables) + exhaustive-grid differential correspondence",
        design="DESIGN.md §5 C13"),
    'C15': dict(
        text="Lean theorems for every string: get_message_type / get_message_info (the functions the MLLP server routes on) return or raise ParserError / "
             "InvalidEncodingChars, never a crash, and parse_message fails exactly as the header does before touching the tables. Beyond the header: the constructor of "
             "a segment (Hl7.Pe.segmentNew = Segment(name), the first thing parse_segment does with a line) cannot crash on a table entry that passes WF.segOk, for every "
             "spelling of the name (C15_segmentNew_wf), and — through the per-version kernel evaluation segWF over the regenerated tables — for EVERY name not on the "
             "guard list of finding D2, in each of the 12 versions (ObV*.segmentNew_nocrash). For the rest of parse_message / "
             "to_er7 / validate the model keeps every partial Python operation as an explicit crash branch and is compared with /repo on truncation-at-"
             "every-byte, mutation and junk streams (exception class included); the implementation-side oracle decides the property there (partial: "
             "reachability of the crash branches is not a theorem; it is false for the malformed table rows of finding D2).",
        note=NOTE_COMMON + "validate() is run with the standard tables; cased non-ASCII input and multi-character delimiters are outside the model.",
        technique="Lean 4 proof (case analysis of the header parser; induction over the table rows lifted by decide +kernel over the regenerated tables) + differential correspondence on malformed input incl. exception kinds",
        design="DESIGN.md §5 C15"),
    'C01': dict(
        text="Proved for all inputs: C01_cascade - for EVERY list of levels (positional levels of any width and separator, repetition levels, any depth) and every text canonical "
             "for it, splitting level by level down to the leaves, filing the non-empty pieces under their positions and encoding back in table order with trailing empties "
             "trimmed returns the text character for character (instance: the four ER7 levels of a segment body, any delimiter set); the recursive model Hl7.Casc is compared with "
             "the REAL element tree (positional paths of every leaf, and to_er7) on every canonical segment text of the run. Also the one-level round trip on string-named children "
             "(split, name pieces by ordinal, file under the table's row names in order, trim, join = identity on text "
             "with no trailing empty piece, any separator, any table length) and, per version by kernel evaluation over the regenerated tables, that every segment "
             "not on the guard list has exactly the gap-free ordered shape that lemma needs, two datatype levels down. That the full parser/encoder model "
             "(Hl7.Pe, Hl7.Msg, with all validation branches) is that cascade is NOT yet a theorem: it is tied to /repo and to the property by the canonical "
             "round-trip correspondence + implementation-side oracle at segment, field, component and message level (partial).",
        note=NOTE_COMMON + "Canonical texts are those of tools/gen.py (leaves from pools the datatype layer reproduces); arbitrary leaf text is decided by C06/C13.",
        technique="Lean 4 proof (induction; decide +kernel over regenerated tables) + differential correspondence on type-directed canonical text",
        design="DESIGN.md §5 C01"),
    'C02': dict(
        text="Proved for every level list (any depth, separators, widths) and every path inside the tables: a value alone at the path (i, r, j, k, ...) of the cascade is ENCODED as exactly "
             "p_i separators of each positional level in front of it and nothing else (C02_cascade_enc), and that text is PARSED back into the tree holding the value at that very path "
             "(C02_cascade_parse; value non-empty and free of the pairwise distinct separators). One level: a value filed under position i is rendered after exactly i separators "
             "and nothing else (also the open-ended case for any N); per version by kernel evaluation: tables gap-free and ordered (segWF) and every declared segment instantiable in the model of the "
             "constructor, which keeps each partial Python operation as a crash branch (segInstantiable). The thorough tier compares model and /repo on EVERY "
             "segment position and every component/subcomponent position of every complex datatype of all 12 versions; quick does two versions by seed plus samples.",
        note=NOTE_COMMON + "Probe values are short literals valid for the position's datatype; TOLERANT level; default delimiters.",
        technique="Lean 4 proof + decide +kernel over regenerated tables + exhaustive differential correspondence over table positions",
        design="DESIGN.md §5 C02"),
    'C14': dict(
        text="Proved for every name: resolution depends on a spelling only through its upper-case form (segment and field level incl. positional paths); whatever a "
             "name resolves to is a declared child (or a well-formed <SEG>_<n> of an open-ended segment); otherwise only ChildNotFound / ChildNotValid. Per version by "
             "kernel evaluation: row names distinct, long names never collide with row names. Exhaustive correspondence + oracle (write, read and delete through "
             "every spelling) over all versions in the thorough tier.",
        note=NOTE_COMMON + "Long names equal to an attribute of the element class are excluded by the property itself; TOLERANT level.",
        technique="Lean 4 proof (case analysis of the resolution functions; decide +kernel over tables) + exhaustive differential correspondence",
        design="DESIGN.md §5 C14"),
    'C03': dict(
        text="Proved on the full model of parse_segments (group finder as a zipper, with its admission checks), for every structure, text and level: with group "
             "finding on, the flattened tree is a sublist in document order of the segments parsed from the input lines, each kept segment being the parse of its "
             "own line (nothing reordered, duplicated or invented); with group finding off every non-empty line becomes exactly one segment (nothing dropped). "
             "'Never a shorter message' is FALSE with group finding on (finding D4): kernel-checked witness C03_witness_drop. Inside a segment, on the cascade model (Hl7.Casc, compared with the real element tree under C01): "
             "C03_parse_keeps_every_piece - for every list of levels and EVERY text (canonical or not, trailing empty pieces, more pieces than positions) the leaves of the "
             "parsed tree, in order, are exactly the pieces the text consists of; and C03_encode_keeps_every_piece - for every list of levels with pairwise distinct separators and every text "
             "that fits the widths (canonical or not: trailing empties, empty repetitions, components made of separators only) enc(parse s) consists of the same pieces in the same order. "
             "Fields beyond the table width (overflow) and the tie of the full parser model to the cascade are decided by the correspondence + oracle (partial); every "
             "parse result is also recomputed in another order in one process (history independence).",
        note=NOTE_COMMON + "Leaf values are canonical; the within-segment leaf clause is a theorem on the cascade model (parse: every text; encode: texts within the table widths).",
        technique="Lean 4 proof (induction over the line fold with a zipper invariant) + kernel-checked counterexample + differential correspondence",
        design="DESIGN.md §5 C03"),
    'C08': dict(
        text="Same theorems as C03 for order preservation and determinism (every structure, every input), plus C08_sound: every group node of the resulting tree is a declared "
             "group row of the element it sits in, with exactly the declared structure, at every depth (zipper invariant preserved by every step; mutual induction over the "
             "reference search). That each SEGMENT is a declared child of its group, equality of "
             "encodings with groups on/off, and exactness of the tree for unique-name structures are decided by the correspondence and the implementation-side "
             "oracle over instances derived from the structures (thorough: every structure of every version); exactness is false for non-anchored repeatable groups "
             "(finding D16) and validation is impossible for structures with duplicate rows (finding D17).",
        note=NOTE_COMMON + "Segment-level soundness and exactness are not theorems (partial).",
        technique="Lean 4 proof (zipper invariant) + differential correspondence on instances generated from every structure",
        design="DESIGN.md §5 C08"),
    'C07': dict(
        text="Proved for every delimiter set: check_encoding_chars accepts exactly the sets with the five required roles present and all supplied characters (TRUNCATION "
             "included) pairwise distinct; the header spelled from a set (MSH FIELD MSH-2 FIELD ...) is read back by _split_msh as exactly that set; and on the cascade model (Hl7.Casc, compared with the real element tree under C01) every character of an encoding is a leaf character "
             "or the separator of one of the levels handed to the encoder, at every depth, for every tree (C07_only_own_separators). That every separator "
             "of the body comes from the set, that every descendant reports it, that parse_message(to_er7()) recovers set and encoding, and the to_mllp framing are "
             "decided by the correspondence + oracle over random sets and all 720 role permutations of one 6-character set (thorough) on messages built through the API "
             "(partial: the element graph is modelled under C09-C12).",
        note=NOTE_COMMON + "Single-character punctuation delimiters not occurring in the header's own values.",
        technique="Lean 4 proof (case analysis; split/join lemmas) + differential correspondence on API-built messages",
        design="DESIGN.md §5 C07"),
    'C16': dict(
        text="Proved on the model of MLLPRequestHandler.handle (event script -> invocations, reply, closed): the outcome depends only on the concatenated bytes for EVERY "
             "splitting into TCP writes (any number of chunks, empty ones included; induction + the lemma that the initial recv(3) cannot straddle a frame end); to_mllp "
             "frames are extracted exactly; registered type -> that handler once, unregistered -> ERR with UnsupportedMessageType, non-HL7 -> ERR with InvalidHL7Message, "
             "no ERR handler -> nothing; input not starting with SB or timing out invokes nothing; every outcome closes. Tied to /repo by a scripted fake socket driving "
             "the real handler (all <=3-way splittings, random <=8-way, stall/EOF after every prefix, malformed frames) and supported by a real-socket run with "
             "concurrent clients. PARTIAL for simultaneous clients: ThreadingTCPServer, sockets and real-time timeouts are runtime behaviour the model cannot exhibit.",
        note=NOTE_COMMON + "Handlers are deterministic functions of the message; the handlers map is read-only (checked in the real-socket run).",
        technique="Lean 4 proof (induction over chunk lists with a well-founded read loop) + differential correspondence through a scripted socket",
        design="DESIGN.md §5 C16"),
    'C17': dict(
        text="In the model the three process-wide defaults are one explicit value d : Defaults passed to exactly the functions whose Python counterparts call get_default_*. "
             "After the repairs of findings D12, D14, D15 only parse_message reads it, and only for the version when MSH-12 is absent: proved that parse_message is "
             "independent of d whenever the text states its version, and recorded (as a theorem about the signatures) that factory, parse_segment/field/component, "
             "assignment, encoders and check_encoding_chars take no Defaults at all. That the CODE reads defaults nowhere else is checked by sweeping "
             "set_default_version/level/encoding_chars (all 72 settings in the thorough tier) around a corpus of explicit-argument calls: results must agree with each "
             "other and with the model given the same Defaults; existing elements must not change when defaults do.",
        note=NOTE_COMMON + "A parentless element encoded or assigned without a delimiter argument reads the default by documented design (outside 'given explicitly').",
        technique="Lean 4 proof (defaults as an explicit parameter; independence by construction and by unfolding) + defaults-sweep differential correspondence",
        design="DESIGN.md §5 C17"),
    'C19': dict(
        text="PARTIAL BY NATURE. Proved: for threads whose atomic steps write no shared state, EVERY schedule gives every thread exactly its solo result and never changes "
             "the shared state (any number of threads, any schedule); the model's API entry points are functions of (shared tables, arguments) and hence read-only steps; "
             "the variant of datatype_factory that overrides the shared BASE_DATATYPES map in place (the defect fixed in hl7apy 1.3.5) is not read-only and breaks a later "
             "call (kernel-checked). Checked on /repo, not proved: the real calls write no shared state (recording BASE_DATATYPES maps, before/after comparison of every "
             "module-level table and default) and a thread stress run with a 1 microsecond switch interval reproduces the sequential results call by call.",
        note=NOTE_COMMON + "CPython bytecode interleaving, the import lock and the GIL are runtime behaviour the model cannot exhibit; the stress run is a search, not a proof.",
        technique="Lean 4 proof (induction over schedules) + shared-write monitor and thread stress on the implementation",
        design="DESIGN.md §5 C19"),
    'C09': dict(
        text="Proved on the element-graph model Hl7.Heap (nodes with parent / traversal-parent pointers, ordered child list, shadow index; operations keep the heap on "
             "errors), for every heap, every structure and all arguments: a successful append puts the child at the end of the parent's list, once, and changes no other "
             "list except that the previous parent loses the child; remove deletes exactly the addressed child and touches no other list; insert keeps the position; a "
             "successful replace_child edits the list in place (l.set (l.idxOf old) new = the reference model's replacement on a duplicate-free list). The per-name view is "
             "the list filtered by name. That the API operations (set by name / long name / index, add, add_<child>, del, remove, copies, re-attachment) reduce to these and "
             "that the ENCODING equals the ordered-list reference model is decided by the API-history harness on Segment and Message roots (partial: the encoder over the graph is not a theorem here).",
        note=NOTE_COMMON + "Structure knowledge (_is_valid_child, cardinalities) is an abstract parameter of the model; ElementList.set's lookup of the addressed repetition is exercised, not proved.",
        technique="Lean 4 proof (case analysis per path of each operation; list lemmas) + differential correspondence of random histories on real objects + ordered-list reference model on API histories",
        design="DESIGN.md §5 C09-C12"),
    'C10': dict(
        text="Proved: the invariant Inv (no element lists a child twice; every listed child exists and reports the listing element as its parent, hence is listed by no other "
             "element; a listed child has the validation level and version of the element listing it) is preserved by EVERY operation of the core - append, insert, remove, "
             "replace_child, the parent setter in both directions, the traversal-parent setter, promotion of a traversal chain - accepted or rejected, for every heap, every "
             "structure and all arguments; hence it holds in every state reachable from freshly constructed elements by any sequence of them (C10_reachable, induction over "
             "the history, no length bound). Agreement of len / iteration / indexing / containment / lookup by name with the list is checked on every state of the histories "
             "on real objects (the by-name index is a separate Python dict the model does not carry).",
        note=NOTE_COMMON + "The model's operations are the post-repair ElementList / parent-setter code (findings D8, D9, D23-D26 were violations of this invariant and are repaired in /repo).",
        technique="Lean 4 proof (invariant by induction over operation sequences) + differential correspondence + invariant checker on real object graphs",
        design="DESIGN.md §5 C09-C12"),
    'C11': dict(
        text="Proved on Hl7.Heap: creating a traversal child (what a read of a missing child does) changes no child list and no parent pointer of any node, accepted or rejected; "
             "set_parent_to_traversal on an element that is not a pending traversal child changes none either; a successful promotion appends to each list only elements that were "
             "pending traversal children of that very element, each once, keeping every list's previous content and order (induction over the chain). That attribute reads, len, "
             "iteration, repr, to_er7, validate go through these operations only, and that the first write creates the chain and nothing else at the positions the tables "
             "define, is decided on /repo by the read-chain harness (snapshots of encoding, full tree and validation report before/after reads of depth 1-6 sampled from the "
             "message structures of every version; element census after the write) - partial.",
        note=NOTE_COMMON + "The proxy objects (ElementProxy) and the lookup that decides whether a child is missing are exercised, not modelled.",
        technique="Lean 4 proof (frame lemmas; induction over the promotion chain) + differential correspondence + before/after snapshots on real read chains",
        design="DESIGN.md §5 C09-C12"),
    'C12': dict(
        text="Proved on Hl7.Heap, for every heap, every structure and every cause of rejection: a rejected append, insert, remove, parent assignment or replace_child of a listed child "
             "leaves the WHOLE heap - every child list, every parent and traversal pointer of every node - exactly as it was (for insert: as it was after moving out a child "
             "the element already listed); a rejected replacement of a pending traversal child changes no list and no parent. Rejections that happen above the graph core "
             "(value parsing under STRICT, wholesale replacement of an element's children, datatype change) are decided by before/after observation on API histories with "
             "generated rejection causes (partial).",
        note=NOTE_COMMON + "The traversal-parent setter, used only by create_element on a new element, is not atomic and is excluded. Findings D9a-c, D26, D27 were violations and are repaired in /repo.",
        technique="Lean 4 proof (heap-surviving error monad; case analysis) + differential correspondence incl. exception kinds + before/after observation on API histories",
        design="DESIGN.md §5 C09-C12"),
    'C18': dict(
        text="In the model a message profile is the standard tables with the profile's deviations applied (Prof.applyAll edits T) and every function - parser, group finder, admission, "
             "validator, encoders - takes the tables as a parameter, so precedence of the profile holds in the model by construction and every theorem stated for an arbitrary T "
             "(C01-C05, C08, C14) holds of the profiled tables. Proved: a profile lacking the structure gives MessageProfileNotFound and a legacy entry LegacyMessageProfile, both after "
             "the header errors; with an entry present parsing is the standard parser on the profiled tables; a profile restating the standard changes nothing (no deviations, same "
             "tables; restating a row's own cardinality is the identity edit); a cardinality edit makes every row of that name under that parent carry the profile's values, a "
             "forbid edit leaves no such row, other parents and the by-name fallback tables are untouched. That the IMPLEMENTATION threads the profile's reference down every path is "
             "decided by the correspondence (real library given a profile synthesised from the same edits vs the model on the edited tables: encoding, group tree, validation report, "
             "both levels) and by a creation-path oracle (traversal, add_group / add_segment / add_field under Message(name, reference=profile)) - partial.",
        note=NOTE_COMMON + "Edits are uniform by name inside one profile; path-dependent profiles such as the shipped ITI-21 one (and its max-length deviations) are exercised through the "
             "selection clauses and the repository's own tests only. No 'forbid' edit on open-ended segments.",
        technique="Lean 4 proof (tables as a parameter; list lemmas on the edit functions) + differential correspondence with synthesised profiles + creation-path oracle",
        design="DESIGN.md §5 C18"),
    'C04': dict(
        text="Proved on the model of Validator.validate (structured error list; validated against /repo incl. error order), one structure level at a time and for every "
             "structure and child list: a required row without a matching child yields 'Missing required child'; more children than a row's maximum yields 'Child limit "
             "exceeded'; a non-Z child that is no row yields 'Invalid children detected' naming it; a level whose counts are within bounds, whose children are declared "
             "and whose children's reports are empty reports nothing; the report is a function of the tree, is_valid iff no errors, raising form = first error; and for the WHOLE tree of groups (C04_tree, mutual induction): validNode reports "
             "nothing IFF the node conforms - every child declared or a Z segment, every cardinality met, every child conforming, recursively down to the segments (C04_message for the message level). The "
             "whole-tree equivalence 'conforms iff no errors' is decided on /repo by an independent declarative conformance judgement over generated instances and "
             "single-point mutations (partial); it is false for structures with duplicate rows (finding D17).",
        note=NOTE_COMMON + "Reference = the standard tables, plus references with one row edited: a cardinality grid [min..max] x k occurrences handed to Validator.validate(reference=...), and a same-named reference forbidding one segment interleaved with the standard one (profiles proper: C18); warnings only through the report-file consistency clause.",
        technique="Lean 4 proof (list lemmas over the report assembly) + differential correspondence + independent conformance oracle on mutations",
        design="DESIGN.md §5 C04"),
    'C05': dict(
        text="Proved for every input: a base-datatype value accepted under STRICT is accepted under TOLERANT with the very same object; a child admitted into a message/group "
             "under STRICT is admitted under TOLERANT; STRICT admission refuses the child that would exceed a maximum cardinality; STRICT construction refuses over-long "
             "text. The whole-parser simulation (same text or same API history accepted under STRICT => accepted under TOLERANT with the same encoding and the same "
             "validation report, and drawing only missing-required errors) is decided by a side-by-side correspondence over segments, messages and set/add/delete "
             "histories under both levels (partial).",
        note=NOTE_COMMON + "Histories act on a fresh Segment here; richer histories belong to C09-C12.",
        technique="Lean 4 proof (case analysis per datatype kind and admission check) + side-by-side STRICT/TOLERANT differential correspondence",
        design="DESIGN.md §5 C05"),
}

PENDING = {}
ALL = ['C%02d' % i for i in range(1, 20)]


def main():
    checks = []
    for pid in ALL:
        if pid not in CLAIMS:
            continue
        c = CLAIMS[pid]
        checks.append({
            'property_id': pid,
            'quick_cmd': 'bin/check %s --tier quick' % pid,
            'thorough_cmd': 'bin/check %s --tier thorough' % pid,
            'evidence_file': '/verif/evidence/%s.json' % pid,
            'replay_cmd_template': 'bin/check %s --replay {path}' % pid,
            'engine': 'lean4+correspondence',
            'level_claimed': {'category': 'proof', 'text': c['text'], 'design_ref': c['design']},
            'level_note': c['note'],
            'technique': c['technique'],
        })
    na = [{'property_id': p, 'reason': PENDING.get(p, 'not claimed yet: the Lean model and check for this property are still being built (see DESIGN.md §11 build order); nothing is asserted about it')}
          for p in ALL if p not in CLAIMS]
    m = {
        'version': 1,
        'setup_cmd': '/venv/bin/python tools/gen_tables.py && cd lean && lake build',
        'hooks': {'guard': 'HL7APY_VERIF', 'enable': 'export HL7APY_VERIF=1 (pure-Python package: no build step; the checks import /repo directly)',
                  'baseline_off_cmd': 'cd /repo && env -u HL7APY_VERIF /venv/bin/python -m pytest -q -p no:cacheprovider --timeout=900',
                  'source_commits': [], 'add_only': True},
        'engines': [{'name': 'lean4+correspondence', 'path': 'bin/check',
                     'serves_properties': [c['property_id'] for c in checks],
                     'kind_free_text': 'Lean 4 theorems over a model (lean/Hl7), tables regenerated from /repo by tools/gen_tables.py on every run, '
                                       'hand-written logic tied to /repo by a differential correspondence harness (tools/props/*.py) driving '
                                       'lean/Main.lean through a line protocol'}],
        'checks': checks,
        'not_applicable': na,
        'notes': 'One entry point: bin/check <id> --tier quick|thorough. VERIF_SEED seeds every random choice. Exit 2 = infrastructure error.',
    }
    json.dump(m, open(os.path.join(VERIF, 'MANIFEST.json'), 'w'), indent=1, ensure_ascii=False)
    print('claimed', [c['property_id'] for c in checks], 'not_applicable', len(na))


if __name__ == '__main__':
    main()
