#!/venv/bin/python
"""TRANSLATOR: /repo's declarative tables and constants -> Lean source (lean/Hl7/Gen/*.lean).

Run on every check (DESIGN §3.1 step 1).  It imports hl7apy from the *working tree* (PYTHONPATH
is forced to the repo), walks the Python tuples and prints Lean literals; it interprets nothing.
Each child row's own reference is summarised inline and the flag `same` records whether that
reference is the very object (by identity, else by equality) that the table designated by the
row's class stores under the row's name -- so the kernel obligations can demand it.
Files whose content did not change are left untouched (so `lake` rebuilds nothing for them).
"""
import os, sys, json, hashlib

REPO = os.environ.get('HL7APY_REPO', '/repo')
sys.path.insert(0, REPO)
OUT = os.path.join(os.path.dirname(os.path.abspath(__file__)), '..', 'lean', 'Hl7', 'Gen')

import hl7apy  # noqa: E402
assert os.path.realpath(hl7apy.__file__).startswith(os.path.realpath(REPO)), hl7apy.__file__
from hl7apy import consts  # noqa: E402


def q(s):
    out = ['"']
    for ch in s:
        o = ord(ch)
        if ch == '\\':
            out.append('\\\\')
        elif ch == '"':
            out.append('\\"')
        elif 32 <= o < 127:
            out.append(ch)
        else:
            out.append('\\u{%x}' % o)
    out.append('"')
    return ''.join(out)


def opt(s):
    return 'none' if s is None else '(some %s)' % q(str(s))


def lint(n):
    try:
        n = int(n)
    except Exception:
        n = -1
    return '(%d)' % n


CLS = {'SEG': 'seg', 'GRP': 'grp', 'FIE': 'fie', 'CMP': 'cmp', 'SUB': 'sub'}
TABLE_OF_CLS = {'SEG': 'SEGMENTS', 'GRP': 'GROUPS', 'FIE': 'FIELDS', 'CMP': 'DATATYPES', 'SUB': 'DATATYPES'}


def is_seq(x):
    return isinstance(x, (tuple, list))


class Ver:
    def __init__(self, v):
        self.v = v
        self.lib = hl7apy.load_library(v)
        self.tag = 'V' + v.replace('.', '_')
        self.struct_by_id = {id(rows): n for n, rows in self.lib.DATATYPES_STRUCTS.items()}
        self.anon = []   # synthetic struct entries for row tuples that are no DATATYPES_STRUCTS entry

    def struct_name(self, rows, hint):
        if rows is None:
            return None
        n = self.struct_by_id.get(id(rows))
        if n is not None:
            return n
        for k, r in self.lib.DATATYPES_STRUCTS.items():
            if r == rows:
                return k
        if not is_seq(rows):
            return None
        name = '__anon_%d_%s' % (len(self.anon), hint)
        self.anon.append((name, rows))
        self.struct_by_id[id(rows)] = name
        return name

    def refinfo(self, ref, hint):
        """(kind, arity, dt, long, table, maxlen, struct) of a child's own reference"""
        k = self.refinfo0(ref, hint)
        return (k[0], str(len(ref)) if is_seq(ref) else '0') + k[1:]

    def refinfo0(self, ref, hint):
        none5 = ('none', 'none', 'none', '(-1)', 'none')
        if ref is None:
            return ('RefKind.none',) + none5
        if not is_seq(ref) or not ref or not isinstance(ref[0], str):
            return ('RefKind.malformed %d' % (len(ref) if is_seq(ref) else 0),) + none5
        k = {'leaf': 'RefKind.leaf', 'sequence': 'RefKind.seq', 'choice': 'RefKind.choice'}.get(ref[0])
        if k is None:
            return ('RefKind.malformed %d' % len(ref),) + none5
        if len(ref) == 2:
            return (k,) + none5
        if len(ref) != 6:
            return ('RefKind.malformed %d' % len(ref),) + none5
        struct = None
        if ref[0] != 'leaf':
            struct = self.struct_name(ref[1], hint)
        return (k, opt(ref[2]), opt(ref[3]), opt(ref[4]), lint(ref[5]), opt(struct))

    def row(self, c, parent):
        if not (is_seq(c) and len(c) == 4 and isinstance(c[0], str) and is_seq(c[2]) and len(c[2]) == 2):
            return '⟨%s,Cls.other,0,(0),RefKind.malformed %d,0,none,none,none,(-1),none,false⟩' % (
                q(repr(c)[:40]), len(c) if is_seq(c) else 0)
        name, ref, (mn, mx), cls = c
        k, ar, dt, lg, tb, ml, st = self.refinfo(ref, name)
        t = TABLE_OF_CLS.get(cls)
        same = False
        if t is not None:
            tab = getattr(self.lib, t)
            if name in tab and (tab[name] is ref or tab[name] == ref):
                same = True
        return '⟨%s,Cls.%s,%d,%s,%s,%s,%s,%s,%s,%s,%s,%s⟩' % (
            q(name), CLS.get(cls, 'other'), mn, lint(mx), k, ar, dt, lg, tb, ml, st, 'true' if same else 'false')

    def rows(self, children, parent):
        return '[' + ',\n  '.join(self.row(c, parent) for c in children) + ']'

    def entry(self, name, ref):
        if is_seq(ref) and len(ref) >= 2 and ref[0] in ('sequence', 'choice') and is_seq(ref[1]):
            return '⟨%s,Shape.ok %s,%s⟩' % (q(name), 'RefKind.seq' if ref[0] == 'sequence' else 'RefKind.choice',
                                          self.rows(ref[1], name))
        return '⟨%s,Shape.bad %d,[]⟩' % (q(name), len(ref) if is_seq(ref) else 0)

    def flat_row(self, name, ref, cls):
        k, ar, dt, lg, tb, ml, st = self.refinfo(ref, name)
        return '⟨%s,Cls.%s,0,(0),%s,%s,%s,%s,%s,%s,%s,true⟩' % (q(name), cls, k, ar, dt, lg, tb, ml, st)


def base_kind(dt, cls):
    mro = [c.__module__ + '.' + c.__name__ for c in cls.__mro__]
    names = [c.__name__ for c in cls.__mro__]
    if 'DTM' in names:
        return 'dtm'
    if 'TM' in names:
        return 'tm'
    if 'DT' in names:
        return 'dt'
    if 'NM' in names:
        return 'nm'
    if 'SI' in names:
        return 'si'
    if 'TN' in names:
        return 'tn'
    if 'hl7apy.v2_7.base_datatypes.TextualDataType' in mro:
        return 'text27'
    if 'hl7apy.base_datatypes.TextualDataType' in mro:
        return 'text'
    return 'other'


def base_maxlen(dt, cls):
    for args in ((('1234567',) if dt == 'TN' else ('',)), ()):
        try:
            return getattr(cls(*args), 'max_length', None)
        except (TypeError, ValueError):
            continue
    return None


written = []


def write(name, text):
    path = os.path.join(OUT, name)
    written.append(name)
    try:
        with open(path, encoding='utf-8') as f:
            if f.read() == text:
                return False
    except FileNotFoundError:
        pass
    with open(path + '.tmp', 'w', encoding='utf-8') as f:
        f.write(text)
    os.replace(path + '.tmp', path)
    return True


def chunked_rows(f, items):
    cs = [items[i:i + 128] for i in range(0, len(items), 128)]
    for i, c in enumerate(cs):
        f.append('def c%d : List Row := [\n%s]\n' % (i, ',\n'.join(c)))
    f.append('def all : List Row := %s\n' % (' ++ '.join('c%d' % i for i in range(len(cs))) or '[]'))


def emit_entries(mod, items):
    f = ['import Hl7.Model.Types\nnamespace Hl7.Gen.%s\nopen Hl7.G\nset_option maxRecDepth 4096\n' % mod]
    names = []
    for i, e in enumerate(items):
        f.append('def e%d : Entry := %s\n' % (i, e))
        names.append('e%d' % i)
    cs = [names[i:i + 128] for i in range(0, len(names), 128)]
    for i, c in enumerate(cs):
        f.append('def l%d : List Entry := [%s]\n' % (i, ', '.join(c)))
    f.append('def all : List Entry := %s\n' % (' ++ '.join('l%d' % i for i in range(len(cs))) or '[]'))
    f.append('end Hl7.Gen.%s\n' % mod)
    return ''.join(f)


def main():
    os.makedirs(OUT, exist_ok=True)
    versions = sorted(hl7apy.SUPPORTED_LIBRARIES)
    changed = 0
    summary = {'versions': versions, 'counts': {}}
    for v in versions:
        V = Ver(v)
        lib, tag = V.lib, V.tag
        seg = emit_entries(tag + 'Segments', [V.entry(n, r) for n, r in sorted(lib.SEGMENTS.items())])
        msg = emit_entries(tag + 'Messages', [V.entry(n, r) for n, r in sorted(lib.MESSAGES.items())])
        grp = emit_entries(tag + 'Groups', [V.entry(n, r) for n, r in sorted(lib.GROUPS.items())])
        f = ['import Hl7.Model.Types\nnamespace Hl7.Gen.%sFields\nopen Hl7.G\nset_option maxRecDepth 4096\n' % tag]
        chunked_rows(f, [V.flat_row(n, r, 'fie') for n, r in sorted(lib.FIELDS.items())])
        f.append('end Hl7.Gen.%sFields\n' % tag)
        fld = ''.join(f)
        f = ['import Hl7.Model.Types\nnamespace Hl7.Gen.%sDatatypes\nopen Hl7.G\nset_option maxRecDepth 4096\n' % tag]
        chunked_rows(f, [V.flat_row(n, r, 'cmp') for n, r in sorted(lib.DATATYPES.items())])
        base = []
        for dt, cls in sorted(lib.BASE_DATATYPES.items()):
            ml = base_maxlen(dt, cls)
            base.append('⟨%s, BaseKind.%s, %s⟩' % (q(dt), base_kind(dt, cls), 'none' if ml is None else '(some %d)' % ml))
        f.append('def base : List BaseDt := [%s]\n' % ', '.join(base))
        tabs = sorted(getattr(lib, 'TABLES', {}) or {})
        f.append('def valueTables : List String := [%s]\n' % ', '.join(q(str(t)) for t in tabs))
        f.append('end Hl7.Gen.%sDatatypes\n' % tag)
        dts = ''.join(f)
        # structs last: refinfo may have discovered anonymous row tuples
        items = [(n, '⟨%s,Shape.ok RefKind.seq,%s⟩' % (q(n), V.rows(r, n))) for n, r in sorted(lib.DATATYPES_STRUCTS.items())]
        done = 0
        while done < len(V.anon):   # anonymous structs may nest
            n, r = V.anon[done]
            done += 1
            items.append((n, '⟨%s,Shape.ok RefKind.seq,%s⟩' % (q(n), V.rows(r, n))))
        stc = emit_entries(tag + 'Structs', [e for _, e in items])
        for kind, text in (('Segments', seg), ('Messages', msg), ('Groups', grp), ('Fields', fld),
                           ('Datatypes', dts), ('Structs', stc)):
            changed += write('%s%s.lean' % (tag, kind), text)
        tbl = ('import Hl7.Gen.{t}Segments\nimport Hl7.Gen.{t}Fields\nimport Hl7.Gen.{t}Datatypes\n'
               'import Hl7.Gen.{t}Structs\nimport Hl7.Gen.{t}Messages\nimport Hl7.Gen.{t}Groups\n'
               'namespace Hl7.Gen\nopen Hl7.G\n'
               'def {t} : Tables := ⟨{v}, {t}Segments.all, {t}Fields.all, {t}Datatypes.all, {t}Structs.all, '
               '{t}Messages.all, {t}Groups.all, {t}Datatypes.base, {t}Datatypes.valueTables⟩\nend Hl7.Gen\n'
               ).format(t=tag, v=q(v))
        changed += write('%s.lean' % tag, tbl)
        summary['counts'][v] = {'segments': len(lib.SEGMENTS), 'fields': len(lib.FIELDS), 'datatypes': len(lib.DATATYPES),
                                'structs': len(lib.DATATYPES_STRUCTS), 'anon_structs': len(V.anon),
                                'messages': len(lib.MESSAGES), 'groups': len(lib.GROUPS)}
    # constants
    dec = hl7apy.get_default_encoding_chars
    def ec(v):
        d = dec(v)
        def ch(k):
            return "'%s'" % (d[k].replace('\\', '\\\\').replace("'", "\\'"))
        return '⟨%s, %s, %s, %s, %s, %s⟩' % (ch('FIELD'), ch('COMPONENT'), ch('SUBCOMPONENT'), ch('REPETITION'), ch('ESCAPE'),
                                             ('(some %s)' % ch('TRUNCATION')) if 'TRUNCATION' in d else 'none')
    from hl7apy import core
    cls_attrs = {}
    for cname in ('Message', 'Group', 'Segment', 'Field', 'Component', 'SubComponent'):
        cls_attrs[cname] = sorted(set(getattr(getattr(core, cname), "cls_attrs", [])))
    c = ['import Hl7.Model.Escape\nnamespace Hl7.Gen.Consts\nopen Hl7\n']
    c.append('def supportedVersions : List String := [%s]\n' % ', '.join(q(v) for v in versions))
    c.append('def defaultVersion : String := %s\n' % q(hl7apy.get_default_version()))
    c.append('def defaultEC : EC := %s\n' % ec('2.5'))
    c.append('def defaultEC27 : EC := %s\n' % ec('2.7'))
    c.append('def nSeps : Nat := %d\ndef nSeps27 : Nat := %d\n' % (consts.N_SEPS, consts.N_SEPS_27))
    c.append('def mllpSB : Nat := %d\ndef mllpEB : Nat := %d\ndef mllpCR : Nat := %d\n' % (
        ord(consts.MLLP_ENCODING_CHARS.SB), ord(consts.MLLP_ENCODING_CHARS.EB), ord(consts.MLLP_ENCODING_CHARS.CR)))
    c.append('def levelStrict : Nat := %d\ndef levelTolerant : Nat := %d\n' % (
        consts.VALIDATION_LEVEL.STRICT, consts.VALIDATION_LEVEL.TOLERANT))
    for cname, attrs in cls_attrs.items():
        c.append('def clsAttrs%s : List String := [%s]\n' % (cname, ', '.join(q(a) for a in attrs)))
    c.append('end Hl7.Gen.Consts\n')
    changed += write('Consts.lean', ''.join(c))
    allf = ''.join('import Hl7.Gen.V%s\n' % v.replace('.', '_') for v in versions) + 'import Hl7.Gen.Consts\n' + \
        'namespace Hl7.Gen\nopen Hl7.G\ndef tables : List Tables := [%s]\nend Hl7.Gen\n' % ', '.join(
            'V' + v.replace('.', '_') for v in versions)
    changed += write('All.lean', allf)
    # guard lists of the table theorems (committed file, never written at run time)
    try:
        ex = json.load(open(os.path.join(os.path.dirname(os.path.abspath(__file__)), '..', 'table_exclusions.json')))
    except FileNotFoundError:
        ex = {}
    kn = ['namespace Hl7.Gen.Known\n']
    segs = ex.get('segments', {})
    kn.append('def segExcluded (version : String) : List String :=\n')
    for v in sorted(segs):
        kn.append('  if version == %s then [%s] else\n' % (q(v), ', '.join(q(n) for n in segs[v])))
    kn.append('  []\n')
    sts = ex.get('structs', {})
    kn.append('def structExcluded (version : String) : List String :=\n')
    for v in sorted(sts):
        kn.append('  if version == %s then [%s] else\n' % (q(v), ', '.join(q(n) for n in sts[v])))
    kn.append('  []\n')
    kn.append('end Hl7.Gen.Known\n')
    changed += write('Known.lean', ''.join(kn))
    # per-version kernel obligations, instantiated from the committed template
    tpl = open(os.path.join(os.path.dirname(os.path.abspath(__file__)), '..', 'lean', 'templates', 'TableObligations.lean.in'),
               encoding='utf-8').read()
    tpl2 = open(os.path.join(os.path.dirname(os.path.abspath(__file__)), '..', 'lean', 'templates', 'TableObligationsInst.lean.in'),
                encoding='utf-8').read()
    for v in versions:
        tag = 'V' + v.replace('.', '_')
        changed += write('Ob%s.lean' % tag, tpl.replace('@TAG@', tag).replace('@VER@', v))
        changed += write('ObInst%s.lean' % tag, tpl2.replace('@TAG@', tag).replace('@VER@', v))
    # stale files
    for fn in os.listdir(OUT):
        if fn.endswith('.lean') and fn not in written:
            os.remove(os.path.join(OUT, fn))
            changed += 1
    summary['changed_files'] = changed
    summary['files'] = len(written)
    h = hashlib.sha256()
    for fn in sorted(written):
        with open(os.path.join(OUT, fn), 'rb') as fh:
            h.update(fh.read())
    summary['sha256'] = h.hexdigest()
    with open(os.path.join(OUT, 'summary.json'), 'w') as fh:
        json.dump(summary, fh, indent=1)
    print(json.dumps({'changed_files': changed, 'files': len(written), 'sha256': summary['sha256'][:16]}))


if __name__ == '__main__':
    main()
