"""Shared machinery of the checks: regenerate, build, audit, drive the Lean model, verdict, evidence.

Exit codes of a check: 0 = property held on everything explored (known findings are printed),
1 = VIOLATION line printed, 2 = infrastructure problem (never a claim about the code).
"""
import fcntl, hashlib, json, os, random, re, subprocess, sys, time

VERIF = os.path.dirname(os.path.dirname(os.path.abspath(__file__)))
LEAN = os.path.join(VERIF, 'lean')
REPO = os.environ.get('HL7APY_REPO', '/repo')
EVID = os.path.join(VERIF, 'evidence')
REPLAY = os.path.join(EVID, 'replay')
PY = '/venv/bin/python'
ALLOWED_AXIOMS = {'propext', 'Classical.choice', 'Quot.sound'}
FORBIDDEN = re.compile(r'\bsorry\b|\badmit\b|^\s*axiom\s|native_decide|bv_decide|implemented_by|\bunsafe\s|maxHeartbeats\s+0\b', re.M)
NCPU = min(16, os.cpu_count() or 4)

TRUSTED_BASE = [
    "Lean 4.33.0 kernel (thorough tier: re-checked with leanchecker)",
    "axioms: subset of {propext, Classical.choice, Quot.sound}, audited by `#print axioms` on every run; no sorry/admit/axiom/native_decide/bv_decide",
    "tools/gen_tables.py (translator of /repo's tables and constants into lean/Hl7/Gen, re-run on every check)",
    "hand-written model in lean/Hl7/Py and lean/Hl7/Model, tied to /repo by the correspondence check of this run (differential, bounded by its generators)",
    "Lean interpreter (`lean --run`) agreeing with the kernel semantics of the same definitions",
    "CPython, re, datetime, decimal, socketserver: modelled, not verified",
]


def sh(cmd, **kw):
    return subprocess.run(cmd, stdout=subprocess.PIPE, stderr=subprocess.STDOUT, text=True, **kw)


class Lock:
    def __init__(self, name):
        self.path = os.path.join(LEAN, '.' + name + '.lock')

    def __enter__(self):
        self.f = open(self.path, 'w')
        fcntl.flock(self.f, fcntl.LOCK_EX)
        return self

    def __exit__(self, *a):
        fcntl.flock(self.f, fcntl.LOCK_UN)
        self.f.close()


def regen():
    """run the translator against /repo's working tree"""
    env = dict(os.environ, PYTHONPATH=REPO, HL7APY_REPO=REPO)
    env.pop('HL7APY_VERIF', None)
    with Lock('build'):
        r = sh([PY, os.path.join(VERIF, 'tools', 'gen_tables.py')], env=env)
    last = [l for l in r.stdout.splitlines() if l.startswith('{')]
    if r.returncode != 0 or not last:
        return {'ok': False, 'log': r.stdout[-4000:]}
    d = json.loads(last[-1])
    d['ok'] = True
    return d


def lake_build(targets):
    """build the given module targets; returns (ok, log)"""
    t0 = time.time()
    with Lock('build'):
        r = sh(['lake', 'build'] + list(targets), cwd=LEAN)
    return r.returncode == 0, r.stdout[-8000:], time.time() - t0


def strip_comments(src):
    src = re.sub(r'/-.*?-/', '', src, flags=re.S)
    src = re.sub(r'--[^\n]*', '', src)
    return src


def grep_forbidden(modules):
    hits = []
    for m in modules:
        p = os.path.join(LEAN, m.replace('.', '/') + '.lean')
        try:
            src = strip_comments(open(p, encoding='utf-8').read())
        except FileNotFoundError:
            hits.append((m, 'missing file'))
            continue
        for mm in FORBIDDEN.finditer(src):
            hits.append((m, mm.group(0).strip()))
    return hits


def audit(prop, modules, theorems):
    """`#print axioms` for every property theorem; returns dict thm -> list of axioms | None (missing)"""
    path = os.path.join(LEAN, '.audit_%s.lean' % prop)
    with open(path, 'w') as f:
        for m in modules:
            f.write('import %s\n' % m)
        for t in theorems:
            f.write('#print axioms %s\n' % t)
    r = sh(['lake', 'env', 'lean', path], cwd=LEAN)
    out = r.stdout
    res = {}
    for t in theorems:
        short = t
        m = re.search(r"'%s' depends on axioms: \[([^\]]*)\]" % re.escape(short), out, re.S)
        if m:
            res[t] = [a.strip() for a in m.group(1).replace('\n', ' ').split(',') if a.strip()]
        elif re.search(r"'%s' does not depend on any axioms" % re.escape(short), out):
            res[t] = []
        else:
            res[t] = None
    os.remove(path)
    return res, out[-3000:]


def hexs(s):
    return ''.join(('%02x' % ord(c)) if ord(c) < 256 else ('u%06x' % ord(c)) for c in s)


def unhexs(h):
    out = []
    i = 0
    while i < len(h):
        if h[i] == 'u':
            out.append(chr(int(h[i + 1:i + 7], 16)))
            i += 7
        else:
            out.append(chr(int(h[i:i + 2], 16)))
            i += 2
    return ''.join(out)


def ec_hex(ec):
    """ec: dict as hl7apy's encoding_chars"""
    s = ec['FIELD'] + ec['COMPONENT'] + ec['SUBCOMPONENT'] + ec['REPETITION'] + ec['ESCAPE'] + ec.get('TRUNCATION', '')
    return hexs(s)


def run_driver(lines, nproc=None, main='Main.lean'):
    """pipe protocol lines through the Lean model driver; returns list of output lines"""
    if not lines:
        return []
    nproc = nproc or max(1, min(NCPU, len(lines) // 2000 + 1))
    chunks = [lines[i::nproc] for i in range(nproc)]
    procs = []
    for ch in chunks:
        p = subprocess.Popen(['lake', 'env', 'lean', '--run', main], cwd=LEAN, stdin=subprocess.PIPE,
                             stdout=subprocess.PIPE, stderr=subprocess.PIPE, text=True)
        procs.append(p)
    outs = []
    import threading
    res = [None] * nproc

    def work(i):
        o, e = procs[i].communicate('\n'.join(chunks[i]) + '\n')
        res[i] = (o, e, procs[i].returncode)
    ths = [threading.Thread(target=work, args=(i,)) for i in range(nproc)]
    for t in ths:
        t.start()
    for t in ths:
        t.join()
    parts = []
    for i, (o, e, rc) in enumerate(res):
        ls = o.split('\n')
        if ls and ls[-1] == '':
            ls.pop()
        if rc != 0 or len(ls) != len(chunks[i]):
            raise Infra('model driver failed (rc=%s, %d/%d lines): %s' % (rc, len(ls), len(chunks[i]), (e or o)[-2000:]))
        parts.append(ls)
    outs = [None] * len(lines)
    for i in range(nproc):
        outs[i::nproc] = parts[i]
    return outs


class Infra(Exception):
    pass


def load_known():
    p = os.path.join(VERIF, 'known_findings.json')
    try:
        return json.load(open(p))
    except FileNotFoundError:
        return {'findings': [], 'fixed': []}


class Check:
    """collects what one run did and produces the verdict and the evidence file"""

    def __init__(self, prop, tier, seed):
        self.prop, self.tier, self.seed = prop, tier, seed
        self.t0 = time.time()
        self.obligations = []      # (name, discharged: bool, detail)
        self.broken = []           # names of theorems / correspondences that no longer check
        self.corr = {'programs': 0, 'disagreements': []}
        self.failures = []         # oracle failures on the implementation: dict(key=..., what=..., replay={...})
        self.samples = []
        self.dist = {}
        self.notes = []
        self.evals = 0
        self.nontrivial = set()
        self.exhaustive = False
        self.rule = ''
        self.assumptions = []
        self.rng = random.Random(seed)
        self.known = [f for f in load_known().get('findings', []) if f.get('property') == prop]
        self.known_hit = {}

    # ---- proof side
    def proof(self, modules, theorems, extra_targets=()):
        reg = regen()
        if not reg.get('ok'):
            raise Infra('translator failed: ' + reg.get('log', ''))
        self.dist['translator'] = {k: reg[k] for k in ('changed_files', 'files', 'sha256')}
        ok, log, dt = lake_build(list(modules) + list(extra_targets) + ['Hl7.Gen.All'])
        self.dist['lake_build_s'] = round(dt, 1)
        if not ok:
            errs = [l for l in log.splitlines() if 'error' in l.lower()][:20]
            for t in theorems:
                self.obligations.append((t, False, 'lake build failed'))
            self.broken.append({'kind': 'build', 'modules': list(modules), 'log': '\n'.join(errs) or log[-2000:]})
            return False
        hits = grep_forbidden(modules)
        if hits:
            self.broken.append({'kind': 'forbidden-construct', 'hits': hits})
        ax, raw = audit(self.prop, modules, theorems)
        for t in theorems:
            a = ax.get(t)
            if a is None:
                self.obligations.append((t, False, 'theorem not found'))
                self.broken.append({'kind': 'missing-theorem', 'theorem': t, 'log': raw})
            elif not set(a) <= ALLOWED_AXIOMS:
                self.obligations.append((t, False, 'axioms: ' + ','.join(a)))
                self.broken.append({'kind': 'axioms', 'theorem': t, 'axioms': a})
            else:
                self.obligations.append((t, not hits, 'axioms: ' + (','.join(a) or 'none')))
        if self.tier == 'thorough':
            r = sh(['lake', 'env', 'leanchecker'] + list(modules), cwd=LEAN)
            self.dist['leanchecker'] = {'rc': r.returncode, 'tail': r.stdout[-300:]}
            if r.returncode != 0:
                self.broken.append({'kind': 'leanchecker', 'log': r.stdout[-2000:]})
        return not self.broken

    # ---- correspondence side
    def correspond(self, name, cases, impl_out, model_out, show=None):
        """cases[i] ~ impl_out[i] vs model_out[i]"""
        assert len(cases) == len(impl_out) == len(model_out)
        self.corr['programs'] += len(cases)
        bad = []
        for c, a, b in zip(cases, impl_out, model_out):
            if b == 'exc Unsupported':      # input outside the model's stated domain: no claim, counted
                self.corr['outside_model_domain'] = self.corr.get('outside_model_domain', 0) + 1
                continue
            if a != b:
                bad.append({'correspondence': name, 'case': show(c) if show else c, 'impl': a, 'model': b})
        self.corr['disagreements'].extend(bad[:50])
        self.corr.setdefault('n_disagreements', 0)
        self.corr['n_disagreements'] += len(bad)
        if bad:
            self.broken.append({'kind': 'correspondence', 'name': name, 'count': len(bad), 'first': bad[0]})
        return bad

    def again(self, api, fn, jobs, first, n=400, show=None):
        """history independence: the results `first` were computed once (usually in pool workers, in generation order); a sample of
        the same calls is made again here, in ONE process and in another order. A call whose result depends on the calls made
        before it (a memo keyed on too little, a scratch object shared between calls — the seeded changes of round h) returns
        something else, and then at most one of the two results can be the one the property prescribes."""
        idx = list(range(len(jobs)))
        self.rng.shuffle(idx)
        idx = idx[:n]
        done = 0
        for i in idx + idx[::-1][:n // 4]:
            done += 1
            self.evals += 1
            try:
                got = fn(jobs[i])
            except Exception as e:  # noqa
                got = 'harness-exc ' + type(e).__name__
            if got != first[i]:
                rep = {'api': api + ' — made twice in one process with other calls in between', 'call': show(jobs[i]) if show else list(jobs[i]) if isinstance(jobs[i], tuple) else jobs[i]}
                self.fail(None, {'clause': 'the same call made again returns something else (the result depends on the calls made before)',
                                 'first_time': str(first[i])[:300], 'again': str(got)[:300], **rep}, rep)
                break
        self.dist['calls_made_again_in_another_order'] = self.dist.get('calls_made_again_in_another_order', 0) + done

    # ---- oracle side
    def fail(self, key, what, replay):
        """a property failure observed on the real implementation. `key`: known-finding class or None"""
        self.failures.append({'key': key, 'what': what, 'replay': replay})

    def match_known(self, f):
        keys = f['key'] if isinstance(f['key'], (list, tuple)) else [f['key']]
        for key in keys:
            if key is None:
                continue
            for k in self.known:
                if k.get('key') == key or key in k.get('keys', ()):
                    return k
        return None

    def finish(self, level='proof', checker_cmd=None):
        os.makedirs(REPLAY, exist_ok=True)
        unknown = []
        for f in self.failures:
            k = self.match_known(f)
            if k is None:
                unknown.append(f)
            else:
                self.known_hit.setdefault(k['id'], {'k': k, 'n': 0, 'first': f})
                self.known_hit[k['id']]['n'] += 1
        lines = []
        rc = 0
        for kid, h in sorted(self.known_hit.items()):
            lines.append('KNOWN-FINDING: property=%s %s: %s (%d occurrence(s) this run, e.g. %s)' % (
                self.prop, kid, h['k']['what_fails'], h['n'], json.dumps(h['first']['what'])[:200]))
        for k in self.known:
            if k['id'] not in self.known_hit:
                self.notes.append('listed finding %s did not reproduce in this run' % k['id'])
        if unknown:
            f = unknown[0]
            h = hashlib.sha1(json.dumps(f['replay'], sort_keys=True, default=str).encode()).hexdigest()[:12]
            path = os.path.join(REPLAY, '%s-%s.json' % (self.prop, h))
            json.dump({'property': self.prop, 'seed': self.seed, 'tier': self.tier, 'what': f['what'],
                       'replay': f['replay'], 'other_failures': [u['what'] for u in unknown[1:20]],
                       'broken': self.broken[:5]}, open(path, 'w'), indent=1, default=str)
            lines.append('VIOLATION property=%s replay=%s' % (self.prop, path))
            rc = 1
        elif self.broken:
            h = hashlib.sha1(json.dumps(self.broken, sort_keys=True, default=str).encode()).hexdigest()[:12]
            path = os.path.join(REPLAY, '%s-broken-%s.json' % (self.prop, h))
            json.dump({'property': self.prop, 'seed': self.seed, 'tier': self.tier,
                       'no_longer_checks': self.broken[:20],
                       'searched': 'the implementation-side oracle of this property was evaluated on %d cases '
                                   '(incl. every disagreeing input and its neighbourhood) and did not fail' % self.evals},
                      open(path, 'w'), indent=1, default=str)
            lines.append('VIOLATION property=%s replay=%s no-failing-input-found' % (self.prop, path))
            rc = 1
        n_obl = len(self.obligations)
        n_dis = sum(1 for o in self.obligations if o[1])
        cov = {
            'obligations': n_obl, 'discharged': n_dis,
            'checker_cmd': checker_cmd or 'cd lean && lake build <property modules> && lake env lean <#print axioms of every property theorem>',
            'trusted_base': TRUSTED_BASE,
            'theorems': [{'name': o[0], 'discharged': o[1], 'detail': o[2]} for o in self.obligations],
            'programs': self.corr['programs'],
            'disagreements_checked': self.corr['programs'],
            'disagreements_found': self.corr.get('n_disagreements', 0),
            'outside_model_domain': self.corr.get('outside_model_domain', 0),
            'evaluations': self.evals, 'distinct_nontrivial': len(self.nontrivial), 'rule': self.rule,
            'samples': self.samples[:12], 'exhaustive': self.exhaustive,
            'distribution': self.dist,
            'known_findings_reproduced': {k: v['n'] for k, v in self.known_hit.items()},
            'notes': self.notes,
        }
        ev = {'property_id': self.prop, 'tier': self.tier, 'seed': self.seed, 'level': level, 'coverage': cov,
              'assumptions': self.assumptions, 'wall_s': round(time.time() - self.t0, 2),
              'violations': len(unknown) if unknown else (1 if rc else 0)}
        os.makedirs(EVID, exist_ok=True)
        tmp = os.path.join(EVID, self.prop + '.json.tmp')
        json.dump(ev, open(tmp, 'w'), indent=1, default=str)
        os.replace(tmp, os.path.join(EVID, self.prop + '.json'))
        for l in lines:
            print(l)
        print('%s tier=%s seed=%d obligations=%d/%d correspondence=%d (disagreements %d) oracle-evals=%d known=%d wall=%.1fs -> %s' % (
            self.prop, self.tier, self.seed, n_dis, n_obl, self.corr['programs'], self.corr.get('n_disagreements', 0),
            self.evals, len(self.known_hit), time.time() - self.t0, 'VIOLATION' if rc else 'ok'))
        return rc


def exc_name(e):
    """canonical name of an exception raised by the implementation (closed enum, DESIGN §3.4)"""
    from hl7apy.exceptions import HL7apyException
    n = type(e).__name__
    if isinstance(e, HL7apyException):
        return n
    if isinstance(e, ValueError):
        return 'ValueError'
    if isinstance(e, (IndexError, KeyError, TypeError, AttributeError)):
        return 'Crash:' + n
    return 'Crash:Other:' + n


def level(strict):
    from hl7apy.consts import VALIDATION_LEVEL as VL
    return VL.STRICT if strict else VL.TOLERANT


def pmap(func, items, nproc=None, chunk=64):
    """run the implementation on many inputs in forked worker processes (order preserved)"""
    import multiprocessing as mp
    items = list(items)
    if len(items) < 200:
        return [func(x) for x in items]
    ctx = mp.get_context('fork')
    with ctx.Pool(nproc or NCPU) as pool:
        return pool.map(func, items, chunksize=chunk)


def newly_bad_segments():
    """segments that break the table obligation segWF right now (executable version of the kernel predicate):
    {version: [segment, ...]} -- used to aim the failing-input search when a table obligation no longer builds"""
    import hl7apy
    vs = sorted(hl7apy.SUPPORTED_LIBRARIES)
    try:
        out = run_driver(['BADSEGS ' + v for v in vs], nproc=1)
    except Infra:
        return {}
    return {v: [x for x in o[3:].split(',') if x] for v, o in zip(vs, out) if o.startswith('ok ') and o[3:]}
