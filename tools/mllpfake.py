"""Scripted fake socket driving the real hl7apy.mllp.MLLPRequestHandler in-process."""
import socket


class Script:
    """events: list of ('c', bytes) | ('t',) | ('e',)"""

    def __init__(self, events):
        self.events = [list(e) for e in events]
        self.out = b''
        self.closed = False

    def _next(self, n):
        while self.events:
            ev = self.events[0]
            if ev[0] == 'c':
                if not ev[1]:
                    self.events.pop(0)
                    continue
                data, ev[1] = ev[1][:n], ev[1][n:]
                return data
            if ev[0] == 't':
                self.events.pop(0)
                raise socket.timeout('timed out')
            return b''          # eof stays
        return b''


class FakeFile:
    def __init__(self, script):
        self.s = script

    def read(self, n=1):
        return self.s._next(n)

    def close(self):
        pass

    def flush(self):
        pass


class FakeSock:
    def __init__(self, events):
        self.script = Script(events)

    def recv(self, n):
        return self.script._next(n)

    def settimeout(self, t):
        pass

    def makefile(self, mode='rb', bufsize=-1):
        return FakeFile(self.script)

    def sendall(self, b):
        self.script.out += bytes(b)

    def send(self, b):
        # a socket may take only part of what it is offered (here: at most seven bytes) and says how much: whoever ignores the
        # count truncates the reply (seed C16-j wrote the reply with one send())
        b = bytes(b)[:7]
        self.script.out += b
        return len(b)

    def close(self):
        self.script.closed = True

    def shutdown(self, how):
        pass

    def getpeername(self):
        return ('fake', 0)


def make_handlers(types, raising, err, log):
    from hl7apy.mllp import AbstractHandler, AbstractErrorHandler

    class H(AbstractHandler):
        def __init__(self, msg, t):
            super(H, self).__init__(msg)
            self.t = t

        def reply(self):
            log.append('H:' + self.t)
            if self.t in raising:
                raise RuntimeError('handler failure')
            return 'ACK:' + self.t

    class E(AbstractErrorHandler):
        def reply(self):
            n = type(self.exc).__name__
            if n == 'RuntimeError':
                n = 'HandlerException'
            log.append('E:' + n)
            return 'ERR:' + n
    hs = {t: (H, t) for t in list(types) + list(raising)}
    if err:
        hs['ERR'] = (E,)
    return hs


def run_script(types, raising, err, events):
    """returns (invocations, reply bytes or None, closed)"""
    from hl7apy.mllp import MLLPRequestHandler
    log = []

    class Srv:
        handlers = make_handlers(types, raising, err, log)
        timeout = 1
    sock = FakeSock(events)
    try:
        MLLPRequestHandler(sock, ('fake', 0), Srv)
    except UnicodeDecodeError:
        sock.script.closed = True      # socketserver closes the request after an exception in handle()
    return log, (sock.script.out or None), sock.script.closed
