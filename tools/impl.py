"""Implementation-side runners: call the real hl7apy in-process and return one canonical line per case.
Top-level functions (picklable) so that `vlib.pmap` can fan them out."""
import vlib


def ec_dict(chars):
    d = {'FIELD': chars[0], 'COMPONENT': chars[1], 'SUBCOMPONENT': chars[2], 'REPETITION': chars[3], 'ESCAPE': chars[4],
         'GROUP': '\r', 'SEGMENT': '\r'}
    if len(chars) > 5:
        d['TRUNCATION'] = chars[5]
    return d


def safe_name(n):
    """a name as it travels in the line protocol (see Main.lean safeName)"""
    if n is None:
        return '?'
    return n if all((ch.isascii() and ch.isalnum()) or ch == '_' for ch in n) else 'x' + vlib.hexs(n)


def tree(children):
    from hl7apy.core import Group
    return ','.join(safe_name(c.name) if not isinstance(c, Group) else '%s(%s)' % (safe_name(c.name), tree(c.children)) for c in children)


def seg(job):
    """(version, text, strict, ec_chars) -> parse_segment(...).to_er7(ec)"""
    from hl7apy.parser import parse_segment
    v, t, strict, chars = job
    ec = ec_dict(chars)
    try:
        return 'ok ' + vlib.hexs(parse_segment(t, version=v, encoding_chars=ec, validation_level=vlib.level(strict)).to_er7(ec))
    except Exception as e:  # noqa
        return 'exc ' + vlib.exc_name(e)


def msg(job):
    """(text, strict, find_groups) -> parse_message(...).to_er7() + tree"""
    from hl7apy.parser import parse_message
    t, strict, fg = job
    try:
        m = parse_message(t, validation_level=vlib.level(strict), find_groups=fg)
    except Exception as e:  # noqa
        return 'exc ' + vlib.exc_name(e)
    tr = tree(m.children)
    try:
        return 'ok ' + vlib.hexs(m.to_er7()) + ' ' + tr
    except Exception as e:  # noqa
        return 'encexc ' + vlib.exc_name(e) + ' ' + tr


def msg_full(job):
    """as `msg`, plus validate(return_errors=True) outcome: used by the C15 oracle"""
    from hl7apy.parser import parse_message
    t, strict, fg = job
    try:
        m = parse_message(t, validation_level=vlib.level(strict), find_groups=fg)
    except Exception as e:  # noqa
        return ('exc ' + vlib.exc_name(e), None, None)
    tr = tree(m.children)
    try:
        enc = 'ok ' + vlib.hexs(m.to_er7()) + ' ' + tr
    except Exception as e:  # noqa
        enc = 'encexc ' + vlib.exc_name(e) + ' ' + tr
    try:
        r = m.validate(return_errors=True)
        val = 'ok %d %d' % (len(r[1]), len(r[2])) if isinstance(r, tuple) else 'ok?'
        errs = [str(e)[:200] for e in r[1]] if isinstance(r, tuple) else []
    except Exception as e:  # noqa
        val = 'exc ' + vlib.exc_name(e)
    info = {'has_reference': hasattr(m, 'reference'), 'name': m.name,
            'msh': [c.name for c in m.children].count('MSH'), 'errors': locals().get('errs', [])}
    try:
        # the HL7 version (and level) every element of the tree carries: it comes from MSH-12, never from the process default
        vs = set()

        def walk(e, d=0):
            vs.add((getattr(e, 'version', None), getattr(e, 'validation_level', None)))
            if d < 3:
                for c in getattr(e, 'children', []):
                    walk(c, d + 1)
        walk(m)
        info['versions'] = sorted(map(str, vs))
    except Exception as e:  # noqa
        info['versions'] = 'exc ' + vlib.exc_name(e)
    return (enc, val, info)


def opt_hex(o):
    return '-' if o is None else 's' + vlib.hexs(o)


def mtype(t):
    from hl7apy.parser import get_message_type
    try:
        return 'ok ' + opt_hex(get_message_type(t))
    except Exception as e:  # noqa
        return 'exc ' + vlib.exc_name(e)


def minfo(t):
    from hl7apy.parser import get_message_info
    try:
        ec, st, ver = get_message_info(t)
        return 'ok %s %s %s' % (vlib.ec_hex(ec), opt_hex(st), opt_hex(ver))
    except Exception as e:  # noqa
        return 'exc ' + vlib.exc_name(e)


def fld(job):
    """(version, text, name, strict, ec_chars) -> parse_field(...).to_er7(ec)"""
    from hl7apy.parser import parse_field
    v, t, name, strict, chars = job
    ec = ec_dict(chars)
    try:
        return 'ok ' + vlib.hexs(parse_field(t, name=name, version=v, encoding_chars=ec, validation_level=vlib.level(strict)).to_er7(ec))
    except Exception as e:  # noqa
        return 'exc ' + vlib.exc_name(e)


def comp(job):
    """(version, text, name, datatype, strict, ec_chars) -> parse_component(...).to_er7(ec)"""
    from hl7apy.parser import parse_component
    v, t, name, dt, strict, chars = job
    ec = ec_dict(chars)
    try:
        return 'ok ' + vlib.hexs(parse_component(t, name=name, datatype=dt, version=v, encoding_chars=ec,
                                                 validation_level=vlib.level(strict)).to_er7(ec))
    except Exception as e:  # noqa
        return 'exc ' + vlib.exc_name(e)


def setf(job):
    """(version, segment, attr, value) -> Segment(seg).attr = value ; to_er7() ; parse back ; value under the same name"""
    from hl7apy.core import Segment
    from hl7apy.parser import parse_segment
    v, seg, attr, value = job
    try:
        s = Segment(seg, version=v, validation_level=vlib.level(False))
        setattr(s, attr, value)
        er7 = s.to_er7()
    except Exception as e:  # noqa
        return 'exc ' + vlib.exc_name(e)
    try:
        p = parse_segment(er7, version=v, validation_level=vlib.level(False))
        name = s.children[0].name if len(s.children) else None
        got = [c.to_er7() for c in p.children if c.name == name]
        back = vlib.hexs(got[0]) if len(got) == 1 else 'n%d' % len(got)
    except Exception as e:  # noqa
        back = 'exc:' + vlib.exc_name(e)
    return 'ok %s %s' % (vlib.hexs(er7), back)


def setdt(job):
    """(version, holder_kind, holder_name, datatype, j, sub_datatype|None, k|None, value):
    Field(F).<d_j>[.<d2_k>] = value (holder 'F') or Component(R).<d_j> = value (holder 'C'); to_er7()"""
    from hl7apy.core import Field, Component
    v, hk, hn, dt, j, sdt, k, value = job
    try:
        f = (Field if hk == 'F' else Component)(hn, version=v, validation_level=vlib.level(False))
        if k is None:
            setattr(f, '%s_%d' % (dt.lower(), j), value)
        else:
            c = getattr(f, '%s_%d' % (dt.lower(), j))
            setattr(c, '%s_%d' % (sdt.lower(), k), value)
        er7 = f.to_er7()
    except Exception as e:  # noqa
        return 'exc ' + vlib.exc_name(e)
    if hk == 'F':
        # the same position spelled as a traversal path from the field, `<seg>_<i>_<j>[_<k>]` (C02's third observation point): same encoding
        try:
            g = Field(hn, version=v, validation_level=vlib.level(False))
            setattr(g, '%s_%d' % (hn.lower(), j) + ('' if k is None else '_%d' % k), value)
            er7p = g.to_er7()
            back = getattr(g, '%s_%d' % (hn.lower(), j) + ('' if k is None else '_%d' % k)).to_er7()
        except Exception as e:  # noqa
            return 'pathexc ' + vlib.exc_name(e)
        if er7p != er7 or back != value:
            return 'pathdiff ' + vlib.hexs(er7p) + ' ' + vlib.hexs(back)
    return 'ok ' + vlib.hexs(er7)


def _mk(kind, name, v):
    from hl7apy.core import Segment, Field, Component
    return {'S': Segment, 'F': Field, 'C': Component}[kind](name, version=v, validation_level=vlib.level(False))


def addr(job):
    """(version, kind 'S'|'F', parent name, spelling, canonical setter spelling, value):
    write through `spelling` on a fresh parent; read and delete through `spelling` on a parent populated through the canonical name"""
    v, kind, parent, x, canon, val = job[:6]
    sib = job[6] if len(job) > 6 else None
    try:
        a = _mk(kind, parent, v)
        setattr(a, x, val)
        names = ','.join(c.name or '?' for c in a.children)
        er7 = a.to_er7()
    except Exception as e:  # noqa
        return 'exc ' + vlib.exc_name(e)
    try:
        b = _mk(kind, parent, v)
        setattr(b, canon, val)
        want = b.to_er7()
        p = getattr(b, x)
        rd = 'R1' if (p.to_er7() == val and er7 == want) else 'R0'
    except Exception as e:  # noqa
        rd = 'Rexc:' + vlib.exc_name(e)
    try:
        if sib is not None:
            # a neighbour at the same level, written before the delete: deleting through the spelling removes the addressed child ONLY
            setattr(b, sib, 'SIBL')
            before_del = b.to_er7()
            if 'SIBL' not in before_del:
                sib = None
        delattr(b, x)
        after = b.to_er7()
        if sib is not None:
            body = after[len(parent):] if kind == 'S' else after       # (the segment name itself may contain the value: 'X' in 'OBX')
            dl = 'D1' if (val not in body.replace('SIBL', '') and 'SIBL' in body) else 'D0'
        else:
            dl = 'D1' if (after == parent if kind == 'S' else val not in after) else 'D0'
    except Exception as e:  # noqa
        dl = 'Dexc:' + vlib.exc_name(e)
    return 'ok %s %s %s %s' % (names, vlib.hexs(er7), rd, dl)


def del_absent(job):
    """(version, kind, parent, spelling, ...): delete through a valid spelling on a parent that does NOT hold the child (yet / any more)"""
    v, kind, parent, x = job[:4]
    out = []
    try:
        a = _mk(kind, parent, v)
    except Exception as e:  # noqa
        return 'mkexc ' + vlib.exc_name(e)
    for rnd in range(2):
        try:
            delattr(a, x)
            r = 'deleted'
        except Exception as e:  # noqa
            r = vlib.exc_name(e)
        out.append(r + ('+children' if len(a.children) else ''))
        try:
            a.to_er7()
        except Exception as e:  # noqa
            out.append('encexc:' + vlib.exc_name(e))
    return ' '.join(out)


def addr_neg(job):
    """(version, kind, parent, name): get / set / delete through a name that designates no child"""
    v, kind, parent, x = job
    out = []
    for mode in ('get', 'set', 'del'):
        a = _mk(kind, parent, v)
        try:
            if mode == 'get':
                r = getattr(a, x)
                r = 'returned:' + type(r).__name__
            elif mode == 'set':
                setattr(a, x, 'X')
                r = 'created:' + ','.join(c.name or '?' for c in a.children)
            else:
                delattr(a, x)
                r = 'deleted'
        except Exception as e:  # noqa
            r = vlib.exc_name(e)
        if len(a.children) != 0 and not r.startswith('created'):
            r += '+children'
        out.append(r)
    return ' '.join(out)


def ecrun(job):
    """(version, ec mapping as dict possibly incomplete/duplicated) -> build a message through the API and observe its delimiters"""
    from hl7apy.core import Message, Element
    from hl7apy.parser import parse_message
    v, ec = job
    try:
        m = Message('ADT_A01', version=v, encoding_chars=dict(ec), validation_level=vlib.level(False))
    except Exception as e:  # noqa
        return 'exc ' + vlib.exc_name(e)
    try:
        C, S, R = ec['COMPONENT'], ec['SUBCOMPONENT'], ec['REPETITION']
        m.msh.msh_7 = '20200101'
        m.msh.msh_9 = 'ADT' + C + 'A01' + C + 'ADT_A01'
        m.msh.msh_10 = '1'
        m.pid.pid_5.value = 'x' + C + 'y'                       # two links that do not exist yet (PID, PID_5), the value set on the deepest (seed C17-i)
        m.pid.pid_3 = 'a' + C + 'b' + S + 'c'                    # through a not-yet-existing PID_3 (traversal child)
        m.nk1 = 'NK1' + ec['FIELD'] * 2 + 'n' + C + 'm' + R + 'o' + S + 'p'      # a whole segment, with a repetition
        m.add_segment('PV1').pv1_2 = 'I'
        if v != '2.1':
            # a whole group given as text: it is split by the message's characters like everything else (D44)
            m.adt_a01_insurance = 'IN1' + ec['FIELD'] + '1' + ec['FIELD'] + 'i' + C + 'j' + S + 'k'
        er7 = m.to_er7()
        got = m.encoding_chars
        gs = got['FIELD'] + got['COMPONENT'] + got['SUBCOMPONENT'] + got['REPETITION'] + got['ESCAPE'] + got.get('TRUNCATION', '')

        def desc(e):
            for c in e.children:
                yield c
                if hasattr(c, 'children'):
                    yield from desc(c)
        d = all(x.encoding_chars == got for x in desc(m))
        p = parse_message(er7, validation_level=vlib.level(False))
        pe = p.encoding_chars == got and p.to_er7() == er7
        ml = m.to_mllp() == '\x0b' + er7 + '\r\x1c\r'
        return 'ok %s %s D%d P%d M%d' % (vlib.hexs(er7), vlib.hexs(gs), d, pe, ml)
    except Exception as e:  # noqa
        return 'exc2 ' + vlib.exc_name(e)


def mllp(job):
    """(types, raising, err, events) with events = [('c', bytes) | ('t',) | ('e',)] -> canonical outcome line"""
    import mllpfake
    types, raising, err, events = job
    try:
        log, out, closed = mllpfake.run_script(types, raising, err, events)
    except Exception as e:  # noqa
        return 'exc ' + vlib.exc_name(e)
    invs = []
    for x in log:
        if x.startswith('H:'):
            invs.append('H:' + vlib.hexs(x[2:]))
        else:
            invs.append(x)
    # a raising handler is logged, then the ERR handler (if any)
    return 'inv=%s reply=%s closed=%d' % (','.join(invs), vlib.hexs(out.decode('utf-8')) if out else '-', 1 if closed else 0)


def canon_err(e):
    """canonical form of a ValidationError message (same vocabulary as Hl7.Val.VErr.show)"""
    import re
    s = str(e)
    def nm(r):
        m = re.match(r'<\w+ ([^ >]*)', r)
        return (m.group(1) or 'None') if m else r
    m = re.match(r'Unknown element found: (.*?)\.<', s)
    if m:
        return 'unknown:' + nm(m.group(1))
    m = re.match(r'Invalid element found: (.*)', s)
    if m:
        return 'invalid-element:' + nm(m.group(1))
    m = re.match(r'Invalid children detected for (<.*?>): \[(.*)\]', s)
    if m:
        names = sorted(x.strip().strip("'\"") for x in m.group(2).split(',') if x.strip())
        return 'invalid-children:%s:%s' % (nm(m.group(1)), ','.join(names))
    m = re.match(r'Missing required child (.*)', s)
    if m:
        return 'missing:' + m.group(1)
    m = re.match(r'Child limit exceeded (.*)', s)
    if m:
        return 'exceeded:' + m.group(1)
    m = re.match(r'Datatype (\S+) is not correct for (\S+) \(it must be', s)
    if m:
        return 'datatype:%s:%s' % (m.group(1), m.group(2))
    return 'other:' + s[:80]


def valm(job):
    """(text, strict, find_groups) -> parse_message(...).validate(return_errors=True): canonical error list"""
    from hl7apy.parser import parse_message
    t, strict, fg = job
    try:
        m = parse_message(t, validation_level=vlib.level(strict), find_groups=fg)
    except Exception as e:  # noqa
        return 'exc ' + vlib.exc_name(e)
    try:
        r = m.validate(return_errors=True)
        return 'ok ' + '|'.join(canon_err(e) for e in r.errors)
    except Exception as e:  # noqa
        return 'valexc ' + vlib.exc_name(e)


def vals(job):
    """(version, text, strict, ec_chars) -> parse_segment(...).validate(return_errors=True)"""
    from hl7apy.parser import parse_segment
    v, t, strict, chars = job
    ec = ec_dict(chars)
    try:
        s = parse_segment(t, version=v, encoding_chars=ec, validation_level=vlib.level(strict))
    except Exception as e:  # noqa
        return 'exc ' + vlib.exc_name(e)
    try:
        r = s.validate(return_errors=True)
        return 'ok ' + '|'.join(canon_err(e) for e in r.errors)
    except Exception as e:  # noqa
        return 'valexc ' + vlib.exc_name(e)


def casc(job):
    """(version, text, ec_chars) -> 'hex(to_er7 body) paths' of parse_segment(text): the leaves with their positional paths
    (field position, repetition, component position, subcomponent position; all 0-based), as the cascade of C01 sees them"""
    from hl7apy.parser import parse_segment
    import re
    v, t, chars = job
    ec = ec_dict(chars)
    try:
        s = parse_segment(t, version=v, encoding_chars=ec, validation_level=vlib.level(False))
        out = s.to_er7(ec)

        def pos(name):
            m = re.match(r'^[A-Z0-9_]*?_(\d+)$', name or '')
            return int(m.group(1)) - 1 if m else 0
        paths = []
        seen = {}
        for f in s.children:
            i = pos(f.name)
            r = seen.get(f.name, 0)
            seen[f.name] = r + 1
            for c in f.children:
                j = pos(c.name) if c.name and c.name != c.datatype else 0
                for sc in c.children:
                    k = pos(sc.name) if sc.name and sc.name != sc.datatype else 0
                    leaf = sc.to_er7(ec)
                    if leaf != '':
                        paths.append(((i, r, j, k), leaf))
        paths.sort()
        return vlib.hexs(out[4:]) + ' ' + ';'.join('%d.%d.%d.%d=%s' % (p + (vlib.hexs(x),)) for p, x in paths)
    except Exception as e:  # noqa
        return 'exc ' + vlib.exc_name(e)


def setmany(job):
    """(version, segment, [(attribute, value), ...]) -> to_er7() after assigning every value on a fresh Segment"""
    from hl7apy.core import Segment
    v, seg, pairs = job
    try:
        s = Segment(seg, version=v, validation_level=vlib.level(False))
        for a, val in pairs:
            setattr(s, a, val)
        return 'ok ' + vlib.hexs(s.to_er7())
    except Exception as e:  # noqa
        return 'exc ' + vlib.exc_name(e)
