"""C01 — ER7 parse -> encode is the identity on canonical messages."""
import json
import vlib, gen, impl, findings

VERSIONS = ['2.1', '2.2', '2.3', '2.3.1', '2.4', '2.5', '2.5.1', '2.6', '2.7', '2.8', '2.8.1', '2.8.2']
MODULES = ['Hl7.Props.C01'] + ['Hl7.Gen.ObV' + v.replace('.', '_') for v in VERSIONS]
THEOREMS = ['Hl7.C01.C01_cascade', 'Hl7.C01.C01_segment_body', 'Hl7.Casc.canonB_sound', 'Hl7.C01.C01_level_roundtrip', 'Hl7.C01.C01_text_roundtrip', 'Hl7.Slots.slots_roundtrip', 'Hl7.Py.join_splitOn',
            'Hl7.Py.splitOn_join', 'Hl7.C01.nm_inj'] + ['Hl7.Gen.ObV%s.segWF' % v.replace('.', '_') for v in VERSIONS]
DEF = '|^&~\\'


def excluded():
    return json.load(open(vlib.VERIF + '/table_exclusions.json'))['segments']


NEWLY_BAD = {}


def seg_cases(tier, rng):
    import hl7apy
    ex = excluded()
    out = []
    for v in VERSIONS:
        lib = hl7apy.load_library(v)
        names = sorted(n for n in lib.SEGMENTS if n != 'MSH')
        k = 150 if tier == 'quick' else len(names)
        pick = set(rng.sample(names, min(k, len(names)))) | ((set(ex.get(v, [])) | set(NEWLY_BAD.get(v, []))) & set(names))
        shapes = 2 if tier == 'quick' else 6
        # default delimiters, plus one random valid set per version
        chars_alt = ''.join(rng.sample(gen.PUNCT, 5))
        for chars in (DEF, chars_alt):
            g = gen.Gen(rng, ec=gen.mk_ec(chars), version=v)
            for n in sorted(pick):
                for _ in range(shapes if chars == DEF else 1):
                    out.append((v, g.segment(n, mode='canon+'), False, chars, n))
            for _ in range(6 if tier == 'quick' else 30):
                z = g.zsegment()
                out.append((v, z, False, chars, z[:3]))
    return out


def run(tier, seed):
    import hl7apy
    chk = vlib.Check('C01', tier, seed)
    rng = chk.rng
    chk.proof(MODULES, THEOREMS)
    ex = excluded()
    NEWLY_BAD.update(vlib.newly_bad_segments())
    # ---- segments
    segs = seg_cases(tier, rng)
    a = vlib.pmap(impl.seg, [c[:4] for c in segs])
    chk.again('parse_segment(text, version, TOLERANT, encoding_chars).to_er7()', impl.seg, [c[:4] for c in segs], a, 500)
    mo = vlib.run_driver(['SEG %s T T %s %s' % (c[0], vlib.hexs(c[3]), vlib.hexs(c[1])) for c in segs])
    chk.correspond('parse_segment(text).to_er7() vs Hl7.Pe.segment/encSegment', segs, a, mo,
                   show=lambda c: {'version': c[0], 'text': c[1], 'ec': c[3]})
    nexc = 0
    for c, o, m in zip(segs, a, mo):
        chk.evals += 1
        v, text, _, chars, name = c
        rep = {'api': 'parse_segment(text, version, encoding_chars, TOLERANT).to_er7(encoding_chars)', 'version': v, 'text': text, 'encoding_chars': chars}
        if name not in ex.get(v, []):
            chk.nontrivial.add((v, text))
        if o != 'ok ' + vlib.hexs(text):
            key = None
            if name in ex.get(v, []) and (o == m or m == 'exc Unsupported'):
                key = 'T:%s:%s' % (v, name)        # table-shape findings D1/D2/D3: known exactly per (version, segment)
            got = vlib.unhexs(o[3:]) if o.startswith('ok ') else o
            chk.fail(key, {'clause': 'segment-roundtrip', 'version': v, 'text': text, 'got': got}, rep)
    # ---- the cascade of theorem C01_cascade (Hl7.Casc) against the real element tree, on the canonical segment texts
    cjobs0 = [c for c in segs if c[4] not in ex.get(c[0], []) and c[4] != 'MSH' and len(c[1]) > 4 and c[1][3] == c[3][0]]
    ca0 = vlib.pmap(impl.casc, [(c[0], c[1], c[3]) for c in cjobs0])
    cm0 = vlib.run_driver(['CASC %s %d %s' % (vlib.hexs(c[3]), 400, vlib.hexs(c[1][4:])) for c in cjobs0])
    ncanon = 0
    a2, b2, cases2 = [], [], []
    for c, o, m in zip(cjobs0, ca0, cm0):
        if not m.startswith('canon '):
            continue                      # outside the theorem's hypothesis: no claim
        ncanon += 1
        mp = m.split(' ')
        leaves = sorted(x for x in (mp[2].split(';') if len(mp) > 2 and mp[2] else []) if not x.endswith('='))
        def keyf(x):
            return tuple(int(y) for y in x.split('=')[0].split('.'))
        cases2.append({'version': c[0], 'text': c[1]})
        a2.append(o)
        b2.append(mp[1] + ' ' + ';'.join(sorted(leaves, key=keyf)))
    chk.correspond('parse_segment(text): positional paths of the leaves and to_er7 vs the cascade Hl7.Casc.parse / enc (theorem C01_cascade)', cases2, a2, b2)
    chk.dist['cascade'] = {'canonical_segment_texts': len(cjobs0), 'canonical_for_the_cascade': ncanon}
    # ---- fields and components (named by the tables)
    fjobs, cjobs = [], []
    for v in (VERSIONS if tier != 'quick' else rng.sample(VERSIONS, 4)):
        lib = hl7apy.load_library(v)
        g = gen.Gen(rng, version=v)
        fnames = sorted(lib.FIELDS)
        for fn in rng.sample(fnames, min(len(fnames), 120) if tier == 'quick' else len(fnames)):
            ref = lib.FIELDS[fn]
            if not gen.well_formed_ref(ref) or len(ref) != 6:
                continue
            fjobs.append((v, g.by_ref(ref, 0, 'canon+', False), fn, False, DEF))
        dnames = sorted(lib.DATATYPES)
        for dn in rng.sample(dnames, min(len(dnames), 80 if tier == 'quick' else len(dnames))):
            ref = lib.DATATYPES[dn]
            if not gen.well_formed_ref(ref) or len(ref) != 6:
                continue
            cjobs.append((v, g.by_ref(ref, 1, 'canon+', False), dn, None, False, DEF))
    fa = vlib.pmap(impl.fld, fjobs)
    ca = vlib.pmap(impl.comp, cjobs)
    chk.again('parse_field(text, name, version).to_er7()', impl.fld, fjobs, fa, 200)
    chk.again('parse_component(text, name, version).to_er7()', impl.comp, cjobs, ca, 200)
    fm = vlib.run_driver(['FLD %s T T %s %s %s' % (j[0], vlib.hexs(DEF), j[2], vlib.hexs(j[1])) for j in fjobs] +
                         ['COMP %s T T %s %s - %s' % (j[0], vlib.hexs(DEF), j[2], vlib.hexs(j[1])) for j in cjobs])
    chk.correspond('parse_field(text, name).to_er7() vs Hl7.Pe.field/encField', fjobs, fa, fm[:len(fjobs)],
                   show=lambda j: {'version': j[0], 'text': j[1], 'name': j[2]})
    chk.correspond('parse_component(text, name).to_er7() vs Hl7.Pe.component/encComponent', cjobs, ca, fm[len(fjobs):],
                   show=lambda j: {'version': j[0], 'text': j[1], 'name': j[2]})
    d3 = {'2.7': ['PV1_52'], '2.8.2': ['PV1_52', 'RXA_11', 'RXD_13', 'RXG_11']}
    for j, o, m in zip(fjobs, fa, fm[:len(fjobs)]):
        chk.evals += 1
        if o != 'ok ' + vlib.hexs(j[1]):
            key = 'T:%s:%s' % (j[0], j[2].split('_')[0]) if (j[2].split('_')[0] in ex.get(j[0], []) and o == m) else None
            chk.fail(key, {'clause': 'field-roundtrip', 'version': j[0], 'name': j[2], 'text': j[1], 'got': vlib.unhexs(o[3:]) if o.startswith('ok ') else o},
                     {'api': 'parse_field(text, name, version, TOLERANT).to_er7()', 'version': j[0], 'name': j[2], 'text': j[1]})
        else:
            chk.nontrivial.add((j[0], j[2], j[1]))
    for j, o in zip(cjobs, ca):
        chk.evals += 1
        if o != 'ok ' + vlib.hexs(j[1]):
            chk.fail(None, {'clause': 'component-roundtrip', 'version': j[0], 'name': j[2], 'text': j[1], 'got': vlib.unhexs(o[3:]) if o.startswith('ok ') else o},
                     {'api': 'parse_component(text, name, None, version, TOLERANT).to_er7()', 'version': j[0], 'name': j[2], 'text': j[1]})
    # ---- messages, group finding on and off
    mjobs = []
    meta = []
    for v in VERSIONS:
        g = gen.MsgGen(rng, version=v)
        mts = g.structures()
        for mt in rng.sample(mts, min(len(mts), 12 if tier == 'quick' else 80)):
            for style in ('required', 'random'):
                try:
                    t, der, names = g.message(mt, style, rich=True)
                except Exception:  # noqa
                    continue
                for fg in (True, False):
                    mjobs.append((t, False, fg))
                    meta.append((v, mt, names))
    ma = vlib.pmap(impl.msg, mjobs)
    chk.again('parse_message(text, TOLERANT, find_groups).to_er7()', impl.msg, mjobs, ma, 150)
    mm = vlib.run_driver(['MSG T T 2.5 %d %s' % (1 if j[2] else 0, vlib.hexs(j[0])) for j in mjobs])
    chk.correspond('parse_message(text).to_er7() vs Hl7.Msg.parseMessage/encMessage', mjobs, ma, mm,
                   show=lambda j: {'text': j[0], 'find_groups': j[2]})
    for j, (v, mt, names), o, m in zip(mjobs, meta, ma, mm):
        chk.evals += 1
        rep = {'api': 'parse_message(text, TOLERANT, find_groups).to_er7()', 'text': j[0], 'find_groups': j[2]}
        if o.split(' ')[0] == 'ok' and o.split(' ')[1] == vlib.hexs(j[0]):
            chk.nontrivial.add((v, mt, j[0]))
            continue
        bad = [n for n in names if n in ex.get(v, [])]
        key = None
        if o == m:
            if bad:
                key = 'T:%s:%s' % (v, bad[0])
            elif v == '2.1' and o.startswith('exc Crash:TypeError'):
                key = 'D2:2.1:group-none-ref'
            elif j[2] and o.split(' ')[0] == 'ok':
                # group finding dropped or moved segments (finding D4/D16): decided by C03/C08, known here only if the
                # same text round-trips with find_groups=False
                flat = impl.msg((j[0], False, False))
                if flat.split(' ')[0] == 'ok' and flat.split(' ')[1] == vlib.hexs(j[0]):
                    key = 'D4:unplaceable-dropped'
        got = vlib.unhexs(o.split(' ')[1]) if o.startswith('ok ') else o
        chk.fail(key, {'clause': 'message-roundtrip', 'version': v, 'structure': mt, 'find_groups': j[2], 'text': j[0], 'got': got}, rep)
    chk.dist.update({'segment_cases': len(segs), 'field_cases': len(fjobs), 'component_cases': len(cjobs), 'message_cases': len(mjobs)})
    chk.rule = ('type-directed canonical text from the tables of every version: per segment 2 (thorough 6) shapes with default delimiters + 1 with a random '
                'valid delimiter set; named fields and components; instances of message structures (required-only and random) with rich segment content, '
                'find_groups on and off. Leaves come from per-datatype pools of values the datatype layer reproduces. Non-trivial = distinct canonical texts of '
                'well-formed tables that round-trip.')
    chk.samples = [{'version': c[0], 'text': c[1]} for c in segs[::max(1, len(segs) // 6)]][:6] + [{'message': j[0][:200]} for j in mjobs[:2]]
    chk.assumptions = ['canonical = generated by tools/gen.py (no trailing empties at any level, leaves from the stable pools); arbitrary leaf text is C06/C13']
    return chk.finish()


def replay(path):
    d = json.load(open(path))
    r = d['replay']
    print(json.dumps(d['what'], indent=1))
    if 'parse_segment' in r['api']:
        print(impl.seg((r['version'], r['text'], False, r.get('encoding_chars', DEF))))
    elif 'parse_message' in r['api']:
        print(impl.msg((r['text'], False, r['find_groups'])))
    elif 'parse_field' in r['api']:
        print(impl.fld((r['version'], r['text'], r['name'], False, DEF)))
    else:
        print(impl.comp((r['version'], r['text'], r['name'], None, False, DEF)))
    return 0
