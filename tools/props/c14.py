"""C14 — Name, long name, position and letter case all address the same child."""
import json
import vlib, gen, impl
from props.c01 import VERSIONS, excluded

MODULES = ['Hl7.Props.C14'] + ['Hl7.Gen.ObV' + v.replace('.', '_') for v in VERSIONS]
THEOREMS = ['Hl7.Pe.C14_positional_component', 'Hl7.Pe.C14_case_segment', 'Hl7.Pe.C14_case_field', 'Hl7.Pe.C14_segment_negative', 'Hl7.Pe.C14_segment_resolves_to_declared',
            'Hl7.Pe.C14_field_negative'] + \
           ['Hl7.Gen.ObV%s.segWF' % v.replace('.', '_') for v in VERSIONS] + ['Hl7.Gen.ObV%s.addressable' % v.replace('.', '_') for v in VERSIONS]
SAFE = {'DT': '2020', 'TM': '12', 'DTM': '2020', 'NM': '10', 'SI': '1', 'TN': '5551234'}


def mixed(s):
    return ''.join(c.lower() if i % 2 else c.upper() for i, c in enumerate(s))


def spellings(name, long_name, siblings_long, attrs, rng, full):
    out = [name.upper(), name.lower(), mixed(name)]
    if long_name and siblings_long.count(long_name) == 1 and long_name.lower() not in attrs and long_name != name:
        out += [long_name.upper(), long_name.lower(), mixed(long_name)]
    # (a long name that is no Python identifier — a leading digit, blanks inside: six table rows — is always spelled in full: seed C14-b)
    odd = bool(long_name) and not __import__('re').match(r'^[A-Za-z_][A-Za-z0-9_]*$', long_name)
    return out if (full or odd) else [out[0]] + rng.sample(out[1:], min(2, len(out) - 1))


def val_for(ref):
    dt = ref[2] if gen.well_formed_ref(ref) and len(ref) == 6 else None
    return SAFE.get(dt, 'X')


def run(tier, seed):
    import hl7apy
    from hl7apy.core import Segment, Field
    chk = vlib.Check('C14', tier, seed)
    rng = chk.rng
    chk.proof(MODULES, THEOREMS)
    ex = excluded()
    full = VERSIONS if tier != 'quick' else sorted(rng.sample(VERSIONS, 2))
    chk.dist['versions_exhaustive'] = full
    seg_attrs = set(Segment.cls_attrs)
    fld_attrs = set(Field.cls_attrs)
    jobs, meta, model = [], [], []
    neg, negmodel = [], []
    for v in VERSIONS:
        lib = hl7apy.load_library(v)
        segs = sorted(n for n in lib.SEGMENTS if n not in ex.get(v, []))
        isfull = v in full
        if not isfull:
            import re as _re
            odd_segs = [n for n in segs if gen.is_seq(lib.SEGMENTS[n]) and len(lib.SEGMENTS[n]) > 1 and gen.is_seq(lib.SEGMENTS[n][1]) and
                        any(gen.is_seq(r) and len(r) == 4 and gen.well_formed_ref(r[1]) and len(r[1]) == 6 and r[1][3] and
                            not _re.match(r'^[A-Za-z_][A-Za-z0-9_]*$', r[1][3]) for r in lib.SEGMENTS[n][1])]
            segs = sorted(set(rng.sample(segs, min(len(segs), 8))) | set(odd_segs))
        allfields = sorted(lib.FIELDS)
        for S in segs:
            rows = lib.SEGMENTS[S][1]
            longs = [r[1][3] for r in rows if gen.well_formed_ref(r[1]) and len(r[1]) == 6]
            for i, row in enumerate(rows, 1):
                if S == 'MSH' and i <= 2:
                    continue
                N, ref = row[0], row[1]
                L = ref[3] if gen.well_formed_ref(ref) and len(ref) == 6 else None
                val = val_for(ref)
                sib_i = [k for k in range(1, len(rows) + 1) if k != i and not (S == 'MSH' and k <= 2)]
                sib = ('%s_%d' % (S.lower(), rng.choice(sib_i)),) if sib_i else ()
                for x in spellings(N, L, longs, seg_attrs, rng, isfull):
                    jobs.append((v, 'S', S, x, N.lower(), val) + sib)
                    meta.append((N, S + '|' * (i - 1 if S == 'MSH' else i) + val))
                    model.append('RESF %s %s %s' % (v, S, vlib.hexs(x)))
            # negative: other parents' children, out-of-range, malformed
            other = rng.choice(allfields)
            while other.startswith(S + '_'):
                other = rng.choice(allfields)
            last_varies = gen.well_formed_ref(rows[-1][1]) and len(rows[-1][1]) == 6 and rows[-1][1][2] == 'varies'
            cands = [other, other.lower(), 'FOO', S + '_x', S + '_', 'X' + S + '_1', S + '_0_0_0_0']
            if not last_varies:
                cands += ['%s_%d' % (S, len(rows) + 3), '%s_%d' % (S.lower(), len(rows) + 50)]
            for x in (cands if isfull else rng.sample(cands, 3)):
                neg.append((v, 'S', S, x))
                negmodel.append('RESF %s %s %s' % (v, S, vlib.hexs(x)))
        # field level
        fnames = [fn for fn in sorted(lib.FIELDS) if gen.well_formed_ref(lib.FIELDS[fn]) and len(lib.FIELDS[fn]) == 6
                  and lib.FIELDS[fn][0] == 'sequence' and fn.split('_')[0] not in ex.get(v, []) and fn.split('_')[0] in lib.SEGMENTS]
        # one field per (datatype) exhaustively + a sample of the others
        by_dt = {}
        for fn in fnames:
            by_dt.setdefault(lib.FIELDS[fn][2], []).append(fn)
        chosen = [fs[0] for fs in by_dt.values()] + rng.sample(fnames, min(len(fnames), 60 if isfull else 5))
        if not isfull:
            import re as _re
            odd_f = [fs[0] for dt_, fs in by_dt.items() if gen.is_seq(lib.DATATYPES_STRUCTS.get(dt_)) and
                     any(gen.is_seq(r) and len(r) == 4 and gen.well_formed_ref(r[1]) and len(r[1]) == 6 and r[1][3] and
                         not _re.match(r'^[A-Za-z_][A-Za-z0-9_]*$', r[1][3]) for r in lib.DATATYPES_STRUCTS[dt_])]
            chosen = sorted(set(rng.sample(chosen, min(len(chosen), 12))) | set(odd_f))
        for F in sorted(set(chosen)):
            fref = lib.FIELDS[F]
            D, crows = fref[2], fref[1]
            clongs = [r[1][3] for r in crows if gen.well_formed_ref(r[1]) and len(r[1]) == 6]
            for j, crow in enumerate(crows, 1):
                CN, cref = crow[0], crow[1]
                CL = cref[3] if gen.well_formed_ref(cref) and len(cref) == 6 else None
                val = val_for(cref)
                sp = spellings(CN, CL, clongs, fld_attrs, rng, isfull)
                pos = '%s_%d' % (F, j)
                sp += [pos, pos.lower()] if isfull else [pos.lower()]
                sib = ('%s_%d' % (F.lower(), rng.choice([k for k in range(1, len(crows) + 1) if k != j])),) if len(crows) > 1 else ()
                for x in sp:
                    jobs.append((v, 'F', F, x, CN.lower(), val) + sib)
                    meta.append((CN, '^' * (j - 1) + val))
                    model.append('RESC %s %s %s' % (v, F, vlib.hexs(x)))
                if gen.well_formed_ref(cref) and len(cref) == 6 and cref[0] == 'sequence' and gen.is_seq(cref[1]):
                    for k, srow in enumerate(cref[1], 1):
                        sval = val_for(srow[1])
                        pos = '%s_%d_%d' % (F, j, k)
                        # the sibling that must survive the delete: another subcomponent of the SAME component (seed C09-g deleted the whole component)
                        sib = ('%s_%d_%d' % (F.lower(), j, rng.choice([q for q in range(1, len(cref[1]) + 1) if q != k])),) if len(cref[1]) > 1 else ()
                        for x in ([pos, pos.lower(), mixed(pos)] if isfull else [pos.lower()]):
                            jobs.append((v, 'F', F, x, pos.lower(), sval) + sib)
                            meta.append((CN, '^' * (j - 1) + '&' * (k - 1) + sval))
                            model.append('RESC %s %s %s' % (v, F, vlib.hexs(x)))
            n = len(crows)
            cands = ['%s_%d' % (F, n + 2), '%s_1_99' % F, '%s_a' % F, '%s_1_b' % F, 'FOO_1', '%s_%d' % (D, n + 2), 'ZZZ_1', F + '_1_1_1', 'X' + F + '_1',
                     # positions that do not exist: zero and below (seed C14-j counted them from the end)
                     '%s_0' % F, '%s_-1' % F, '%s_1_0' % F, '%s_-%d' % (F, n)]
            for x in (cands if isfull else rng.sample(cands, 5)):
                neg.append((v, 'F', F, x))
                negmodel.append('RESC %s %s %s' % (v, F, vlib.hexs(x)))
    # fields of a base datatype: their one component is named after the datatype (`field.si`, `field.st`); every letter case and the
    # positional path reach it, for get, set and delete alike
    for v in VERSIONS:
        lib = hl7apy.load_library(v)
        seen = {}
        for fn in sorted(lib.FIELDS):
            r = lib.FIELDS[fn]
            if gen.well_formed_ref(r) and len(r) == 6 and r[0] == 'leaf' and r[2] not in ('varies', None) and fn.split('_')[0] not in ex.get(v, []) \
                    and fn.split('_')[0] in lib.SEGMENTS and r[2] not in seen:
                seen[r[2]] = fn
        for dt, F in sorted(seen.items()):
            val = SAFE.get(dt, 'X')
            sp = [dt.upper(), dt.lower(), mixed(dt), '%s_1' % F.lower(), '%s_1' % F]
            for x in (sp if v in full else rng.sample(sp, 2)):
                jobs.append((v, 'F', F, x, dt.upper(), val))
                meta.append((dt.upper(), val))
                model.append('RESC %s %s %s' % (v, F, vlib.hexs(x)))
    a = vlib.pmap(impl.addr, jobs)
    chk.again('setattr / getattr / delattr through a spelling', impl.addr, jobs, a, 400)
    na = vlib.pmap(impl.addr_neg, neg)
    mo = vlib.run_driver(model + negmodel)
    m1, m2 = mo[:len(model)], mo[len(model):]
    # correspondence on the resolved child name
    def impl_name(o):
        return 'ok ' + o.split(' ')[1] if o.startswith('ok ') else o
    chk.correspond('child reached by a spelling (write) vs Hl7.Pe.segFindChild / fieldTraverse',
                   jobs, [impl_name(o) for o in a], [('ok ' + m[3:].split('/')[0]) if m.startswith('ok ') else m for m in m1],
                   show=lambda j: {'version': j[0], 'parent': j[2], 'spelling': j[3]})
    chk.correspond('name designating no child (set) vs model', neg,
                   [('exc ' + o.split(' ')[1]) if not o.split(' ')[1].startswith('created') else 'ok ' + o.split(' ')[1][8:] for o in na],
                   [m if m.startswith('exc') else 'ok ' + m[3:].split('/')[0] for m in m2],
                   show=lambda j: {'version': j[0], 'parent': j[2], 'name': j[3]})
    for j, (cname, want), o in zip(jobs, meta, a):
        chk.evals += 1
        rep = {'api': 'setattr / getattr / delattr through a spelling', 'version': j[0], 'parent_kind': j[1], 'parent': j[2], 'spelling': j[3],
               'canonical': j[4], 'value': j[5]}
        f = o.split(' ')
        if o.startswith('ok ') and f[1] == cname and f[2] == vlib.hexs(want) and f[3] == 'R1' and f[4] == 'D1':
            chk.nontrivial.add((j[0], j[2], j[3]))
            continue
        chk.fail(None, {'clause': 'same-child', 'expected_child': cname, 'expected_er7': want, 'got': o if not o.startswith('ok ') else
                        {'children': f[1], 'er7': vlib.unhexs(f[2]), 'read': f[3], 'delete': f[4]}, **rep}, rep)
    # a component of a BASE datatype has no named child: the HL7 name of a subcomponent of some other datatype — even one of the same base datatype —
    # designates nothing there, in any letter case: writing through it is refused and creates nothing (seed C14-i)
    cneg = []
    for v in (full if tier == 'quick' else VERSIONS):
        lib = hl7apy.load_library(v)
        base = set(lib.BASE_DATATYPES)
        leaf_comps = sorted(k for k, r in lib.DATATYPES.items() if gen.well_formed_ref(r) and len(r) == 6 and r[0] == 'leaf' and r[2] in base)
        by_dt = {}
        for k in leaf_comps:
            by_dt.setdefault(lib.DATATYPES[k][2], []).append(k)
        for dt, ks in sorted(by_dt.items()):
            for CN in rng.sample(ks, min(len(ks), 3)):
                others = [k for k in ks if k.rsplit('_', 1)[0] != CN.rsplit('_', 1)[0]]
                for x in rng.sample(others, min(len(others), 2)):
                    cneg += [(v, 'C', CN, x), (v, 'C', CN, x.lower())]
    for j, o in zip(cneg, vlib.pmap(impl.addr_neg, cneg)):
        chk.evals += 1
        parts = o.split(' ')
        rep = {'api': 'setattr / delattr on a leaf component through the name of a subcomponent of another datatype', 'version': j[0], 'parent_kind': 'C', 'parent': j[2], 'name': j[3]}
        # (the plain READ of such a name returns an empty proxy on the unchanged tree: not judged here)
        if not all(p in ('ChildNotFound', 'ChildNotValid') for p in parts[1:]):
            chk.fail(None, {'clause': 'negative', 'get_set_del': parts, **rep}, rep)
    chk.dist['leaf_component_foreign_names'] = len(cneg)
    # a valid spelling on a parent that does not hold the child: there is no child to delete — ChildNotFound, and nothing is created
    dj = rng.sample(jobs, min(len(jobs), 3000 if tier == 'quick' else len(jobs)))
    for j, o in zip(dj, vlib.pmap(impl.del_absent, dj)):
        chk.evals += 1
        rep = {'api': 'delattr(parent, spelling) on a fresh parent (the child is defined but absent), twice', 'version': j[0], 'parent_kind': j[1], 'parent': j[2], 'spelling': j[3]}
        if o != 'ChildNotFound ChildNotFound':
            chk.fail(None, {'clause': 'deleting a child that is not there raises ChildNotFound and creates nothing', 'got': o.split(' '), **rep}, rep)
    chk.dist['deletes_of_absent_children'] = len(dj)
    for j, o in zip(neg, na):
        chk.evals += 1
        rep = {'api': 'getattr / setattr / delattr through a name that designates no child', 'version': j[0], 'parent_kind': j[1], 'parent': j[2], 'name': j[3]}
        parts = o.split(' ')
        if all(p in ('ChildNotFound', 'ChildNotValid') for p in parts):
            continue
        chk.fail(None, {'clause': 'negative', 'get_set_del': parts, **rep}, rep)
    chk.exhaustive = tier != 'quick'
    chk.dist.update({'positive_cases': len(jobs), 'negative_cases': len(neg)})
    chk.rule = ('for every field row of every (non guard-listed) segment of the exhaustive versions: HL7 name and unique long name in upper / lower / alternating case; for one '
                'field per complex datatype plus a sample: every component by name, long name and positional path, every subcomponent by positional path, in three casings; '
                'each spelling is written through (fresh parent), read through and deleted through (parent populated by canonical name). Negative stream: other parents\' '
                'children, out-of-range indices, malformed paths, for get / set / delete. Non-trivial = distinct (version, parent, spelling) reaching the right child.')
    chk.samples = [{'version': j[0], 'parent': j[2], 'spelling': j[3], 'result': o[:60]} for j, o in list(zip(jobs, a))[::max(1, len(jobs) // 8)]][:8]
    chk.assumptions = ['long names equal to an attribute name of the element class are skipped (excluded by the property itself)', 'TOLERANT validation']
    return chk.finish()


def replay(path):
    d = json.load(open(path))
    r = d['replay']
    print(json.dumps(d['what'], indent=1))
    if 'spelling' in r:
        print(impl.addr((r['version'], r['parent_kind'], r['parent'], r['spelling'], r['canonical'], r['value'])))
    else:
        print(impl.addr_neg((r['version'], r['parent_kind'], r['parent'], r['name'])))
    return 0
