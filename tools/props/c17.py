"""C17 — Explicit arguments override process-wide defaults."""
import json
import vlib, gen, impl
from props.c01 import VERSIONS

MODULES = ['Hl7.Props.C17']
THEOREMS = ['Hl7.C17.C17_parseMessage_independent', 'Hl7.C17.C17_header_independent', 'Hl7.C17.C17_explicit_functions_take_no_defaults', 'Hl7.C17.C17_unsupported_version']
DEF = '|^&~\\'
ALT_EC = [None, {'FIELD': '!', 'COMPONENT': '@', 'SUBCOMPONENT': '%', 'REPETITION': '$', 'ESCAPE': '/'},
          {'FIELD': ';', 'COMPONENT': ':', 'SUBCOMPONENT': '=', 'REPETITION': '*', 'ESCAPE': '?'}]


def add_sub(job):
    """Component(datatype=dt, version=v).add_subcomponent(name): depends on is_base_datatype(datatype, version)"""
    from hl7apy.core import Component
    v, dt, name, strict = job
    try:
        c = Component(datatype=dt, version=v, validation_level=vlib.level(strict))
        s = c.add_subcomponent(name)
        return 'ok ' + (s.name or '?')
    except Exception as e:  # noqa
        return 'exc ' + vlib.exc_name(e)


def existing(job):
    """elements created under the current defaults; observed again after the defaults are changed (by the caller)"""
    raise NotImplementedError


def factory_call(job):
    from props import c13
    dt, s, v, strict = job
    return c13.impl(dt, s, v, strict, impl.ec_dict(DEF))


def seg_api(job):
    """Segment(name, version, level); assign; to_er7(explicit ec)"""
    from hl7apy.core import Segment
    v, seg, attr, value, strict = job
    try:
        s = Segment(seg, version=v, validation_level=vlib.level(strict))
        setattr(s, attr, value)
        return 'ok ' + vlib.hexs(s.to_er7(impl.ec_dict(DEF)))
    except Exception as e:  # noqa
        return 'exc ' + vlib.exc_name(e)


def const_ec(job):
    """the library's own constant hl7apy.DEFAULT_ENCODING_CHARS passed explicitly (the test suite's spelling of "standard delimiters")"""
    import hl7apy
    from hl7apy.parser import parse_segment
    v, text, strict = job
    ec = hl7apy.DEFAULT_ENCODING_CHARS
    try:
        s = parse_segment(text, version=v, encoding_chars=ec, validation_level=vlib.level(strict))
        return 'ok %s %s' % (vlib.hexs(s.to_er7(ec)), ''.join(ec[k] for k in ('FIELD', 'COMPONENT', 'SUBCOMPONENT', 'REPETITION', 'ESCAPE')))
    except Exception as e:  # noqa
        return 'exc ' + vlib.exc_name(e)


CALLS = {'const_ec': const_ec, 'seg': impl.seg, 'msg': impl.msg_full, 'fld': impl.fld, 'comp': impl.comp, 'build': impl.ecrun, 'factory': factory_call, 'add_sub': add_sub, 'seg_api': seg_api}


def call(c):
    return json.dumps(CALLS[c[0]](c[1]), sort_keys=True, default=str)


def corpus(rng, n):
    out = []
    gens = {v: gen.MsgGen(rng, version=v) for v in VERSIONS}
    long_text = 'L' * 300
    for i in range(n):
        v = rng.choice(VERSIONS)
        g = gens[v]
        strict = rng.random() < .5
        k = rng.randrange(9)
        if k == 0:
            name = rng.choice(sorted(x for x in g.lib.SEGMENTS if x not in ('MSH', 'ANYHL7SEGMENT')))
            out.append(('seg', (v, g.segment(name, mode=rng.choice(['canon', 'wild'])), strict, DEF)))
        elif k == 1:
            mt = rng.choice(g.structures())
            try:
                t, _, _ = g.message(mt, 'random', rich=rng.random() < .4)
            except Exception:  # noqa
                continue
            out.append(('msg', (t, strict, rng.random() < .6)))
            if rng.random() < .5:
                # MSH-9 that names no structure of the MSH-12 version (no third component, misspelt, empty): the message is still built
                # for the version the text declares (seed C17-h lost it on this path), with a segment longer than older versions define
                lines = t.split('\r')
                f = lines[0].split('|')
                if len(f) > 11:
                    f[8] = rng.choice(['ADT^A08', 'ADT^A01^ADT_A99', '', 'XXX', 'ADT^A01^'])
                    if rng.random() < .35 and len(f) > 11:
                        # an MSH-12 that names no supported version: refused whatever the default version is (seed C17-j fell back to the default)
                        f[11] = rng.choice(['2.9', '3.0', 'V2.5', '2.5.2', '2.5 draft', '^ITA'])
                    extra = 'PID|1||7|||||' + '|' * rng.randrange(20, 32) + 'X'
                    out.append(('msg', ('\r'.join(['|'.join(f)] + lines[1:] + [extra]), False, rng.random() < .5)))
        elif k == 2:
            fn = rng.choice(sorted(g.lib.FIELDS))
            ref = g.lib.FIELDS[fn]
            if gen.well_formed_ref(ref) and len(ref) == 6:
                out.append(('fld', (v, rng.choice([g.by_ref(ref, 0, 'wild', True), long_text, 'x' * 25]), fn, strict, DEF)))
        elif k == 3:
            dn = rng.choice(sorted(g.lib.DATATYPES))
            ref = g.lib.DATATYPES[dn]
            if gen.well_formed_ref(ref) and len(ref) == 6:
                out.append(('comp', (v, rng.choice([g.by_ref(ref, 1, 'wild', True), long_text]), dn, None, strict, DEF)))
        elif k == 4:
            out.append(('build', (v, dict(zip(['FIELD', 'COMPONENT', 'SUBCOMPONENT', 'REPETITION', 'ESCAPE'], rng.sample('#(){}<>', 5))))))
        elif k == 5:
            dt = rng.choice(['DT', 'TM', 'DTM', 'NM', 'SI', 'ST', 'ID', 'IS', 'TX'])
            if dt in g.lib.BASE_DATATYPES:
                out.append(('factory', (dt, rng.choice(['2020', '202013', '12', '1.5', 'x', '1200+0100', '', long_text, 'abc' * 90, 'y' * 21]), v, strict)))
        elif k == 6:
            dts = sorted(g.lib.BASE_DATATYPES) + sorted(g.lib.DATATYPES_STRUCTS)[:6]
            dt = rng.choice(dts)
            out.append(('add_sub', (v, dt, rng.choice([dt, 'ST', dt + '_1', 'CX_1']), strict)))
        elif k == 7:
            name = rng.choice(sorted(x for x in g.lib.SEGMENTS if x not in ('MSH', 'ANYHL7SEGMENT')))
            out.append(('seg_api', (v, name, name.lower() + '_1', rng.choice(['X', long_text, '1']), strict)))
        else:
            name = rng.choice(sorted(x for x in g.lib.SEGMENTS if x not in ('MSH', 'ANYHL7SEGMENT')))
            out.append(('seg', (v, name + '|' + long_text, strict, DEF)))
        if i % 25 == 0:
            out.append(('const_ec', (v, 'PID|1||123^^^HOSP&1.2.3&ISO~456||DOE^JOHN', False)))
    # components / fields whose datatype is a base datatype in some versions only (DTM, TN, CM, SNM, IS, TM, WD, GTS, ...):
    # is_base_datatype(dt) without the explicit version would then follow the *default* version
    import hl7apy
    bases = {v: set(hl7apy.load_library(v).BASE_DATATYPES) for v in VERSIONS}
    sensitive = set().union(*bases.values()) - set.intersection(*bases.values())
    for v in VERSIONS:
        lib = gens[v].lib
        rows = [k for k in sorted(lib.DATATYPES) if gen.well_formed_ref(lib.DATATYPES[k]) and len(lib.DATATYPES[k]) == 6
                and lib.DATATYPES[k][0] == 'leaf' and lib.DATATYPES[k][2] in sensitive and lib.DATATYPES[k][2] in bases[v]]
        for k in rng.sample(rows, min(len(rows), 4)):
            for strict in (False, True):
                out.append(('comp', (v, rng.choice(['2008&X', 'a&b', 'x&y&z']), k, None, strict, DEF)))
        frows = [k for k in sorted(lib.FIELDS) if gen.well_formed_ref(lib.FIELDS[k]) and len(lib.FIELDS[k]) == 6
                 and lib.FIELDS[k][0] == 'leaf' and lib.FIELDS[k][2] in sensitive and lib.FIELDS[k][2] in bases[v]]
        for k in rng.sample(frows, min(len(frows), 4)):
            out.append(('fld', (v, rng.choice(['a^b', 'a&b', 'x^y^z']), k, False, DEF)))
            out.append(('seg', (v, k.split('_')[0] + '|' * int(k.split('_')[1]) + rng.choice(['a^b', 'a&b']), False, DEF)))
    return out


def _save_defaults():
    """the three process-wide defaults, read through the public getters (plus the private module attributes when the library has them:
    putting the very same objects back also undoes a setter that replaced or rewrote them)"""
    import hl7apy
    pub = (hl7apy.get_default_version(), hl7apy.get_default_validation_level(), dict(hl7apy.get_default_encoding_chars('2.5')))
    try:
        priv = (hl7apy._DEFAULT_VERSION, hl7apy._DEFAULT_VALIDATION_LEVEL, hl7apy._DEFAULT_ENCODING_CHARS, dict(hl7apy._DEFAULT_ENCODING_CHARS))
    except AttributeError:
        priv = None
    return pub, priv


def _restore_defaults(saved):
    import hl7apy
    pub, priv = saved
    if priv is not None:
        try:
            hl7apy._DEFAULT_VERSION, hl7apy._DEFAULT_VALIDATION_LEVEL, hl7apy._DEFAULT_ENCODING_CHARS = priv[:3]
            if priv[2] != priv[3]:          # (a setter that rewrote the shared dict in place: put the content back for the next job of this worker)
                priv[2].clear()
                priv[2].update(priv[3])
            return
        except AttributeError:
            pass
    hl7apy.set_default_version(pub[0])
    hl7apy.set_default_validation_level(pub[1])
    hl7apy.set_default_encoding_chars(dict(pub[2]))


def under(job):
    """(setting, calls): set the three process defaults, run the calls, restore"""
    import hl7apy
    from hl7apy.consts import VALIDATION_LEVEL as VL
    (dv, dstrict, dec), calls = job
    saved = _save_defaults()
    try:
        hl7apy.set_default_version(dv)
        hl7apy.set_default_validation_level(VL.STRICT if dstrict else VL.TOLERANT)
        if dec is not None:
            hl7apy.set_default_encoding_chars(dict(dec))
        return [call(c) for c in calls]
    finally:
        _restore_defaults(saved)


def existing_under(job):
    """create under setting A, observe, switch to setting B, observe again"""
    import hl7apy
    from hl7apy.consts import VALIDATION_LEVEL as VL
    from hl7apy.parser import parse_message, parse_segment
    from hl7apy.core import Message
    (a, b) = job
    saved = _save_defaults()

    def setd(s):
        hl7apy.set_default_version(s[0])
        hl7apy.set_default_validation_level(VL.STRICT if s[1] else VL.TOLERANT)
        if saved[1] is not None:
            hl7apy._DEFAULT_ENCODING_CHARS = saved[1][2]
        else:
            hl7apy.set_default_encoding_chars(dict(saved[0][2]))
        if s[2] is not None:
            hl7apy.set_default_encoding_chars(dict(s[2]))

    def obs(els):
        out = []
        for e in els:
            try:
                enc = e.to_er7(impl.ec_dict(DEF)) if not isinstance(e, Message) else e.to_er7()
            except Exception as ex:  # noqa
                enc = 'exc:' + type(ex).__name__
            out.append((enc, e.version, e.validation_level, [c.name for c in e.children]))
        return out
    try:
        setd(a)
        try:
            m = parse_message('MSH|^~\\&|S|F|R|RF|2020||ADT^A01^ADT_A01|1|P|2.4\rEVN||2020\rPID|1||a^^^b&c~d\rPV1|1|I')
            s = parse_segment('PID|1||x^y', version='2.3', validation_level=VL.TOLERANT)
        except Exception as ex:  # noqa
            # (these two constructions name their version explicitly or read it from MSH-12 and succeed under every default on the unchanged tree;
            #  a failure here is a dependence on the defaults, reported as such by the caller)
            return json.dumps(['construction-failed', vlib.exc_name(ex) + ': ' + str(ex)[:200]])
        els = [m, s]
        try:
            # built under the defaults of A on purpose (it must keep them when the defaults change). Whether this construction succeeds is allowed
            # to depend on A — under ('2.1', STRICT) PID-3 is numeric — so a failure here is no finding: the element is then left out
            m2 = Message('ADT_A01')
            m2.msh.msh_7 = '2020'
            m2.pid.pid_3 = '1'
            els.append(m2)
        except Exception:  # noqa
            pass
        before = obs(els)
        setd(b)
        after = obs(els)
        return json.dumps([before, after], default=str)
    finally:
        _restore_defaults(saved)


def model_lines(calls, dstrict, dver):
    """the same calls for the model, with the defaults passed explicitly (only the calls the driver implements)"""
    lines, idx = [], []
    D = 'S' if dstrict else 'T'
    for i, (k, a) in enumerate(calls):
        if k == 'seg':
            lines.append('SEG %s %s %s %s %s' % (a[0], 'S' if a[2] else 'T', D, vlib.hexs(a[3]), vlib.hexs(a[1])))
        elif k == 'fld':
            lines.append('FLD %s %s %s %s %s %s' % (a[0], 'S' if a[3] else 'T', D, vlib.hexs(a[4]), a[2], vlib.hexs(a[1])))
        elif k == 'comp':
            lines.append('COMP %s %s %s %s %s - %s' % (a[0], 'S' if a[4] else 'T', D, vlib.hexs(a[5]), a[2], vlib.hexs(a[1])))
        elif k == 'factory':
            lines.append('FAC %s %s %s %s %s %s' % (a[2], 'S' if a[3] else 'T', D, vlib.hexs(DEF), a[0], vlib.hexs(a[1])))
        elif k == 'msg':
            lines.append('MSG %s %s %s %d %s' % ('S' if a[1] else 'T', D, dver, 1 if a[2] else 0, vlib.hexs(a[0])))
        else:
            continue
        idx.append(i)
    return lines, idx


def impl_line(k, r):
    r = json.loads(r)
    if k == 'msg':
        return r[0]
    return r


def run(tier, seed):
    chk = vlib.Check('C17', tier, seed)
    rng = chk.rng
    chk.proof(MODULES, THEOREMS)
    calls = corpus(rng, 300 if tier == 'quick' else 2000)
    allset = [(v, s, e) for v in VERSIONS for s in (False, True) for e in ALT_EC]
    base = ('2.5', False, None)
    settings = [base] + ([('2.2', True, ALT_EC[1])] + rng.sample(allset, 4) if tier == 'quick' else allset)
    res = vlib.pmap(under, [(s, calls) for s in settings], chunk=1) if len(settings) >= 200 else [under((s, calls)) for s in settings[:1]] + \
        vlib.pmap(under, [(s, calls) for s in settings[1:]] * 1, nproc=min(16, max(1, len(settings) - 1)), chunk=1) if len(settings) > 1 else [under((settings[0], calls))]
    if len(res) != len(settings):
        raise vlib.Infra('sweep size mismatch')
    ref = res[0]
    for s, r in zip(settings[1:], res[1:]):
        for c, x, y in zip(calls, ref, r):
            chk.evals += 1
            if x != y:
                key = None
                chk.fail(key, {'clause': 'result-independent-of-defaults', 'call': str(c)[:300], 'defaults_a': str(base), 'result_a': x[:200], 'defaults_b': str(s), 'result_b': y[:200]},
                         {'api': c[0], 'args': c[1], 'defaults_a': base, 'defaults_b': s})
    # correspondence with the model under two default levels and two default versions
    for (dstrict, dver, r) in [(False, '2.5', ref)] + [(s[1], s[0], rr) for s, rr in zip(settings[1:3], res[1:3])]:
        lines, idx = model_lines(calls, dstrict, dver)
        mo = vlib.run_driver(lines)
        chk.correspond('explicit-argument calls under defaults (level=%s, version=%s) vs the model given the same Defaults' % ('STRICT' if dstrict else 'TOLERANT', dver),
                       [calls[i] for i in idx], [impl_line(calls[i][0], r[i]) for i in idx], mo, show=lambda c: {'call': str(c)[:300]})
    for c, x in zip(calls, ref):
        if '"ok' in x[:8] or x.startswith('"ok') or x.startswith('["ok'):
            chk.nontrivial.add(str(c)[:200])
    # existing elements
    pairs = [(base, s) for s in settings[1:]] + [(s, base) for s in settings[1:3]]
    ex = vlib.pmap(existing_under, pairs, chunk=1) if len(pairs) >= 200 else [existing_under(p) for p in pairs]
    for p, r in zip(pairs, ex):
        chk.evals += 1
        b, a = json.loads(r)
        if b == 'construction-failed':
            chk.fail(None, {'clause': 'explicit-arguments-override-defaults', 'defaults': str(p[0]), 'raised': a,
                            'calls': "parse_message(<MSH-12 = 2.4>); parse_segment('PID|1||x^y', version='2.3', validation_level=TOLERANT)"},
                     {'api': 'constructions with explicit version / MSH-12 under other defaults', 'from': p[0], 'to': p[1]})
        elif b != a:
            chk.fail(None, {'clause': 'changing-defaults-does-not-alter-existing-elements', 'from': str(p[0]), 'to': str(p[1]), 'before': b, 'after': a},
                     {'api': 'existing elements under a change of defaults', 'from': p[0], 'to': p[1]})
    chk.dist.update({'calls': len(calls), 'settings': len(settings), 'kinds': {k: sum(1 for c in calls if c[0] == k) for k in CALLS}})
    chk.rule = ('a corpus of calls whose version, level and delimiters are explicit (or read from the message text): parse_segment/field/component, parse_message+to_er7+validate, '
                'build through the API, datatype_factory, Component.add_subcomponent, Segment(...).attr=value, with valid, invalid and over-long leaves; run under the baseline '
                'defaults and under other (default version, default level, default delimiters) settings - all 72 in the thorough tier; results must be identical, and existing '
                'elements must not change when the defaults do. Non-trivial = distinct calls that succeed under the baseline.')
    chk.samples = [{'call': str(c)[:160]} for c in calls[:8]]
    chk.assumptions = ['a parentless element encoded or assigned WITHOUT a delimiter argument reads the default at call time by documented design: outside "given explicitly"']
    return chk.finish()


def replay(path):
    d = json.load(open(path))
    r = d['replay']
    print(json.dumps(d['what'], indent=1))
    if 'args' in r:
        c = (r['api'], tuple(r['args']) if isinstance(r['args'], list) else r['args'])
        for s in (r['defaults_a'], r['defaults_b']):
            print(s, under(((s[0], s[1], s[2]), [c])))
    return 0
