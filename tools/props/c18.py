"""C18 — A message profile replaces the standard structure wherever it speaks."""
import json, random
import vlib, gen, impl, profiles
from props.c01 import VERSIONS, excluded

MODULES = ['Hl7.Props.C18']
THEOREMS = ['Hl7.Prof.C18_not_found', 'Hl7.Prof.C18_legacy', 'Hl7.Prof.C18_header_first', 'Hl7.Prof.C18_present', 'Hl7.Prof.C18_restating',
            'Hl7.Prof.C18_card_speaks', 'Hl7.Prof.C18_forbid_speaks', 'Hl7.Prof.editRows_same', 'Hl7.Prof.editEntries_other', 'Hl7.Prof.editRows_other',
            'Hl7.Prof.C18_fallback_untouched']


def build_profile(spec):
    """spec = (version, structure, edits, mode): mode 'present' | 'absent' | 'legacy' | 'none'"""
    import hl7apy
    v, st, edits, mode = spec
    if mode == 'none':
        return None
    lib = hl7apy.load_library(v)
    if mode == 'absent':
        other = 'ACK' if st != 'ACK' else 'ADT_A01'
        return profiles.make_profile(lib, other, [])
    if mode == 'legacy':
        return {st: ('mp', st, (), 'x')}
    return profiles.make_profile(lib, st, [tuple(e) for e in edits])


def structure_follows(el, ref, path, bad):
    """every element of a tree parsed / built under a profile must carry the profile's sub-reference for its own position:
    same child names in the same order, same cardinalities, same datatype"""
    if len(bad) >= 3 or not gen.is_seq(ref):
        return
    if el.classname in ('Message', 'Group', 'Segment') and len(ref) >= 2 and gen.is_seq(ref[1]):
        rows = [r for r in ref[1] if gen.is_seq(r) and len(r) == 4]
        want_names = [r[0] for r in rows]
        want_reps = {r[0]: tuple(r[2]) for r in rows}
        if len(set(want_names)) != len(want_names):
            pass        # a structure repeating a child name: the library renames the later rows (finding D17); no claim
        elif list(el.ordered_children or []) != want_names:
            bad.append('%s: children %s, profile says %s' % ('/'.join(path), list(el.ordered_children or [])[:8], want_names[:8]))
        elif {k: tuple(v) for k, v in el.repetitions.items()} != want_reps:
            diff = [(k, tuple(el.repetitions.get(k, ())), want_reps[k]) for k in want_reps if tuple(el.repetitions.get(k, ())) != want_reps[k]][:3]
            bad.append('%s: cardinalities differ from the profile: %s' % ('/'.join(path), diff))
        byname = {r[0]: r[1] for r in rows}
        seen = {}
        for c in el.children:
            if c.name in byname and c.classname in ('Group', 'Segment', 'Field'):
                seen[c.name] = seen.get(c.name, 0) + 1
                structure_follows(c, byname[c.name], path + ['%s[%d]' % (c.name, seen[c.name] - 1)], bad)
    elif el.classname in ('Field', 'Component') and len(ref) == 6:
        if ref[2] != 'varies' and el.datatype != ref[2] and not (ref[0] == 'leaf' and el.datatype is None):
            bad.append('%s: datatype %s, profile says %s' % ('/'.join(path), el.datatype, ref[2]))
        elif ref[0] == 'sequence' and gen.is_seq(ref[1]) and el.datatype == ref[2]:
            # below the field: the components (subcomponents) and their cardinalities are the profile's too
            rows = [r for r in ref[1] if gen.is_seq(r) and len(r) == 4]
            want_names = [r[0] for r in rows]
            want_reps = {r[0]: tuple(r[2]) for r in rows}
            if len(set(want_names)) == len(want_names):
                if list(el.ordered_children or []) != want_names:
                    bad.append('%s: children %s, profile says %s' % ('/'.join(path), list(el.ordered_children or [])[:8], want_names[:8]))
                elif {k: tuple(v) for k, v in el.repetitions.items()} != want_reps:
                    diff = [(k, tuple(el.repetitions.get(k, ())), want_reps[k]) for k in want_reps if tuple(el.repetitions.get(k, ())) != want_reps[k]][:3]
                    bad.append('%s: cardinalities differ from the profile: %s' % ('/'.join(path), diff))
                byname = {r[0]: r[1] for r in rows}
                for c in el.children:
                    if c.name in byname and c.classname == 'Component':
                        structure_follows(c, byname[c.name], path + [c.name], bad)


def pmsg(job):
    """(text, strict, find_groups, spec) -> parse_message(text, message_profile=p).to_er7() + tree # validate() against the profile"""
    from hl7apy.parser import parse_message
    t, strict, fg, spec = job[:4]
    route = job[4] if len(job) > 4 else 'parse'
    try:
        p = build_profile(spec)
        if route == 'value':
            # the other way of giving a profiled message its content: Message(structure, reference=profile).value = text (seed C18-h)
            from hl7apy.core import Message
            from hl7apy.parser import get_message_info
            ec, _, ver = get_message_info(t)
            m = Message(spec[1], reference=p, version=ver, validation_level=vlib.level(strict), encoding_chars=ec)
            m.value = t
        else:
            m = parse_message(t, validation_level=vlib.level(strict), find_groups=fg, message_profile=p)
    except Exception as e:  # noqa
        return 'exc ' + vlib.exc_name(e)
    tr = impl.tree(m.children)
    try:
        enc = 'ok ' + vlib.hexs(m.to_er7()) + ' ' + tr
    except Exception as e:  # noqa
        enc = 'encexc ' + vlib.exc_name(e) + ' ' + tr
    try:
        r = m.validate(return_errors=True)
        val = 'ok ' + '|'.join(impl.canon_err(e) for e in r.errors)
    except Exception as e:  # noqa
        val = 'valexc ' + vlib.exc_name(e)
    bad = []
    if p is not None and spec[3] == 'present' and m.name in p:
        try:
            structure_follows(m, p[m.name], [m.name], bad)
        except Exception as e:  # noqa
            bad.append('HARNESS ' + vlib.exc_name(e))
    return enc + ' # ' + val + (' @ ' + json.dumps(bad) if bad else '')


def model_line(job):
    t, strict, fg, (v, st, edits, mode) = job
    if mode == 'none':
        return None
    keys = {'present': st + ':p', 'legacy': st + ':l', 'absent': ('ACK' if st != 'ACK' else 'ADT_A01') + ':p'}[mode]
    return 'PMSG %s %s %s %s %s' % ('S' if strict else 'T', '1' if fg else '0', keys,
                                    ';'.join(profiles.edit_str(e) for e in edits) if edits and mode == 'present' else '-', vlib.hexs(t))


def creation(job):
    """(version, structure, groups, edit): children created through traversal, add_* helpers and assignment under Message(structure, reference=profile)
    must take datatype / cardinality / allowed children from the profile.  Returns a list of failed clauses."""
    from hl7apy.core import Message, Segment
    import hl7apy
    v, st, groups, e, strict = job
    bad = []
    try:
        lib = hl7apy.load_library(v)
        prof = profiles.make_profile(lib, st, [tuple(e)])

        def fresh():
            return Message(st, reference=prof, version=v, validation_level=vlib.level(strict))

        def container(m, via):
            x = m
            for g in groups:
                x = getattr(x, g.lower()) if via == 'traversal' else x.add_group(g)
            return x
        def new_segment(m, S):
            # (the MSH of a message exists from construction on: it is THE creation path for that segment, seed C18-e)
            return m.msh if S == 'MSH' else container(m, 'add').add_segment(S)
        if e[0] == 'R':
            S, F, dt = e[1], e[2], e[4]
            m = fresh()
            try:
                got = getattr(getattr(container(m, 'traversal'), S.lower()), F.lower()).datatype
            except Exception as ex:  # noqa
                if vlib.exc_name(ex) != 'MaxChildLimitReached':
                    raise
                got = dt
            if got != dt:
                bad.append('traversal: %s.%s has datatype %s, profile says %s' % (S, F, got, dt))
            m = fresh()
            try:
                got = new_segment(m, S).add_field(F).datatype
            except Exception as ex:  # noqa
                if vlib.exc_name(ex) != 'MaxChildLimitReached':      # (a withdrawn field, cardinality (0, 0), cannot be added under STRICT)
                    raise
                got = dt
            if got != dt:
                bad.append('add_segment/add_field: %s.%s has datatype %s, profile says %s' % (S, F, got, dt))
        elif e[0] == 'C' and e[1] == 's':
            S, F, mn, mx = e[2], e[3], e[4], e[5]
            m = fresh()
            seg = new_segment(m, S)
            n = 0
            exc = None
            for _ in range(max(mx, 0) + 2):
                try:
                    seg.add_field(F)
                    n += 1
                except Exception as ex:  # noqa
                    exc = vlib.exc_name(ex)
                    break
            if strict and mx >= 0 and (n != mx or exc != 'MaxChildLimitReached'):
                bad.append('STRICT add_field(%s): %d accepted then %s, profile max is %d' % (F, n, exc, mx))
            if not strict:
                errs = [impl.canon_err(x) for x in m.validate(return_errors=True).errors]
                if mx >= 0 and n > mx and 'exceeded:%s.%s' % (S, F) not in errs:
                    bad.append('TOLERANT: %d %s under a profile max of %d, validate() does not report it: %s' % (n, F, mx, errs[:5]))
            if mn >= 1:
                # fewer occurrences than the profile's minimum (none; and, for a minimum of 2 or more, one)
                for have in sorted({0, mn - 1}):
                    m = fresh()
                    sg_ = new_segment(m, S)
                    try:
                        for _ in range(have):
                            sg_.add_field(F)
                    except Exception:  # noqa
                        continue
                    errs = [impl.canon_err(x) for x in m.validate(return_errors=True).errors]
                    if 'missing:%s.%s' % (S, F) not in errs:
                        bad.append('profile requires %d x %s.%s, validate() of a segment holding %d does not report it: %s' % (mn, S, F, have, errs[:5]))
            if not strict and S != 'MSH':
                # a segment built on its own from the STANDARD tables and then attached: inside the profiled message it is judged by the profile
                # (validate() hands every child the sub-reference of its parent's reference — seed C18-i let the child use its own)
                for have, want in ([(mx + 1, 'exceeded:%s.%s' % (S, F))] if mx >= 0 else []) + ([(0, 'missing:%s.%s' % (S, F))] if mn >= 1 else []):
                    m = fresh()
                    free = Segment(S, version=v, validation_level=vlib.level(False))
                    try:
                        for _ in range(have):
                            free.add_field(F)
                        container(m, 'add').add(free)
                    except Exception:  # noqa
                        continue
                    errs = [impl.canon_err(x) for x in m.validate(return_errors=True).errors]
                    if want not in errs:
                        bad.append('a free-standing %s holding %d x %s attached to the profiled message: validate() does not report %s: %s' % (S, have, F, want, errs[:5]))
        elif e[0] == 'C' and e[1] == 'd':
            # a component of a datatype made required / limited by the profile: every field of that datatype created under the profile carries it
            dt, comp, mn, mx = e[2], e[3], e[4], e[5]
            holder = None
            for sname, sref in sorted(lib.SEGMENTS.items()):
                if gen.is_seq(sref) and len(sref) > 1 and gen.is_seq(sref[1]):
                    for row in sref[1]:
                        if gen.is_seq(row) and len(row) == 4 and gen.well_formed_ref(row[1]) and len(row[1]) == 6 and row[1][2] == dt and row[2][1] != 0:
                            holder = (sname, row[0])
                            break
                if holder:
                    break
            if holder:
                # find that segment inside the profile (by name, anywhere) and instantiate it with the profile's reference
                def find_seg(ref, depth=0):
                    if not (gen.is_seq(ref) and len(ref) >= 2 and gen.is_seq(ref[1])) or depth > 5:
                        return None
                    for r in ref[1]:
                        if gen.is_seq(r) and len(r) == 4:
                            if r[3] == 'SEG' and r[0] == holder[0]:
                                return r[1]
                            if r[3] == 'GRP':
                                x = find_seg(r[1], depth + 1)
                                if x is not None:
                                    return x
                    return None
                sref = find_seg(prof[st])
                if sref is not None:
                    seg = Segment(holder[0], reference=sref, version=v, validation_level=vlib.level(strict))
                    for via in ('traversal', 'add_field'):
                        f = getattr(seg, holder[1].lower()) if via == 'traversal' else seg.add_field(holder[1])
                        got = tuple(f.repetitions.get(comp, ())) if via == 'add_field' else None
                        if via == 'add_field' and got != (mn, mx):
                            bad.append('%s.%s (%s) by %s: cardinality of %s is %s, profile says %s' % (holder[0], holder[1], dt, via, comp, got, (mn, mx)))
        elif e[0] == 'F' and e[1] == 's':
            S, F = e[2], e[3]
            m = fresh()
            seg = container(m, 'add').add_segment(S)
            try:
                seg.add_field(F)
                if strict:
                    bad.append('STRICT add_field(%s) accepted although the profile does not allow it' % F)
                else:
                    errs = [impl.canon_err(x) for x in m.validate(return_errors=True).errors]
                    if not any(x.startswith('invalid-children:%s:' % S) and F in x for x in errs):
                        bad.append('TOLERANT: %s forbidden by the profile, validate() does not report it: %s' % (F, errs[:5]))
            except Exception as ex:  # noqa
                if vlib.exc_name(ex) not in ('ChildNotValid', 'ChildNotFound'):
                    bad.append('add_field(%s): %s' % (F, vlib.exc_name(ex)))
        elif e[0] in ('C', 'F') and e[1] in ('m', 'g'):
            child = e[3]
            m = fresh()
            c = container(m, 'add')
            if e[0] == 'F':
                try:
                    c.add_segment(child)
                    if strict:
                        bad.append('STRICT add_segment(%s) accepted although the profile does not allow it' % child)
                    else:
                        errs = [impl.canon_err(x) for x in m.validate(return_errors=True).errors]
                        if not any(x.startswith('invalid-children:%s:' % c.name) and child in x for x in errs):
                            bad.append('TOLERANT: %s forbidden by the profile, validate() does not report it: %s' % (child, errs[:5]))
                except Exception as ex:  # noqa
                    if vlib.exc_name(ex) not in ('ChildNotValid', 'ChildNotFound'):
                        bad.append('add_segment(%s): %s' % (child, vlib.exc_name(ex)))
            else:
                mn, mx = e[4], e[5]
                n, exc = 0, None
                for _ in range(max(mx, 0) + 2):
                    try:
                        c.add_segment(child)
                        n += 1
                    except Exception as ex:  # noqa
                        exc = vlib.exc_name(ex)
                        break
                if strict and mx >= 0 and (n != mx or exc != 'MaxChildLimitReached'):
                    bad.append('STRICT add_segment(%s): %d accepted then %s, profile max is %d' % (child, n, exc, mx))
                if not strict and mx >= 0 and n > mx:
                    errs = [impl.canon_err(x) for x in m.validate(return_errors=True).errors]
                    if 'exceeded:%s.%s' % (c.name, child) not in errs:
                        bad.append('TOLERANT: %d %s under a profile max of %d, validate() does not report it: %s' % (n, child, mx, errs[:5]))
    except Exception as ex:  # noqa
        import traceback
        return ['HARNESS ' + vlib.exc_name(ex) + ' ' + traceback.format_exc()[-300:]]
    return bad


def dup_later(job):
    """(version, structure, child): the structure names `child` twice at its top level; a profile makes only the LATER entry required;
    an instance without that child is then reported as missing it (the profile speaks through every entry — seed C18-j kept the first per name)"""
    import hl7apy
    from hl7apy.parser import parse_message
    v, st, child = job
    try:
        lib = hl7apy.load_library(v)
        ref = lib.MESSAGES[st]
        rows = list(ref[1])
        idx = [i for i, r in enumerate(rows) if gen.is_seq(r) and len(r) == 4 and r[0] == child]
        last = idx[-1]
        rows[last] = (rows[last][0], rows[last][1], (1, rows[last][2][1] if rows[last][2][1] != 0 else 1), rows[last][3])
        prof = {st: (ref[0], tuple(rows))}
        g = gen.ConfGen(random.Random(7), version=v)
        t, _, names = g.conf_message(st, 'required')
        if child in names:
            return 'skip'
        m = parse_message(t, validation_level=vlib.level(False), message_profile=prof, find_groups=False)
        errs = [impl.canon_err(x) for x in m.validate(return_errors=True).errors]
        m0 = parse_message(t, validation_level=vlib.level(False), find_groups=False)
        errs0 = [impl.canon_err(x) for x in m0.validate(return_errors=True).errors]
        return 'ok ' + json.dumps([('missing:%s.%s' % (st, child)) in errs, ('missing:%s.%s' % (st, child)) in errs0, errs[:6]])
    except Exception as e:  # noqa
        return 'exc ' + vlib.exc_name(e)


def shipped(_):
    """the profiles shipped with the repository's tests: selection clauses on real pickled profiles"""
    import os, hl7apy
    from hl7apy.parser import parse_message
    from hl7apy.core import Message
    base = os.path.join(os.path.dirname(os.path.dirname(hl7apy.__file__)), 'tests', 'profiles')
    out = []
    iti = hl7apy.load_message_profile(os.path.join(base, 'iti_21'))
    leg = hl7apy.load_message_profile(os.path.join(base, 'old_pharm_h4'))

    def outcome(f):
        try:
            f()
            return 'ok'
        except Exception as e:  # noqa
            return vlib.exc_name(e)
    adt = 'MSH|^~\\&|A|B|C|D|20200101||ADT^A01^ADT_A01|1|P|2.5\rEVN|A01|2020\rPID|1||1^^^A||X^Y\rPV1|1|I'
    ras = 'MSH|^~\\&|A|B|C|D|20200101||RAS^O17^RAS_O17|1|P|2.5\r'
    rsp = 'MSH|^~\\&|A|B|C|D|20200101||RSP^K22^RSP_K21|1|P|2.5\rMSA|AA|1\rQAK|1|OK\rQPD|IHE PDQ Query|1|@PID.5.1.1^SMITH'
    out.append(('iti_21 lacks ADT_A01: parse_message', outcome(lambda: parse_message(adt, message_profile=iti)), 'MessageProfileNotFound'))
    out.append(('iti_21 lacks ADT_A01: Message()', outcome(lambda: Message('ADT_A01', reference=iti)), 'MessageProfileNotFound'))
    out.append(('legacy profile: parse_message', outcome(lambda: parse_message(ras, message_profile=leg)), 'LegacyMessageProfile'))
    out.append(('legacy profile: Message()', outcome(lambda: Message('RAS_O17', reference=leg)), 'LegacyMessageProfile'))
    out.append(('iti_21 on its own structure: parse_message + validate report', outcome(lambda: parse_message(rsp, message_profile=iti).validate(return_errors=True)), 'ok'))
    out.append(('iti_21: Message() + traversal', outcome(lambda: Message('RSP_K21', reference=iti).qpd.qpd_1.to_er7()), 'ok'))
    return out


def seg_paths(ref, groups, out, depth=0):
    if not (gen.is_seq(ref) and len(ref) >= 2 and gen.is_seq(ref[1])):
        return out
    names = [row[0] for row in ref[1] if gen.is_seq(row) and len(row) == 4]
    for row in ref[1]:
        if not (gen.is_seq(row) and len(row) == 4):
            continue
        name, cref, card, cls = row
        if names.count(name) != 1 or name in ('MSH', 'ANYHL7SEGMENT'):
            continue
        if cls == 'SEG':
            out.append((list(groups), name, card))
        elif cls == 'GRP' and depth < 2:
            seg_paths(cref, groups + [name], out, depth + 1)
    return out


def candidate_edits(rng, lib, st, ex_v):
    """edits that speak about the structure `st`: (edit, groups-path-of-the-parent) pairs"""
    out = []
    ref = lib.MESSAGES[st]
    paths = [p for p in seg_paths(ref, [], []) if p[1] in lib.SEGMENTS and p[1] not in ex_v]
    complex_dts = sorted(k for k, r in lib.DATATYPES_STRUCTS.items() if gen.is_seq(r) and r)
    for groups, S, card in rng.sample(paths, min(4, len(paths))):
        tab, parent = ('g', groups[-1]) if groups else ('m', st)
        mn, mx = card if gen.is_seq(card) and len(card) == 2 else (0, -1)
        k = rng.random()
        if k < .35:
            out.append((('C', tab, parent, S, rng.choice([0, 1]), rng.choice([1, 2])), groups))
        elif k < .5:
            out.append((('F', tab, parent, S), groups))
        sref = lib.SEGMENTS[S]
        if not (gen.is_seq(sref) and len(sref) >= 2 and gen.is_seq(sref[1]) and sref[1]):
            continue
        rows = [r for r in sref[1] if gen.is_seq(r) and len(r) == 4 and gen.well_formed_ref(r[1]) and len(r[1]) == 6 and r[1][2] != 'varies']
        if not rows:
            continue
        F = rng.choice(rows)
        k = rng.random()
        if k < .4:
            mn_ = rng.choice([0, 1, 1, 2])          # (a minimum of 2: no shipped table has one, a profile may — seed C04-i)
            out.append((('C', 's', S, F[0], mn_, max(mn_, rng.choice([1, 1, 2, 3]))), groups))
        elif k < .55 and len(sref[1]) >= 2 and not any(gen.well_formed_ref(r_[1]) and len(r_[1]) == 6 and r_[1][2] == 'varies' for r_ in sref[1] if gen.is_seq(r_) and len(r_) == 4):
            # (a segment left without any field is not a profile the library can instantiate; a segment ending in a 'varies' field accepts every
            #  <SEG>_<n> child by the library's own rule, whatever its reference says, so a profile cannot forbid one there)
            out.append((('F', 's', S, F[0]), groups))
        elif k < .8:
            newdt = rng.choice([d for d in complex_dts if d != F[1][2]])
            out.append((('R', S, F[0], 'S', newdt), groups))
        else:
            out.append((('R', S, F[0], 'L', rng.choice([d for d in ('ST', 'NM', 'ID', 'DT', 'SI') if d != F[1][2]])), groups))
        if F[1][0] == 'sequence' and gen.is_seq(F[1][1]) and F[1][1] and rng.random() < .3:
            crow = rng.choice([r for r in F[1][1] if gen.is_seq(r) and len(r) == 4])
            out.append((('C', 'd', F[1][2], crow[0], 1, 1), groups))
    return out


def run(tier, seed):
    import hl7apy
    chk = vlib.Check('C18', tier, seed)
    rng = chk.rng
    chk.proof(MODULES, THEOREMS)
    ex = excluded()
    vs = [v for v in VERSIONS if v != '2.1']
    vs = vs if tier != 'quick' else sorted(rng.sample(vs, 3))
    nstruct = 6 if tier == 'quick' else 60
    jobs, meta, cjobs = [], [], []
    for v in vs:
        lib = hl7apy.load_library(v)
        g = gen.ConfGen(rng, version=v)
        structs = [s for s in g.structures() if '_' in s]      # ('ACK': MSH-9 carries no structure component, the profile is looked up under None)
        for st in rng.sample(structs, min(nstruct, len(structs))):
            try:
                text, der, names = g.conf_message(st, rng.choice(['required', 'random', 'all']))
            except Exception:  # noqa
                continue
            if any(n in ex.get(v, []) for n in names):
                continue
            fg = rng.random() < .6        # (with group finding off the segments are flat, and must follow the profile all the same: defect D39)
            # the three selection outcomes and the restating profile
            for mode in ('none', 'present', 'absent', 'legacy'):
                jobs.append((text, False, fg, (v, st, [], mode)))
                meta.append({'kind': mode, 'version': v, 'structure': st})
            cands = candidate_edits(rng, lib, st, ex.get(v, []))
            # a group that occurs more than once in an instance, with an edit that speaks about that group: every repetition must carry it
            for _ in range(4):
                try:
                    text2, der2, names2 = g.conf_message(st, 'random')
                except Exception:  # noqa
                    break
                if any(n in ex.get(v, []) for n in names2):
                    continue
                rep_groups = sorted(set(n[1] for n in der2 if n[0] == 'G' and sum(1 for x in der2 if x[0] == 'G' and x[1] == n[1]) > 1))
                if not rep_groups:
                    continue
                G = rng.choice(rep_groups)
                gref = lib.GROUPS.get(G)
                if gen.is_seq(gref) and len(gref) >= 2 and gen.is_seq(gref[1]):
                    rows = [r for r in gref[1] if gen.is_seq(r) and len(r) == 4 and gen.is_seq(r[2]) and len(r[2]) == 2]
                    if rows and len(set(r[0] for r in rows)) == len(rows):
                        r = rng.choice(rows)
                        e = ['C', 'g', G, r[0], r[2][0], 7 if r[2][1] == -1 else r[2][1] + 1]
                        jobs.append((text2, False, True, (v, st, [e], 'present')))
                        meta.append({'kind': 'edit', 'version': v, 'structure': st, 'edit': e, 'repeated_group': G})
                break
            for e, groups in cands:
                for strict in ((False, True) if rng.random() < .5 else (False,)):
                    jobs.append((text, strict, fg, (v, st, [list(e)], 'present')))
                    meta.append({'kind': 'edit', 'version': v, 'structure': st, 'edit': list(e)})
                cjobs.append((v, st, groups, list(e), rng.random() < .5))
            # the header: Message(structure, reference=profile) builds its own MSH, which must come from the profile as well
            mrows = [r for r in lib.SEGMENTS['MSH'][1] if gen.is_seq(r) and len(r) == 4 and gen.well_formed_ref(r[1]) and len(r[1]) == 6 and r[1][2] != 'varies'
                     and r[0].split('_')[1] in ('3', '4', '5', '6', '8', '13', '14', '15', '16', '17', '18', '19')]
            if mrows:
                F = rng.choice(mrows)
                cdts = sorted(k for k, r_ in lib.DATATYPES_STRUCTS.items() if gen.is_seq(r_) and r_ and k != F[1][2])
                e = rng.choice([('R', 'MSH', F[0], 'S', rng.choice(cdts)),
                                ('R', 'MSH', F[0], 'L', rng.choice([d for d in ('ST', 'NM', 'ID', 'DT', 'SI') if d != F[1][2]])),
                                ('C', 's', 'MSH', F[0], rng.choice([0, 1]), rng.choice([1, 2, 3]))])
                cjobs.append((v, st, [], list(e), rng.random() < .5))
    res0 = vlib.pmap(pmsg, jobs, chunk=8)
    res = [r.split(' @ ')[0] for r in res0]
    for j, mt, r in zip(jobs, meta, res0):
        if ' @ ' in r:
            chk.evals += 1
            chk.fail(None, {'clause': "an element parsed under a profile carries the profile's sub-reference for its position", 'failed': json.loads(r.split(' @ ', 1)[1]), **mt},
                     {'text': j[0], 'strict': j[1], 'find_groups': j[2], 'spec': list(j[3])})
    lines = [model_line(j) for j in jobs]
    idx = [i for i, l in enumerate(lines) if l is not None]
    mo = vlib.run_driver([lines[i] for i in idx])
    chk.correspond('parse_message(text, message_profile=p); to_er7; validate  vs  Prof.parseMessageP / encMessage / validateMessage on applyAll edits T',
                   [dict(meta[i], text=jobs[i][0][:200], strict=jobs[i][1]) for i in idx], [res[i] for i in idx], mo)
    # oracle: selection clauses and the restating profile, on the implementation alone
    base = {}
    for j, mt, r in zip(jobs, meta, res):
        if mt['kind'] == 'none':
            base[(j[0], j[1])] = r
    kinds = {}
    speaks = 0
    for j, mt, r in zip(jobs, meta, res):
        chk.evals += 1
        if mt['kind'] == 'edit' and r != base.get((j[0], False)) and not j[1]:
            speaks += 1
        kinds[mt['kind']] = kinds.get(mt['kind'], 0) + 1
        rep = {'text': j[0], 'strict': j[1], 'find_groups': j[2], 'spec': list(j[3])}
        if mt['kind'] == 'absent' and r != 'exc MessageProfileNotFound':
            chk.fail(None, {'clause': 'profile lacking the structure raises MessageProfileNotFound', 'got': r[:200], **mt}, rep)
        elif mt['kind'] == 'legacy' and r != 'exc LegacyMessageProfile':
            chk.fail(None, {'clause': 'legacy-format profile raises LegacyMessageProfile', 'got': r[:200], **mt}, rep)
        elif mt['kind'] == 'present' and r != base.get((j[0], j[1])):
            chk.fail(None, {'clause': 'a profile restating the standard structure changes nothing', 'with_profile': r[:300], 'without': str(base.get((j[0], j[1])))[:300], **mt}, rep)
        elif mt['kind'] == 'edit' and r.startswith('ok '):
            chk.nontrivial.add((mt['version'], mt['structure'], json.dumps(mt['edit']), r.split(' # ')[-1]))
    # oracle: Message(structure, reference=profile).value = text gives what parse_message(text, message_profile=profile) gives
    vjobs = [(j, mt, r) for j, mt, r in zip(jobs, meta, res0) if mt['kind'] == 'edit' and j[2] and r.startswith('ok ')]
    vjobs = rng.sample(vjobs, min(len(vjobs), 60 if tier == 'quick' else 2000))
    for (j, mt, r), r2 in zip(vjobs, vlib.pmap(pmsg, [tuple(j) + ('value',) for j, _, _ in vjobs], chunk=8)):
        chk.evals += 1
        if r2 != r:
            chk.fail(None, {'clause': 'Message(structure, reference=profile).value = text follows the profile like parse_message(text, message_profile=profile)',
                            'by_value_assignment': r2[-400:], 'by_parse_message': r[-400:], **mt},
                     {'text': j[0], 'strict': j[1], 'find_groups': j[2], 'spec': list(j[3]), 'route': 'value'})
    chk.dist['value_assignment_route'] = len(vjobs)
    # oracle: a profile that speaks through the LATER of two entries of one name
    djobs = []
    for v in VERSIONS:
        if v == '2.1':
            continue
        lib = hl7apy.load_library(v)
        for st in sorted(k for k in lib.MESSAGES if k == k.upper()):
            ref = lib.MESSAGES[st]
            if not (gen.is_seq(ref) and len(ref) >= 2 and gen.is_seq(ref[1])):
                continue
            nm = [r[0] for r in ref[1] if gen.is_seq(r) and len(r) == 4 and r[3] == 'SEG']
            for c in sorted({x for x in nm if nm.count(x) > 1}):
                last = [r for r in ref[1] if gen.is_seq(r) and len(r) == 4 and r[0] == c][-1]
                if gen.is_seq(last[2]) and len(last[2]) == 2 and last[2][0] == 0:
                    djobs.append((v, st, c))
    djobs = rng.sample(djobs, min(len(djobs), 12 if tier == 'quick' else len(djobs)))
    for j, o in zip(djobs, vlib.pmap(dup_later, djobs, chunk=2)):
        chk.evals += 1
        if o.startswith('ok '):
            with_prof, without, errs = json.loads(o[3:])
            if not with_prof or without:
                chk.fail(None, {'clause': 'validate() judges by every entry of the profile, also the later of two entries naming the same child',
                                'version': j[0], 'structure': j[1], 'child': j[2], 'reported_with_profile': with_prof, 'reported_without': without, 'errors': errs},
                         {'dup_later': list(j)})
            else:
                chk.nontrivial.add(('dup_later',) + tuple(j))
        elif o != 'skip':
            chk.notes.append('dup_later %s: %s' % (j, o))
    chk.dist['later_entry_of_a_repeated_name'] = len(djobs)
    # oracle: creation paths under Message(structure, reference=profile)
    cres = vlib.pmap(creation, cjobs, chunk=8)
    for cj, bad in zip(cjobs, cres):
        chk.evals += 1
        rep = {'creation': list(cj)}
        if bad and bad[0].startswith('HARNESS'):
            chk.broken.append({'kind': 'harness', 'log': bad[0][:500], 'case': list(cj)})
        elif bad:
            chk.fail(None, {'clause': 'children created under a profile follow the profile', 'version': cj[0], 'structure': cj[1], 'groups': cj[2], 'edit': cj[3],
                            'strict': cj[4], 'failed': bad[:4]}, rep)
        else:
            chk.nontrivial.add(('creation', cj[0], cj[1], json.dumps(cj[3]), cj[4]))
    for what, got, want in vlib.pmap(shipped, [0])[0]:
        chk.evals += 1
        if got != want:
            chk.fail(None, {'clause': 'shipped profiles: ' + what, 'got': got, 'expected': want}, {'shipped': what})
    chk.dist.update({'versions': vs, 'parse_jobs': kinds, 'tolerant_edit_jobs_whose_result_differs_from_the_standard': speaks, 'creation_jobs': len(cjobs),
                     'edit_kinds': {k: sum(1 for c in cjobs if c[3][0] + (c[3][1] if c[3][0] != 'R' else c[3][3]) == k) for k in
                                    sorted(set(c[3][0] + (c[3][1] if c[3][0] != 'R' else c[3][3]) for c in cjobs))}})
    chk.exhaustive = False
    chk.rule = ('for sampled message structures of the chosen versions: a conforming instance parsed (i) without profile, (ii) with the profile that restates the standard, '
                '(iii) with a profile lacking the structure, (iv) with a legacy entry, (v) with profiles carrying one constraint edit each (cardinality of a segment in the message or in a '
                'group, of a field in a segment, of a component in a datatype; child forbidden; field datatype swapped to another complex or to a base datatype), TOLERANT and STRICT; '
                'encoding, group tree and validation report compared with the model on the edited tables; and, under Message(structure, reference=profile), children created by traversal '
                'and by add_group / add_segment / add_field checked against the edit (datatype, STRICT cardinality limit, forbidden child, validate() report). '
                'Non-trivial = distinct (structure, edit, report).')
    chk.assumptions = ['edits are applied uniformly by name inside one profile (every occurrence of the edited parent carries the edit)',
                       'v2.1 left out (its tables hold malformed group rows, finding D2)', "no 'forbid' edit on fields of open-ended segments (QPD, RDT, ...: every <SEG>_<n> is a valid child there by the library's rule)", 'guard-listed segments skipped']
    return chk.finish()


def replay(path):
    d = json.load(open(path))
    print(json.dumps(d['what'], indent=1)[:3000])
    r = d['replay']
    if 'shipped' in r:
        print(shipped(0))
    elif 'creation' in r:
        c = r['creation']
        print(creation((c[0], c[1], c[2], c[3], c[4])))
    elif 'spec' in r:
        s = r['spec']
        print(pmsg((r['text'], r['strict'], r['find_groups'], (s[0], s[1], s[2], s[3]))))
    return 0
