"""Shared by C09-C12: the two harnesses on the real element graph.

* low level  (tools/heapcorr.py): random histories of ElementList.append / insert / remove / replace_child, the `parent`
  setter, the traversal-parent setter and set_parent_to_traversal() on real Segment / Field / Group / Message objects,
  executed side by side with the Lean model `Hl7.Heap` (driver op HEAP) — the correspondence;
* API level  (tools/hist.py): histories of attribute assignment, indexing, add / add_<child>, del, copies, re-attachment,
  rejected calls … on a Segment or a Message, judged against the ordered-list reference model, the graph invariants and
  before/after observation.

Each property picks its clause from the same runs.
"""
import hist, heapcorr, apicorr, vlib

MODULES = {'C09': ['Hl7.Props.C09', 'Hl7.Props.C11P'], 'C10': ['Hl7.Props.C10', 'Hl7.Props.C11P'], 'C11': ['Hl7.Props.C11', 'Hl7.Props.C11P'], 'C12': ['Hl7.Props.C12', 'Hl7.Props.C10']}
THEOREMS = {
    'C09': ['Hl7.Heap.C09_append_list', 'Hl7.Heap.C09_append_frame', 'Hl7.Heap.C09_remove_list', 'Hl7.Heap.C09_remove_frame',
            'Hl7.Heap.C09_insert_list', 'Hl7.Heap.C09_replace_in_place', 'Hl7.Heap.C09_replace_spec',
            'Hl7.Heap.C09_set_replaces_addressed', 'Hl7.Heap.C09_set_appends_when_absent', 'Hl7.Heap.C09_removeByName', 'Hl7.Heap.C09_removeByName_absent',
            'Hl7.Heap.childAt_listed', 'Hl7.Heap.appendP_not_pending', 'Hl7.Heap.pyIdx_neg_length', 'Hl7.Heap.pyIdx_below', 'Hl7.Heap.pyIdx_neg_one'],
    'C10': ['Hl7.Heap.C10_append', 'Hl7.Heap.C10_remove', 'Hl7.Heap.C10_insert', 'Hl7.Heap.C10_replace', 'Hl7.Heap.C10_setParent',
            'Hl7.Heap.C10_unsetParent', 'Hl7.Heap.C10_setTrav', 'Hl7.Heap.C10_promote', 'Hl7.Heap.C10_appendP', 'Hl7.Heap.C11_appendP_materialises', 'Hl7.Heap.C10_step', 'Hl7.Heap.C10_reachable',
            'Hl7.Heap.C10_one_parent', 'Hl7.Heap.Inv.unique'],
    'C11': ['Hl7.Heap.C11_read_writes_nothing', 'Hl7.Heap.C11_promote_stop', 'Hl7.Heap.C11_promote_exact', 'Hl7.Heap.setParent_ok',
            'Hl7.Heap.appendP_not_pending', 'Hl7.Heap.promote_keeps_parent', 'Hl7.Heap.C11_promote_first', 'Hl7.Heap.C11_appendP_materialises'],
    'C12': ['Hl7.Heap.C12_append_atomic', 'Hl7.Heap.C12_insert_atomic', 'Hl7.Heap.C12_remove_atomic', 'Hl7.Heap.C12_replace_atomic',
            'Hl7.Heap.C12_replace_traversal', 'Hl7.Heap.C12_setParent_atomic',
            'Hl7.Heap.C12_appendP_refused', 'Hl7.Heap.C12_appendP_atomic', 'Hl7.Heap.C12_setParentP_refused'],
}


def low_level(chk, n):
    """correspondence real ElementList vs Hl7.Heap on `n` histories; returns the runs for the property's own low-level oracle"""
    runs = heapcorr.collect(chk.rng, n)
    ok = [r for r in runs if not (r['impl'] and r['impl'][0].startswith('HARNESS'))]
    for r in runs:
        if r['impl'] and r['impl'][0].startswith('HARNESS'):
            chk.broken.append({'kind': 'harness', 'log': r['impl'][0]})
    cases, a, b = [], [], []
    for r in ok:
        # compare step by step up to the first difference, so that the report names the operation
        k = next((i for i in range(min(len(r['impl']), len(r['model']))) if r['impl'][i] != r['model'][i]), None)
        cases.append({'line': r['line'], 'first_difference_at': k, 'op': r['mops'][k] if k is not None and k < len(r['mops']) else None})
        a.append('|'.join(r['impl']))
        b.append('|'.join(r['model']))
    chk.correspond('ElementList / parent setters on real objects vs Hl7.Heap (op by op: outcome, every child list, parent, traversal parent, traversal index)',
                   cases, a, b)
    kinds, tags = {}, {}
    for r in ok:
        for op, o in zip(r['history']['ops'], r['impl']):
            kinds[op[0]] = kinds.get(op[0], 0) + 1
            tags[o.split(' ')[0]] = tags.get(o.split(' ')[0], 0) + 1
    chk.dist['low_level'] = {'histories': len(ok), 'ops_by_kind': kinds, 'outcomes': tags}
    return ok


def api_level(chk, n):
    """correspondence of public-API histories (tools/apicorr.py) with Hl7.Heap through the call-by-call translation"""
    runs = apicorr.collect(chk.rng, n)
    ok = []
    for r in runs:
        if 'harness' in r:
            chk.broken.append({'kind': 'harness', 'log': r['harness'][:500]})
        else:
            ok.append(r)
    cases, a, b = [], [], []
    tags, kinds = {}, {}
    for r in ok:
        k = next((i for i in range(len(r['impl'])) if r['impl'][i] != r['model'][i]), None)
        cases.append({'history': r['history'], 'line': r['line'][:400], 'first_difference_at': k, 'call': r['history']['ops'][k] if k is not None else None})
        a.append('|'.join(r['impl']))
        b.append('|'.join(r['model']))
        for op, x in zip(r['history']['ops'], r['impl']):
            tags[x.split(' ')[0]] = tags.get(x.split(' ')[0], 0) + 1
            kinds[op[0]] = kinds.get(op[0], 0) + 1
    chk.correspond('public API calls on a Segment / Message (assignment by name and index, add, add_<child>, del, remove, parent setter, moves) vs their translation into Hl7.Heap '
                   '(call by call: outcome, child lists of both parents, parent of every element)', cases, a, b)
    chk.dist['api_level_correspondence'] = {'histories': len(ok), 'calls_by_kind': kinds, 'outcomes': tags}
    return ok


def steps(r):
    """iterate (i, op, mop, tag, before_dump, after_dump) of one low-level run (parsed dumps)"""
    n = len(r['history']['nodes'])
    prev = heapcorr.parse_dump(';'.join(['/-/-/'] * n))
    for i, (op, o) in enumerate(zip(r['history']['ops'], r['impl'])):
        tag, d = o.split(' ', 1)
        cur = heapcorr.parse_dump(d)
        yield i, op, r['mops'][i] if i < len(r['mops']) else None, tag, prev, cur
        prev = cur


def api_histories(chk, nseg, nmsg, maxlen=14):
    rng = chk.rng
    hs = [hist.gen_segment_history(rng, rng.randrange(2, maxlen), strict=rng.random() < .3, reject=rng.random() < .6) for _ in range(nseg)] + \
         [hist.gen_message_history(rng, rng.randrange(2, maxlen - 2), strict=rng.random() < .3, reject=rng.random() < .5) for _ in range(nmsg)] + \
         [hist.gen_field_history(rng, rng.randrange(2, maxlen - 2), strict=rng.random() < .3, reject=rng.random() < .5) for _ in range(nmsg)]
    res = vlib.pmap(hist.run_history_job, hs)
    kinds, excs = {}, {}
    for h, recs in zip(hs, res):
        for r in recs:
            kinds[r['op'][0]] = kinds.get(r['op'][0], 0) + 1
            if r['exc']:
                excs[r['exc'].split(':')[0] if r['exc'].startswith('HARNESS') else r['exc']] = excs.get(r['exc'], 0) + 1
            if r['exc'] and r['exc'].startswith('HARNESS'):
                chk.broken.append({'kind': 'harness', 'log': r['exc']})
    chk.dist['api_histories'] = {'segment': nseg, 'message': nmsg, 'field': nmsg, 'ops_by_kind': kinds, 'exceptions': excs,
                                 'strict_share': round(sum(1 for h in hs if h['strict']) / max(1, len(hs)), 2)}
    return list(zip(hs, res))


def sizes(tier):
    return {'quick': (1200, 3000, 1200), 'thorough': (12000, 9000, 3000)}[tier]      # low-level, segment histories, message histories


def api_size(tier):
    return {'quick': 300, 'thorough': 6000}[tier]


def replay_history(h, upto):
    h = dict(h, ops=h['ops'][:upto + 1])
    return hist.run_history(h)
