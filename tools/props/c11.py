"""C11 — Reading never writes; the first write materialises exactly the path read."""
import json
import vlib, gen, chains, heapcorr
from props import heapcommon as hc
from props.c01 import VERSIONS, excluded

SAFE = gen.SAFE


def seg_paths(lib, ref, groups, out, depth=0):
    """(groups, segment) for every segment row reachable in a message structure; names repeated inside one parent are skipped (finding D17)"""
    if not (gen.is_seq(ref) and len(ref) >= 2 and gen.is_seq(ref[1])):
        return out
    names = [row[0] for row in ref[1] if gen.is_seq(row) and len(row) == 4]
    for row in ref[1]:
        if not (gen.is_seq(row) and len(row) == 4):
            continue
        name, cref, card, cls = row
        if names.count(name) != 1 or name in ('MSH', 'ANYHL7SEGMENT'):
            continue
        if cls == 'SEG':
            out.append((list(groups), name))
        elif cls == 'GRP' and depth < 3:
            seg_paths(lib, cref, groups + [name], out, depth + 1)
    return out


def chain_cases(rng, v, nstruct, per_struct, ex):
    import hl7apy
    lib = hl7apy.load_library(v)
    structs = sorted(k for k in lib.MESSAGES if k == k.upper())
    cases = []
    for st in rng.sample(structs, min(nstruct, len(structs))):
        paths = [p for p in seg_paths(lib, lib.MESSAGES[st], [], []) if p[1] in lib.SEGMENTS and p[1] not in ex.get(v, [])]
        for groups, S in rng.sample(paths, min(per_struct, len(paths))):
            sref = lib.SEGMENTS[S]
            if not (gen.is_seq(sref) and len(sref) >= 2 and gen.is_seq(sref[1]) and sref[1]):
                continue
            rows = sref[1]
            i = rng.randrange(len(rows))
            # half of the chains go down to a subcomponent when the segment has a field with a complex component (depth 4 is where
            # seed C11-b wrote on a read; by chance alone few chains get there)
            deep = [k for k, r_ in enumerate(rows) if gen.well_formed_ref(r_[1]) and len(r_[1]) == 6 and r_[1][0] == 'sequence' and gen.is_seq(r_[1][1]) and
                    any(gen.is_seq(c_) and len(c_) == 4 and gen.well_formed_ref(c_[1]) and len(c_[1]) == 6 and c_[1][0] == 'sequence' and c_[1][1] for c_ in r_[1][1])]
            want_deep = bool(deep) and rng.random() < .5
            if want_deep:
                i = rng.choice(deep)
            F, fref = rows[i][0], rows[i][1]
            if not (gen.well_formed_ref(fref) and len(fref) == 6) or fref[2] == 'varies':
                continue
            comp = sub = None
            seps = ''
            dt = fref[2]
            if fref[0] == 'sequence' and gen.is_seq(fref[1]) and fref[1] and (want_deep or rng.random() < .8):
                j = rng.randrange(len(fref[1]))
                if want_deep:
                    j = rng.choice([k for k, c_ in enumerate(fref[1]) if gen.is_seq(c_) and len(c_) == 4 and gen.well_formed_ref(c_[1]) and len(c_[1]) == 6
                                    and c_[1][0] == 'sequence' and c_[1][1]])
                crow = fref[1][j]
                cref = crow[1]
                if not (gen.well_formed_ref(cref) and len(cref) == 6) or cref[2] == 'varies':
                    continue
                comp, dt, seps = crow[0], cref[2], '^' * j
                if cref[0] == 'sequence' and gen.is_seq(cref[1]) and cref[1] and (want_deep or rng.random() < .8):
                    k = rng.randrange(len(cref[1]))
                    srow = cref[1][k]
                    if not (gen.well_formed_ref(srow[1]) and len(srow[1]) == 6) or srow[1][0] != 'leaf':
                        continue
                    sub, dt, seps = srow[0], srow[1][2], seps + '&' * k
                elif cref[0] != 'leaf':
                    continue
            elif fref[0] != 'leaf':
                continue
            val = SAFE.get(dt, 'X')
            spelling = rng.choice(['name', 'path'])
            cname, sname = comp, sub
            if spelling == 'path' and comp:
                cname = '%s_%d' % (F, len(seps.split('&')[0]) + 1)
                # (a subcomponent is addressed from its component by name; F_j_k paths are resolved from the field - C14)
            cases.append({'version': v, 'structure': st, 'groups': groups, 'segment': S, 'field': F, 'component': cname, 'sub': sname,
                          'value': val, 'reads': rng.choice([1, 2, 3]), 'rounds': rng.choice([1, 1, 2, 3, 4]), 'expected_line': S + '|' * (i + 1) + seps + val})
    return cases


def run(tier, seed):
    chk = vlib.Check('C11', tier, seed)
    rng = chk.rng
    chk.proof(hc.MODULES['C11'], hc.THEOREMS['C11'])
    nlow, nseg, nmsg = hc.sizes(tier)
    runs = hc.low_level(chk, nlow)
    for r in runs:
        for i, op, mop, tag, before, after in hc.steps(r):
            if mop is None or mop == 'N' or op[0] not in ('T', 'P'):
                continue
            chk.evals += 1
            lp = lambda d: [n[:2] for n in d]
            bad = None
            if op[0] == 'T' and lp(before) != lp(after):
                bad = 'creating a traversal child changed a child list or a parent pointer'
            if op[0] == 'P':
                c = op[1]
                pending = before[c][2] is not None and before[c][1] is None
                if not pending and lp(before) != lp(after):
                    bad = 'set_parent_to_traversal() on an element that is not a pending traversal child changed a list or a parent'
                if pending and tag == 'ok':
                    for x, (b, a) in enumerate(zip(before, after)):
                        if a[0][:len(b[0])] != b[0]:
                            bad = 'promotion changed the previous content of a child list'
                        for y in a[0][len(b[0]):]:
                            if before[y][2] != x or before[y][1] is not None or a[0].count(y) != 1:
                                bad = 'promotion listed an element that was not a pending traversal child of that element, or listed it twice'
            if bad:
                chk.fail(None, {'clause': bad, 'op': op, 'ops': r['history']['ops'][:i + 1], 'nodes': [n[:2] for n in r['history']['nodes']],
                                'before': [list(n) for n in before], 'after': [list(n) for n in after]}, {'kind': 'low', 'history': r['history'], 'step': i})
                break
            chk.nontrivial.add((op[0], tag, r['impl'][i]))
    for h, recs in hc.api_histories(chk, nseg // 2, nmsg):
        for i, r in enumerate(recs):
            if r['op'][0] == 'read':
                chk.evals += 1
                if r['read_noop'] is False:
                    chk.fail(None, {'clause': 'reads changed the encoding or the children', 'root': h['root'], 'strict': h['strict'], 'ops': h['ops'][:i + 1],
                                    'encoding_after': r['enc'], 'children_after': r['children']}, {'kind': 'api', 'history': h, 'step': i})
                    break
            if r['op'][0] == 'mpath' and r['exc'] is None:
                chk.evals += 1
                if r['enc'] != r['spec']:
                    chk.fail(None, {'clause': 'write through a chain materialises the chain at its place', 'ops': h['ops'][:i + 1], 'strict': h['strict'],
                                    'encoding': r['enc'], 'reference_model': r['spec']}, {'kind': 'api', 'history': h, 'step': i})
                    break
    ex = excluded()
    vs0 = [v for v in VERSIONS if v != '2.1']       # v2.1: group rows with None references make Message() crash (finding D2, claimed under C15)
    vs = vs0 if tier != 'quick' else sorted(rng.sample(vs0, 3))
    cases = []
    for v in vs:
        cases += chain_cases(rng, v, 40 if tier != 'quick' else 10, 12 if tier != 'quick' else 6, ex)
    # the same chains, the first write spelled `<chain>.value = v` at a random depth, with and without content
    for c in list(cases):
        if rng.random() < .5:
            nlinks = len(c['groups']) + 2 + (1 if c['component'] else 0) + (1 if c['sub'] else 0)
            cases.append(dict(c, valuewrite=[rng.randrange(1, nlinks + 1), rng.choice(['', '', 'X', '^', '^^X', c['segment'], c['segment'] + '|', c['segment'] + '||X'])], rounds=1))
    outs = vlib.pmap(chains.chain_job, cases)
    depth = {}
    for c, o in zip(cases, outs):
        chk.evals += 1
        d = 2 + len(c['groups']) + (1 if c['component'] else 0) + (1 if c['sub'] else 0)
        depth[d] = depth.get(d, 0) + 1
        if o.startswith('ok '):
            chk.nontrivial.add((c['version'], c['segment'], c['field'], c['component'], c['sub']))
            continue
        if o.startswith('HARNESS'):
            chk.broken.append({'kind': 'harness', 'log': o[:600], 'case': c})
            continue
        chk.fail(None, {'clause': 'read chain then first write', 'result': o[:800], **c}, {'kind': 'chain', 'case': c})
    # the same reads, and `.value`, on free-standing segments that hold nothing (MSH among them)
    sjobs = sorted({(c['version'], c['segment'], (c['field'], c['component'], c['sub'])) for c in cases})
    for v in vs:
        sjobs += [(v, 'MSH', ('MSH_%d' % i, None, None)) for i in (1, 2, 3, 9)] + [(v, 'MSH', ('MSH_9', 'MSG_1', None)), (v, 'BHS', ('BHS_1', None, None)), (v, 'BHS', ('BHS_2', None, None))]
    for j, o in zip(sjobs, vlib.pmap(chains.standalone_job, sjobs)):
        chk.evals += 1
        if not o.startswith('ok '):
            chk.fail(None, {'clause': 'reads on a free-standing segment write nothing', 'result': o[:800], 'version': j[0], 'segment': j[1], 'chain': [x for x in j[2] if x]},
                     {'kind': 'standalone', 'case': [j[0], j[1], list(j[2])]})
    chk.dist['standalone_read_chains'] = len(sjobs)
    chk.dist['chains'] = {'cases': len(cases), 'versions': vs, 'by_depth': depth}
    chk.exhaustive = False
    chk.rule = ('read chains message -> [groups] -> segment -> field -> [component -> [subcomponent]] (by name or positional path) sampled from the message structures '
                'and segment tables of the chosen versions; each level is read (getattr, len, iteration, repr, to_er7, indexing) 1-3 times and a snapshot '
                '(encoding, full child tree, validate() result) compared; then one value is assigned at the end: the new elements must be the chain (once each, listed by '
                'the previous link, no traversal pointer left, nothing left in the shadow index) plus the content of the assigned element, and the message must '
                'encode the value at the position the tables define. Low level: the traversal-parent setter and set_parent_to_traversal() inside random histories. '
                'Non-trivial = distinct chains / states.')
    chk.assumptions = ['TOLERANT validation for the chain harness', 'v2.1 left out of the chain harness (malformed group rows, finding D2)', 'structures that repeat a child name inside one parent are skipped (finding D17)', 'guard-listed segments skipped']
    chk.samples = [{'chain': [c['structure']] + c['groups'] + [c['segment'], c['field'], c['component'], c['sub']], 'result': o[:40]} for c, o in list(zip(cases, outs))[:8]]
    return chk.finish()


def replay(path):
    d = json.load(open(path))
    print(json.dumps(d['what'], indent=1)[:3000])
    r = d['replay']
    if r.get('kind') == 'standalone':
        o = chains.standalone_job((r['case'][0], r['case'][1], tuple(r['case'][2])))
        print('replayed:', o)
        return 0 if o.startswith('ok') else 1
    if r.get('kind') == 'chain':
        o = chains.chain_job(r['case'])
        print('replayed:', o)
        return 0 if o.startswith('ok') else 1
    if r.get('kind') == 'api':
        recs = hc.replay_history(r['history'], r['step'])
        print('replayed:', json.dumps(recs[-1])[:600])
    if r.get('kind') == 'low':
        h = dict(r['history'], ops=r['history']['ops'][:r['step'] + 1])
        print('replayed:', heapcorr.run_real(h)[0][-2:])
    return 0
