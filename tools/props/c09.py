"""C09 — Child mutations behave like edits of an ordered list."""
import json
import vlib, hist, heapcorr
from props import heapcommon as hc


def py_index(l, i):
    return l[i] if -len(l) <= i < len(l) else None


def promote(lists, before, p):
    """`set_parent_to_traversal()` on the reference lists: a pending traversal element (no parent, a traversal parent) is listed by its
    traversal parent, and so on up the chain (what receiving a real child does to the receiving element since the repair of D34)"""
    seen = set()
    x = p
    while x not in seen and before[x][1] is None and before[x][2] is not None:
        seen.add(x)
        q = before[x][2]
        if x not in lists[q]:
            lists[q].append(x)
        x = q
    return lists


def expected_lists(op, before, names=None):
    """the ordered-list reference model on the low-level vocabulary: expected child lists after a *successful* op, or None when
    the op is outside what C09 speaks of (traversal children, moves of an already listed child)"""
    lists = [list(n[0]) for n in before]
    k = op[0]
    if k == 'E':
        # assignment addressed by name and index: the i-th repetition of that name is replaced in place, else the child is appended
        p, new, i = op[1], op[2], op[3]
        old = py_index([c for c in lists[p] if names[c] == names[new]], i)
        if old is None:
            told = py_index([c for c in before[p][3] if names[c] == names[new]], i)
            if told is not None and told != new:
                return None                   # a pending traversal child is addressed: replaced in the shadow index, then appended
            r = expected_lists(('A', p, new), before)
        else:
            r = expected_lists(('X', p, old, new), before)
        return promote(r, before, p) if r is not None else None      # `ElementList.set` ends with set_parent_to_traversal()
    if k == 'D':
        p, nm, i = op[1], op[2], op[3]
        c = py_index([c for c in lists[p] if names[c] == nm], i)
        if c is None:
            return None
        return expected_lists(('R', p, c), before)
    if k in ('A', 'S'):
        p, c = op[1], op[2]
        if before[c][2] == p and before[c][1] != p and k == 'A':
            return None                       # a traversal child: filed in the shadow index, not in the list
        if before[c][1] is not None and before[c][1] != p and c in lists[before[c][1]]:
            lists[before[c][1]].remove(c)     # copy by reference is a move: one parent only
        if c not in lists[p]:
            lists[p].append(c)
            promote(lists, before, p)         # receiving a real child materialises a pending traversal element (D34)
        return lists
    if k == 'R':
        p, c = op[1], op[2]
        if before[c][2] == p:
            return None
        lists[p].remove(c)
        return lists
    if k == 'U':
        c = op[1]
        if before[c][1] is not None and c in lists[before[c][1]]:
            lists[before[c][1]].remove(c)
        return lists
    if k == 'X':
        p, old, new = op[1], op[2], op[3]
        if before[old][2] == p or new in lists[p] or old == new:
            return None
        if before[new][1] is not None and new in lists[before[new][1]]:
            lists[before[new][1]].remove(new)
        lists[p][lists[p].index(old)] = new   # in place
        return lists
    if k == 'I':
        p, c, li = op[1], op[2], op[3]
        if c in lists[p]:
            return None
        if before[c][1] is not None and c in lists[before[c][1]]:
            lists[before[c][1]].remove(c)
        lists[p].insert(min(li, len(lists[p])), c)
        return lists
    return None


def run(tier, seed):
    chk = vlib.Check('C09', tier, seed)
    chk.proof(hc.MODULES['C09'], hc.THEOREMS['C09'])
    nlow, nseg, nmsg = hc.sizes(tier)
    runs = hc.low_level(chk, nlow)
    hc.api_level(chk, hc.api_size(tier))
    for r in runs:
        for i, op, mop, tag, before, after in hc.steps(r):
            if tag != 'ok' or mop == 'N':
                continue
            want = expected_lists(op, before, [n[1] for n in r['history']['nodes']])
            if want is None:
                continue
            chk.evals += 1
            got = [n[0] for n in after]
            if got != want:
                rep = {'kind': 'low', 'history': r['history'], 'step': i}
                chk.fail(None, {'clause': 'ordered-list edit (ElementList level)', 'op': op, 'nodes': [n[:2] for n in r['history']['nodes']],
                                'lists_before': [n[0] for n in before], 'lists_after': got, 'reference_model': want}, rep)
                break
            chk.nontrivial.add((op[0], len(want[op[1]]) if op[0] != 'U' else 0))
    for h, recs in hc.api_histories(chk, nseg, nmsg):
        for i, r in enumerate(recs):
            if r['exc'] is not None:
                continue
            chk.evals += 1
            src = [x for x in r['inv'] if x.startswith('copy-changed-its-source')]
            if src:
                chk.fail(None, {'clause': 'a child taken from another element is copied by value (the source keeps it)', 'root': h['root'], 'strict': h['strict'],
                                'ops': h['ops'][:i + 1], 'source': src[0]}, {'kind': 'api', 'history': h, 'step': i})
                break
            if r['enc'] != r['spec']:
                chk.fail(None, {'clause': 'encoding equals the ordered-list reference model', 'root': h['root'], 'strict': h['strict'],
                                'ops': h['ops'][:i + 1], 'encoding': r['enc'], 'reference_model': r['spec']},
                         {'kind': 'api', 'history': h, 'step': i})
                break
            chk.nontrivial.add((r['op'][0], r['enc']))
    chk.exhaustive = False
    chk.rule = ('low level: random histories (2-12 ops) over append / insert / remove / replace_child / parent setter on 19 real elements '
                '(2-5 containers), every successful op compared with the list edit the reference model prescribes, all lists of all nodes; '
                'API level: random histories (2-13 ops) of set by name / long name / index, add, add_<child>, del by name / index, remove, copy, '
                're-attachment, parent setter, on a Segment (PID / NK1 / OBX) or an ADT_A01 message, TOLERANT and STRICT, encoding compared '
                'with the reference model after every successful op. Non-trivial = distinct (op kind, resulting encoding).')
    chk.assumptions = ['under STRICT a message encodes its per-name lists in structure order (reference model does the same; cf. finding D22)',
                       'replace_child(old, new) with different names is never issued by the API and is excluded from the by-name clause',
                       'the traversal-parent setter is applied to freshly created elements only (as create_element does)']
    return chk.finish()


def replay(path):
    d = json.load(open(path))
    print(json.dumps(d['what'], indent=1)[:3000])
    r = d['replay']
    if r.get('kind') == 'api':
        recs = hc.replay_history(r['history'], r['step'])
        print('replayed:', json.dumps(recs[-1])[:600])
        return 0 if recs[-1]['exc'] is not None or recs[-1]['enc'] == recs[-1]['spec'] else 1
    if r.get('kind') == 'low':
        h = dict(r['history'], ops=r['history']['ops'][:r['step'] + 1])
        out = heapcorr.run_real(h)[0]
        print('replayed:', out[-1])
    return 0
