"""C04 — validate() accepts conforming messages and pinpoints each structural defect."""
import io, json
import vlib, gen, impl
from props.c01 import VERSIONS, excluded
from props.c08 import struct_info

MODULES = ['Hl7.Props.C04', 'Hl7.Props.C04Tree', 'Hl7.Props.C04Seg']
THEOREMS = ['Hl7.Val.C04_tree', 'Hl7.Val.C04_message', 'Hl7.Val.conf_valid', 'Hl7.Val.valid_conf', 'Hl7.Val.C04_missing_required', 'Hl7.Val.C04_limit_exceeded', 'Hl7.Val.C04_foreign_child', 'Hl7.Val.C04_conforming_level',
            'Hl7.Val.C04_report', 'Hl7.Val.checkReps_ok',
            'Hl7.Val.C04_seg_missing', 'Hl7.Val.C04_seg_exceeded', 'Hl7.Val.C04_seg_foreign', 'Hl7.Val.C04_seg_child_errors_kept',
            'Hl7.Val.C04_field_missing', 'Hl7.Val.C04_field_exceeded', 'Hl7.Val.C04_field_foreign', 'Hl7.Val.C04_field_child_errors_kept',
            'Hl7.Val.C04_comp_cardinality', 'Hl7.Val.C04_comp_foreign']


# ---------------------------------------------------------------- an independent, declarative notion of conformance
def std_ref(el):
    import hl7apy
    lib = hl7apy.load_library(el.version)
    tab = {'Message': lib.MESSAGES, 'Group': lib.GROUPS, 'Segment': lib.SEGMENTS, 'Field': lib.FIELDS,
           'Component': lib.DATATYPES, 'SubComponent': lib.DATATYPES}[el.classname]
    return tab.get(el.name)


def is_unknown(el):
    if el.classname in ('Message', 'Group', 'Segment'):
        return el.name is None
    return el.name == el.datatype


def conforms(el, ref, base):
    """declarative conformance of an element tree to a reference (no walk of the validator's own code paths);
    returns (True, None) or (False, why)"""
    if is_unknown(el):
        return False, ('unknown', el.classname)
    if el.is_z_element():
        if el.classname == 'Field':
            if el.datatype in base or el.datatype == 'varies':
                return True, None
        for c in el.children:
            ok, why = conforms(c, None, base)
            if not ok:
                return ok, why
        return True, None
    if ref is None:
        ref = std_ref(el)
        if ref is None:
            return False, ('no-reference', el.name)
    if ref[0] in ('sequence', 'choice'):
        rows = ref[1]
        decl = {}
        for r in rows:
            decl.setdefault(r[0], r)
        kids = list(el.children)
        for c in kids:
            if c.is_z_element():
                ok, why = conforms(c, None, base)
                if not ok:
                    return ok, why
            elif c.name not in decl:
                return False, ('undeclared', el.name, c.name)
        for name, r in decl.items():
            mine = [c for c in kids if c.name == name and not c.is_z_element()]
            mn, mx = r[2]
            if len(mine) < mn:
                return False, ('missing', el.name, name)
            if mx != -1 and len(mine) > mx:
                return False, ('exceeded', el.name, name)
            for c in mine:
                ok, why = conforms(c, r[1], base)
                if not ok:
                    return ok, why
        return True, None
    # leaf reference
    if el.datatype == 'varies':
        return True, None
    if el.datatype != ref[2]:
        return False, ('datatype', el.name)
    if el.datatype is not None and el.datatype not in base:
        return False, ('complex-under-leaf', el.name)
    return True, None


def judge(job):
    """(text, find_groups) -> (validator errors (canonical), independent conformance verdict, report consistency flags)"""
    import hl7apy
    from hl7apy.parser import parse_message
    from hl7apy.exceptions import ValidationError
    t, fg = job
    try:
        m = parse_message(t, validation_level=vlib.level(False), find_groups=fg)
    except Exception as e:  # noqa
        return ('exc ' + vlib.exc_name(e), None, None)
    before = None
    try:
        before = m.to_er7()
        r = m.validate(return_errors=True)
        errs = [impl.canon_err(e) for e in r.errors]
        flags = {'is_valid_iff_no_errors': r.is_valid == (len(r.errors) == 0), 'encoding_unchanged': m.to_er7() == before}
        # raising form
        try:
            ok = m.validate()
            flags['raising_matches'] = (ok is True and not r.errors)
        except ValidationError as e:
            flags['raising_matches'] = bool(r.errors) and str(e) == str(r.errors[0])
        # report file
        buf = io.StringIO()
        m.validate(report_file=buf, return_errors=True)
        want = ['Error: %s' % e for e in r.errors] + ['Warning: %s' % w for w in r.warnings]
        flags['report_file_matches'] = buf.getvalue().splitlines() == [l for x in want for l in x.splitlines()] or buf.getvalue() == ''.join(x + '\n' for x in want)
        # deterministic
        r2 = m.validate(return_errors=True)
        flags['deterministic'] = [str(e) for e in r2.errors] == [str(e) for e in r.errors]
    except Exception as e:  # noqa
        return ('valexc ' + vlib.exc_name(e), None, None)
    base = set(hl7apy.load_library(m.version).BASE_DATATYPES)
    try:
        verdict = conforms(m, getattr(m, 'reference', None), base)
    except Exception as e:  # noqa
        verdict = (None, ('conformance-check-failed', type(e).__name__))
    return ('ok ' + '|'.join(errs), verdict, flags)


def api_mutation(job):
    """(text, kind) -> single-point mutation through the API on a parsed conforming message; returns (canonical errors, expected error)"""
    from hl7apy.parser import parse_message
    from hl7apy.core import Segment, Field
    t, kind = job
    try:
        m = parse_message(t, validation_level=vlib.level(False), find_groups=True)
        if kind == 'foreign':
            m.add(Segment('ZZZ' if False else 'BLG', version=m.version, validation_level=vlib.level(False)))
            want = ('invalid-children:%s:' % m.name,)
        elif kind == 'unknown-field':
            def segs(e):
                for c in e.children:
                    if c.classname == 'Segment':
                        yield c
                    elif c.classname == 'Group':
                        yield from segs(c)
            cands = [c for c in segs(m) if c.name != 'MSH']
            if not cands:
                return ('skip', None)
            # a segment whose last field is 'varies' accepts extra <SEG>_<n> fields: the unknown field must still be reported there
            seg = ([c for c in cands if c.allow_infinite_children] or cands)[len(t) % len([c for c in cands if c.allow_infinite_children] or cands)]
            seg.add(Field(version=m.version, validation_level=vlib.level(False)))
            want = ('unknown:%s' % seg.name, 'invalid-children:%s:' % seg.name)
        else:
            return ('skip', None)
        r = m.validate(return_errors=True)
        return ('ok ' + '|'.join(impl.canon_err(e) for e in r.errors), want)
    except Exception as e:  # noqa
        return ('exc ' + vlib.exc_name(e), None)


def seg_unknown(job):
    """(version, segment): a fresh segment holding one unnamed Field must be reported as holding an unknown / invalid child"""
    from hl7apy.core import Segment, Field
    v, S = job
    try:
        s = Segment(S, version=v, validation_level=vlib.level(False))
        open_ended = bool(s.allow_infinite_children)
        s.add(Field(version=v, validation_level=vlib.level(False)))
        r = s.validate(return_errors=True)
        return ('ok ' + '|'.join(impl.canon_err(e) for e in r.errors), open_ended)
    except Exception as e:  # noqa
        return ('exc ' + vlib.exc_name(e), False)


def cardgrid(job):
    """(version, segment, field, min, max, k): a segment holding k occurrences of one field, validated against a reference that gives that field
    the cardinality [min..max] (the standard reference of the segment with that one row edited; validate(element, reference=...) is the
    documented way to hand the validator a reference).  Independent expectation: missing iff k < min, exceeded iff max >= 0 and k > max —
    whatever min is (no shipped table has a minimum above 1: seed C04-i)"""
    import hl7apy, profiles
    from hl7apy.core import Segment
    from hl7apy.validation import Validator
    v, S, F, mn, mx, k = job
    try:
        lib = hl7apy.load_library(v)
        ref = profiles.Synth(lib, [('C', 's', S, F, mn, mx)]).segment(S, lib.SEGMENTS[S])
        seg = Segment(S, version=v, validation_level=vlib.level(False))
        for _ in range(k):
            seg.add_field(F)
        r = Validator.validate(seg, reference=ref, return_errors=True)
        return sorted(set(impl.canon_err(e) for e in r.errors))
    except Exception as e:  # noqa
        return ['exc ' + vlib.exc_name(e)]


def interleaved(job):
    """(version, structure, text, S, order): the same text validated against the standard structure and against a reference of the
    SAME name that forbids the top-level segment S, one after the other in one process — validate() is an observation of (message,
    reference): what it says cannot depend on what the process validated before (a memo keyed on names — seed C04-h — shows here)"""
    import hl7apy, profiles
    from hl7apy.parser import parse_message
    v, mt, t, S, order = job
    lib = hl7apy.load_library(v)
    P = profiles.make_profile(lib, mt, [('F', 'm', mt, S)])

    def val(prof):
        try:
            m = parse_message(t, validation_level=vlib.level(False), message_profile=P if prof else None, find_groups=False)
            before = m.to_er7()
            r = m.validate(return_errors=True)
            return sorted(impl.canon_err(e) for e in r.errors) + ([] if m.to_er7() == before else ['ENCODING-CHANGED'])
        except Exception as e:  # noqa
            return ['exc ' + vlib.exc_name(e)]
    seq = [False, True, False, True] if order == 'standard-first' else [True, False, True, False]
    return [(p, val(p)) for p in seq]


def run(tier, seed):
    import hl7apy
    chk = vlib.Check('C04', tier, seed)
    rng = chk.rng
    chk.proof(MODULES, THEOREMS)
    ex = excluded()
    cases = []     # (version, structure, kind, text, expected_error or None, dup)
    per = 8 if tier == 'quick' else 10 ** 6
    vs = VERSIONS if tier != 'quick' else sorted(rng.sample(VERSIONS, 4))
    for v in vs:
        g = gen.ConfGen(rng, version=v)
        lib = g.lib
        picked = rng.sample(g.structures(), min(len(g.structures()), per))
        # structures holding a group whose content model is tagged 'choice' are always represented (the validator treats them like sequences)
        def has_choice(ref, depth=0):
            if not (gen.is_seq(ref) and len(ref) >= 2 and gen.is_seq(ref[1])) or depth > 4:
                return False
            return any(gen.is_seq(r) and len(r) == 4 and r[3] == 'GRP' and gen.is_seq(r[1]) and len(r[1]) >= 1 and (r[1][0] == 'choice' or has_choice(r[1], depth + 1))
                       for r in ref[1])
        withchoice = [m_ for m_ in g.structures() if has_choice(lib.MESSAGES[m_])]
        picked = sorted(set(picked) | set(rng.sample(withchoice, min(len(withchoice), 3))))
        for mt in picked:
            names0, anchored, dup = struct_info(lib, lib.MESSAGES[mt])
            for style in ('required', 'all'):
                try:
                    t, der, names = g.conf_message(mt, style)
                except Exception:  # noqa
                    continue
                cases.append((v, mt, 'conforming-' + style, t, None, dup))
                lines = t.split('\r')
                top = [r for r in lib.MESSAGES[mt][1] if gen.is_seq(r) and len(r) == 4]
                # remove one required top-level segment
                req = [r[0] for r in top if r[3] == 'SEG' and r[2][0] >= 1 and r[0] != 'MSH' and names.count(r[0]) == 1]
                if req:
                    s = rng.choice(req)
                    cases.append((v, mt, 'remove-required', '\r'.join(l for l in lines if l[:3] != s), 'missing:%s.%s' % (mt, s), dup))
                # remove one required, non-leading segment of a group (the group is still opened by its first member)
                pos = [0]
                cands = []

                def walk(nodes, rows, gname):
                    byname = {r[0]: r for r in rows if gen.is_seq(r) and len(r) == 4}
                    for idx, nd in enumerate(nodes):
                        if nd[0] == 'S':
                            r = byname.get(nd[1])
                            if gname and r is not None and r[2][0] >= 1 and idx > 0 and [x[1] for x in nodes].count(nd[1]) == 1:
                                cands.append((pos[0], gname, nd[1]))
                            pos[0] += 1
                        else:
                            r = byname.get(nd[1])
                            sub = r[1][1] if r is not None and gen.is_seq(r[1]) and len(r[1]) >= 2 and gen.is_seq(r[1][1]) else []
                            walk(nd[2], sub, nd[1])
                try:
                    walk(der, lib.MESSAGES[mt][1], None)
                except Exception:  # noqa
                    cands = []
                if cands and pos[0] == len(lines):
                    k, gname, sname = rng.choice(cands)
                    if lines[k][:3] == sname:
                        # the exact name is predictable only where the group finder rebuilds the prescribed tree (anchored groups, unique names: cf. finding D16);
                        # elsewhere the defect must still be reported as a missing child somewhere
                        exact = anchored and len(names0) == len(set(names0))
                        cases.append((v, mt, 'remove-required-in-group', '\r'.join(lines[:k] + lines[k + 1:]),
                                      ('missing:%s.%s' % (gname, sname)) if exact else 'missing:', dup))
                # duplicate one max-1 top-level segment
                one = [r[0] for r in top if r[3] == 'SEG' and r[2][1] == 1 and r[0] != 'MSH' and names.count(r[0]) == 1 and r[0] in names]
                if one:
                    s = rng.choice(one)
                    i = [k for k, l in enumerate(lines) if l[:3] == s][0]
                    cases.append((v, mt, 'exceed-max', '\r'.join(lines[:i + 1] + [lines[i]] + lines[i + 1:]), 'exceeded:%s.%s' % (mt, s), dup))
                # remove a required field of a segment (text level)
                segs = [(k, l) for k, l in enumerate(lines) if l[:3] != 'MSH' and l[:3] in lib.SEGMENTS and l[:3] not in ex.get(v, [])]
                rng.shuffle(segs)
                for k, l in segs[:3]:
                    rows = lib.SEGMENTS[l[:3]][1]
                    reqf = [i for i, r in enumerate(rows) if r[2][0] >= 1]
                    f = l.split('|')
                    if reqf and len(f) > reqf[0] + 1:
                        i = rng.choice(reqf)
                        if len(f) > i + 1 and f[i + 1] != '':
                            f2 = list(f)
                            f2[i + 1] = ''
                            newl = '|'.join(f2).rstrip('|')
                            cases.append((v, mt, 'remove-required-field', '\r'.join(lines[:k] + [newl] + lines[k + 1:]),
                                          'missing:%s.%s_%d' % (l[:3], l[:3], i + 1), dup))
                            break
    jobs = [(c[3], True) for c in cases]
    res = vlib.pmap(judge, jobs, chunk=16)
    mo = vlib.run_driver(['VALM T 1 ' + vlib.hexs(c[3]) for c in cases])
    chk.correspond('parse_message(text).validate(return_errors=True).errors vs Hl7.Val.validateMessage', cases, [r[0] for r in res], mo,
                   show=lambda c: {'version': c[0], 'structure': c[1], 'kind': c[2], 'text': c[3]})
    kinds = {}
    for c, (o, verdict, flags), m in zip(cases, res, mo):
        chk.evals += 1
        v, mt, kind, t, want, dup = c
        agree = (o == m) or m == 'exc Unsupported'
        rep = {'api': 'parse_message(text, TOLERANT, find_groups=True).validate(return_errors=True)', 'version': v, 'structure': mt, 'kind': kind, 'text': t}
        kinds[kind + ':' + o.split(' ')[0]] = kinds.get(kind + ':' + o.split(' ')[0], 0) + 1
        if not o.startswith('ok'):
            names = [l[:3] for l in t.split('\r')]
            bad = ['T:%s:%s' % (v, n) for n in names if n in ex.get(v, [])]
            key = (bad or None) if agree else None
            if v == '2.1' and 'Crash:TypeError' in o and agree:
                key = 'D2:2.1:group-none-ref'
            chk.fail(key, {'clause': 'validate-returns-a-report', 'got': o, **rep}, rep)
            continue
        errs = [e for e in o[3:].split('|') if e]
        for k, okflag in (flags or {}).items():
            if not okflag:
                chk.fail(None, {'clause': 'report-' + k, **rep}, rep)
        # sound and complete w.r.t. the independent conformance judgement
        if verdict is not None and verdict[0] is not None:
            conf = verdict[0]
            if conf != (len(errs) == 0):
                key = None
                if agree:
                    if dup:
                        key = 'D17:duplicate-rows'
                    else:
                        names_ = [l[:3] for l in t.split('\r')]
                        key = ['T:%s:%s' % (v, n) for n in names_ if n in ex.get(v, [])] or None
                chk.fail(key, {'clause': 'conforms-iff-no-errors', 'conforms': conf, 'why_not': verdict[1], 'errors': errs[:6], **rep}, rep)
            elif conf:
                chk.nontrivial.add(t)
        # the error names the mutated element
        if want is not None and not any(e == want or e.startswith(want) for e in errs):
            key = 'D17:duplicate-rows' if (dup and agree) else None
            if key is None and agree:
                names_ = [l[:3] for l in t.split('\r')]
                key = ['T:%s:%s' % (v, n) for n in names_ if n in ex.get(v, [])] or None
            if key is None and agree and v == '2.1':
                key = 'D2:2.1:group-none-ref'      # v2.1 group rows with None references: the finder cannot descend into them
            # group finding may have placed the duplicated / remaining segments differently (findings D4, D16)
            chk.fail(key, {'clause': 'error-names-the-element', 'expected_error': want, 'errors': errs[:8], **rep}, rep)
    # API-level mutations on conforming instances
    conf_texts = [c for c, r in zip(cases, res) if c[2].startswith('conforming') and r[1] is not None and r[1][0] and r[0] == 'ok ']
    muts = []
    for c in conf_texts[:150 if tier == 'quick' else 3000]:
        for kind in ('foreign', 'unknown-field'):
            muts.append((c[3], kind))
    mres = vlib.pmap(api_mutation, muts, chunk=16)
    for (t, kind), (o, want) in zip(muts, mres):
        chk.evals += 1
        if o == 'skip':
            continue
        rep = {'api': 'parse_message(text); mutate through the API (%s); validate(return_errors=True)' % kind, 'text': t, 'mutation': kind}
        if not o.startswith('ok '):
            if 'ChildNotValid' in o or 'ChildNotFound' in o:
                continue        # the API refused the mutation: nothing to validate
            chk.fail(None, {'clause': 'validate-returns-a-report', 'got': o, **rep}, rep)
        elif want and not any(e.startswith(tuple(want)) for e in o[3:].split('|')):
            chk.fail(None, {'clause': 'error-names-the-element', 'expected_error': want, 'errors': o[3:].split('|')[:8], **rep}, rep)
    # an unnamed field in a fresh segment, every open-ended segment of every version + a sample of the others
    import hl7apy
    sjobs = []
    for v in VERSIONS:
        lib = hl7apy.load_library(v)
        names = sorted(n for n in lib.SEGMENTS if n not in ex.get(v, []) and n != 'MSH')
        openended = [n for n in names if gen.is_seq(lib.SEGMENTS[n]) and len(lib.SEGMENTS[n]) > 1 and gen.is_seq(lib.SEGMENTS[n][1]) and lib.SEGMENTS[n][1]
                     and gen.well_formed_ref(lib.SEGMENTS[n][1][-1][1]) and len(lib.SEGMENTS[n][1][-1][1]) == 6 and lib.SEGMENTS[n][1][-1][1][2] == 'varies']
        pick = openended + chk.rng.sample(names, min(len(names), 6 if tier == 'quick' else 40))
        sjobs += [(v, n) for n in sorted(set(pick))]
    nopen = 0
    for (v, S), (o, oe) in zip(sjobs, vlib.pmap(seg_unknown, sjobs)):
        chk.evals += 1
        nopen += 1 if oe else 0
        rep = {'api': "s = Segment(name, version); s.add(Field()); s.validate(return_errors=True)", 'version': v, 'segment': S, 'mutation': 'unknown-field-fresh-segment'}
        if not o.startswith('ok '):
            if 'ChildNotValid' in o or 'ChildNotFound' in o:
                continue
            chk.fail(['T:%s:%s' % (v, S)], {'clause': 'validate-returns-a-report', 'got': o, **rep}, rep)
        elif not any(e.startswith(('unknown:%s' % S, 'invalid-children:%s:' % S)) for e in o[3:].split('|')):
            chk.fail(None, {'clause': 'error-names-the-element', 'expected_error': ['unknown:%s' % S, 'invalid-children:%s:' % S], 'open_ended_segment': oe,
                            'errors': o[3:].split('|')[:8], **rep}, rep)
        else:
            chk.nontrivial.add((v, S, 'unknown-field'))
    chk.dist['fresh_segment_unknown_field'] = {'cases': len(sjobs), 'open_ended': nopen}
    # cardinalities, all of them: k occurrences against [min..max]
    gjobs = []
    for v in vs:
        lib = hl7apy.load_library(v)
        names_ = sorted(n for n in lib.SEGMENTS if n not in ex.get(v, []) and n not in ('MSH', 'ANYHL7SEGMENT'))
        for S in rng.sample(names_, min(len(names_), 6 if tier == 'quick' else 60)):
            rows_ = [r for r in lib.SEGMENTS[S][1] if gen.is_seq(r) and len(r) == 4 and gen.well_formed_ref(r[1]) and len(r[1]) == 6 and r[1][2] != 'varies']
            if not rows_:
                continue
            F = rng.choice(rows_)[0]
            for mn, mx in ((0, 1), (1, 1), (2, -1), (2, 4), (3, 3), (0, 0)):
                for k in range(0, 6):
                    gjobs.append((v, S, F, mn, mx, k))
    for j, errs in zip(gjobs, vlib.pmap(cardgrid, gjobs, chunk=64)):
        chk.evals += 1
        v, S, F, mn, mx, k = j
        want = (['missing:%s.%s' % (S, F)] if k < mn else []) + (['exceeded:%s.%s' % (S, F)] if 0 <= mx < k else [])
        got = [e for e in errs if e in ('missing:%s.%s' % (S, F), 'exceeded:%s.%s' % (S, F))]
        if any(e.startswith('exc ') for e in errs):
            chk.notes.append('cardgrid: %s %s' % (j, errs[:2]))
        elif sorted(got) != sorted(want):
            rep = {'api': 'Validator.validate(segment holding k x field, reference=<standard reference of the segment with that field at [min..max]>, return_errors=True)',
                   'version': v, 'segment': S, 'field': F, 'min': mn, 'max': mx, 'occurrences': k}
            chk.fail(None, {'clause': 'a child below its minimum is reported missing, one above its maximum exceeded — for every cardinality', 'expected': want, 'got': got, 'all_errors': errs[:6], **rep}, rep)
        else:
            chk.nontrivial.add((v, S, F, mn, mx, k))
    chk.dist['cardinality_grid'] = len(gjobs)
    # the same text against two references of one name, interleaved
    ijobs, seen_st = [], set()
    for c in cases:
        if c[2] != 'conforming-all' or (c[0], c[1]) in seen_st or c[0] == '2.1':
            continue
        lib = hl7apy.load_library(c[0])
        top = [r[0] for r in lib.MESSAGES[c[1]][1] if gen.is_seq(r) and len(r) == 4 and r[3] == 'SEG' and r[0] != 'MSH']
        lines3 = [l[:3] for l in c[3].split('\r')]
        present = [n for n in top if n in lines3 and n not in ex.get(c[0], [])]
        if present:
            seen_st.add((c[0], c[1]))
            ijobs.append((c[0], c[1], c[3], rng.choice(present), 'standard-first' if len(ijobs) % 2 == 0 else 'profile-first'))
    ijobs = ijobs[:40 if tier == 'quick' else 100000]
    for job, out in zip(ijobs, vlib.pmap(interleaved, ijobs, chunk=1)):
        chk.evals += 1
        v, mt, t, S, order = job
        rep = {'api': 'parse_message(text, find_groups=False).validate(return_errors=True) and the same with message_profile = the standard structure minus one segment, interleaved in one process',
               'version': v, 'structure': mt, 'text': t, 'profile_forbids': S, 'order': order}
        std = [o for p, o in out if not p]
        prof = [o for p, o in out if p]
        names_s = lambda errs: any(e.startswith('invalid-children:%s:' % mt) and S in e.split(':')[2].split(',') for e in errs)
        if std[0] != std[1] or prof[0] != prof[1]:
            chk.fail(None, {'clause': 'validate() is a deterministic observation: the same message against the same reference, validated twice with another reference in between',
                            'standard': std, 'profile': prof, **rep}, rep)
        elif any(e.startswith('exc ') for e in std[0] + prof[0]):
            chk.notes.append('interleaved: %s %s %s' % (v, mt, (std[0] + prof[0])[:2]))
        elif names_s(std[0]) or not names_s(prof[0]):
            chk.fail(None, {'clause': 'a child the reference does not allow is reported, one it allows is not — whatever was validated before',
                            'standard_reports_%s' % S: names_s(std[0]), 'profile_reports_%s' % S: names_s(prof[0]), 'standard': std[0][:6], 'profile': prof[0][:6], **rep}, rep)
        else:
            chk.nontrivial.add((v, mt, 'interleaved'))
    chk.dist['interleaved_references'] = len(ijobs)
    chk.dist['result_kinds'] = kinds
    chk.dist['cases'] = len(cases)
    chk.dist['api_mutations'] = len(muts)
    chk.exhaustive = tier != 'quick'
    chk.rule = ('per structure (quick: 8 per version for 4 versions by seed; thorough: every structure of every version): a required-only and an all-children instance with '
                'every required field/component present, and single-point mutations of it: one required top-level segment removed, one max-1 segment duplicated, one '
                'required field blanked; plus API mutations (a segment the message does not allow; an unnamed field). For each: validator errors vs the model, vs an independent '
                'declarative conformance judgement on the parsed tree, and report consistency (is_valid, raising form, report file, determinism, encoding unchanged). '
                'Non-trivial = distinct instances judged conforming that validate.')
    chk.samples = [{'version': c[0], 'structure': c[1], 'kind': c[2], 'errors': r[0][:160]} for c, r in list(zip(cases, res))[::max(1, len(cases) // 8)]][:8]
    chk.assumptions = ['reference = standard tables (message profiles: C18)', 'warnings are compared only through the report-file consistency clause']
    return chk.finish()


def replay(path):
    d = json.load(open(path))
    r = d['replay']
    print(json.dumps(d['what'], indent=1))
    if r.get('mutation') == 'unknown-field-fresh-segment':
        print(seg_unknown((r['version'], r['segment'])))
        return 0
    if 'mutation' in r:
        print(api_mutation((r['text'], r['mutation'])))
    else:
        print(judge((r['text'], True)))
    return 0
