"""C07 — A message's encoding characters govern its entire encoding."""
import itertools, json
import vlib, gen, impl
from props.c01 import VERSIONS

MODULES = ['Hl7.Props.C07', 'Hl7.Props.C07Casc']
THEOREMS = ['Hl7.C07.C07_only_own_separators', 'Hl7.EncChars.C07_reject_missing', 'Hl7.EncChars.C07_reject_duplicate', 'Hl7.EncChars.C07_accept', 'Hl7.EncChars.C07_header_roundtrip4']
ROLES = ['FIELD', 'COMPONENT', 'SUBCOMPONENT', 'REPETITION', 'ESCAPE', 'TRUNCATION']
SAFE_PUNCT = [c for c in '!"#$%&\'()*,/:;<=>?@[\\]^`{|}~']     # no '.', '-', '+', '_' (they occur in the header's own values)


def expected(v, ec):
    F, C, S, R, E = (ec[k] for k in ROLES[:5])
    T = ec.get('TRUNCATION', '') if v >= '2.7' else ''
    msh = F.join(['MSH', C + R + E + S + T, '', '', '', '', '20200101', '', 'ADT' + C + 'A01' + C + 'ADT_A01', '1', '', v])
    pid = 'PID' + F * 3 + 'a' + C + 'b' + S + 'c' + F * 2 + 'x' + C + 'y'
    nk1 = 'NK1' + F * 2 + 'n' + C + 'm' + R + 'o' + S + 'p'
    pv1 = 'PV1' + F * 2 + 'I'
    in1 = 'IN1' + F + '1' + F + 'i' + C + 'j' + S + 'k'
    return '\r'.join([msh, pid, nk1, pv1] + ([in1] if v != '2.1' else [])), F + C + S + R + E + T


def run(tier, seed):
    chk = vlib.Check('C07', tier, seed)
    rng = chk.rng
    chk.proof(MODULES, THEOREMS)
    jobs = []
    nsets = 6 if tier == 'quick' else 40
    for v in VERSIONS:
        sets = [dict(zip(ROLES[:5], '|^&~\\')), dict(zip(ROLES, '|^&~\\#'))]
        for _ in range(nsets):
            k = rng.choice([5, 6])
            sets.append(dict(zip(ROLES, rng.sample(SAFE_PUNCT, k))))
        if tier != 'quick' or v in ('2.5', '2.7'):
            base = '!@%$/*'
            for perm in (itertools.permutations(base) if tier != 'quick' else rng.sample(list(itertools.permutations(base)), 60)):
                sets.append(dict(zip(ROLES, perm)))            # every transposition of the six roles over one 6-character set
        for ec in sets:
            jobs.append((v, ec))
    # invalid sets
    bad = []
    for v in ('2.5', '2.7', '2.8.2') if tier == 'quick' else VERSIONS:
        full = dict(zip(ROLES, '|^&~\\#'))
        for k in ROLES[:5]:
            d = dict(full)
            del d[k]
            bad.append((v, d, 'missing ' + k))
        for a, b in itertools.combinations(ROLES, 2):
            d = dict(full)
            d[b] = d[a]
            bad.append((v, d, 'duplicate %s=%s' % (a, b)))
        for a, b in itertools.combinations(ROLES[:5], 2):
            d = dict(zip(ROLES[:5], '|^&~\\'))
            d[b] = d[a]
            bad.append((v, d, 'duplicate %s=%s (no truncation)' % (a, b)))
    a = vlib.pmap(impl.ecrun, jobs, chunk=8)
    chk.again("Message('ADT_A01', version, encoding_chars); populate; to_er7(); parse_message(to_er7())", impl.ecrun, jobs, a, 150)
    ba = vlib.pmap(impl.ecrun, [(v, d) for v, d, _ in bad], chunk=8)
    # correspondence: the model parses what the implementation built and must re-encode it identically and read the same set back
    texts = [vlib.unhexs(o.split(' ')[1]) if o.startswith('ok ') else None for o in a]
    lines, idx = [], []
    for i, t in enumerate(texts):
        if t is not None:
            lines.append('MSG T T 2.5 1 ' + vlib.hexs(t))
            lines.append('MINFO ' + vlib.hexs(t))
            idx.append(i)
    mo = vlib.run_driver(lines)
    cj, ci, cm = [], [], []
    for n, i in enumerate(idx):
        o = a[i].split(' ')
        cj.append(jobs[i])
        ci.append('ok %s | ok %s' % (o[1], o[2]))
        m1, m2 = mo[2 * n], mo[2 * n + 1]
        cm.append('%s | %s' % (' '.join(m1.split(' ')[:2]), ' '.join(m2.split(' ')[:2])))
    chk.correspond('Message(encoding_chars).to_er7() re-parsed: Hl7.Msg.parseMessage/encMessage reproduce it and getMessageInfo reads the same set',
                   cj, ci, cm, show=lambda j: {'version': j[0], 'encoding_chars': j[1]})
    for (v, ec), o in zip(jobs, a):
        chk.evals += 1
        rep = {'api': "Message('ADT_A01', version, encoding_chars); populate through traversal; to_er7(); encoding_chars; parse_message(to_er7())", 'version': v,
               'encoding_chars': ec}
        want, wset = expected(v, ec)
        if not o.startswith('ok '):
            chk.fail(None, {'clause': 'valid-set-accepted', 'got': o, **rep}, rep)
            continue
        f = o.split(' ')
        er7, gs = vlib.unhexs(f[1]), vlib.unhexs(f[2])
        chk.nontrivial.add((v, gs))
        if gs != wset:
            chk.fail(None, {'clause': 'encoding_chars-reads-back', 'expected': wset, 'got': gs, **rep}, rep)
        if er7 != want:
            k = None
            chk.fail(k, {'clause': 'every-separator-from-the-set', 'expected': want, 'got': er7, **rep}, rep)
        if f[3] != 'D1':
            chk.fail(None, {'clause': 'descendants-report-the-set', **rep}, rep)
        if f[4] != 'P1':
            chk.fail(None, {'clause': 'parse-recovers-set-and-encoding', **rep}, rep)
        if f[5] != 'M1':
            chk.fail(None, {'clause': 'to_mllp-framing', **rep}, rep)
    for (v, d, why), o in zip(bad, ba):
        chk.evals += 1
        rep = {'api': "Message('ADT_A01', version, encoding_chars)", 'version': v, 'encoding_chars': d}
        # a TRUNCATION duplicate matters only where TRUNCATION is used (v >= 2.7); below it is ignored... the property says: sets with
        # missing or duplicated characters are rejected
        if o != 'exc InvalidEncodingChars':
            chk.fail(None, {'clause': 'invalid-set-rejected', 'why': why, 'got': o[:80], **rep}, rep)
    chk.dist.update({'valid_sets': len(jobs), 'invalid_sets': len(bad)})
    chk.rule = ('per version: the two default sets, random sets of 5 or 6 distinct punctuation characters, and (all 720 in the thorough tier) permutations of the six roles '
                'over one 6-character set so that any swap of two roles is visible; messages carry repetitions, components and subcomponents assigned through traversal. '
                'Invalid stream: each missing required key, each duplicate pair of roles with and without TRUNCATION. Non-trivial = distinct (version, set) accepted.')
    chk.samples = [{'version': j[0], 'encoding_chars': j[1], 'result': vlib.unhexs(o.split(' ')[1])[:120] if o.startswith('ok ') else o} for j, o in list(zip(jobs, a))[::max(1, len(jobs) // 6)]][:6]
    chk.assumptions = ['single-character delimiters; delimiters drawn from punctuation that does not occur in the header values']
    return chk.finish()


def replay(path):
    d = json.load(open(path))
    r = d['replay']
    print(json.dumps(d['what'], indent=1))
    print(impl.ecrun((r['version'], r['encoding_chars'])))
    return 0
