"""C12 — A rejected operation leaves its target unchanged."""
import json
import vlib, heapcorr, chains
from props import heapcommon as hc


def must_be_unchanged(op, before):
    """which part of the dump a rejected low-level op must leave as it was: 'all', 'lists+parents' or None (no claim)"""
    k = op[0]
    if k in ('A', 'R', 'S', 'U', 'D'):
        return 'all'
    if k == 'E':
        return 'lists+parents' if op[2] not in before[op[1]][0] else None
    if k == 'X':
        p, old, new = op[1], op[2], op[3]
        if before[old][2] == p:
            return 'lists+parents'          # a pending traversal child is replaced: only the shadow index may change
        return 'all' if new not in before[p][0] or new == old else None
    if k == 'I':
        return 'all' if op[2] not in before[op[1]][0] else None
    return None                             # T: internal setter, documented non-atomic; P: each link is atomic (S), the chain is not one call


def run(tier, seed):
    chk = vlib.Check('C12', tier, seed)
    chk.proof(hc.MODULES['C12'], hc.THEOREMS['C12'])
    nlow, nseg, nmsg = hc.sizes(tier)
    runs = hc.low_level(chk, nlow)
    hc.api_level(chk, hc.api_size(tier))
    for r in runs:
        for i, op, mop, tag, before, after in hc.steps(r):
            if tag == 'ok' or mop == 'N':
                continue
            scope = must_be_unchanged(op, before)
            if scope is None:
                continue
            chk.evals += 1
            same = before == after if scope == 'all' else [n[:2] for n in before] == [n[:2] for n in after]
            if not same:
                chk.fail(None, {'clause': 'rejected op leaves lists and pointers unchanged (ElementList level)', 'op': op, 'raised': tag,
                                'ops': r['history']['ops'][:i + 1], 'nodes': [n[:2] for n in r['history']['nodes']],
                                'before': [list(n) for n in before], 'after': [list(n) for n in after]},
                         {'kind': 'low', 'history': r['history'], 'step': i})
                break
            chk.nontrivial.add((op[0], tag, len(before[op[1]][0]) if op[0] != 'U' else 0))
    for h, recs in hc.api_histories(chk, nseg, nmsg):
        for i, r in enumerate(recs):
            if r['exc'] is None:
                continue
            chk.evals += 1
            if r['atomic'] is False:
                chk.fail(None, {'clause': 'rejected call leaves encoding and children unchanged, nothing half-attached', 'root': h['root'], 'strict': h['strict'],
                                'ops': h['ops'][:i + 1], 'raised': r['exc'], 'encoding_after': r['enc'], 'reference_model(before)': r['spec'],
                                'children_after': r['children'], 'half_attached': [x for x in r['inv'] if x.startswith('half-attached')]},
                         {'kind': 'api', 'history': h, 'step': i})
                break
            chk.nontrivial.add((r['op'][0], r['exc'], r['enc']))
    # a refused write at the end of a chain of children that do not exist yet (the target is reached by traversal)
    from props.c11 import chain_cases
    from props.c01 import VERSIONS, excluded
    ex = excluded()
    vs0 = [v for v in VERSIONS if v != '2.1']
    ccases = []
    for v in (vs0 if tier != 'quick' else sorted(chk.rng.sample(vs0, 3))):
        ccases += [dict(c, refuse=True, rounds=1, reads=1) for c in chain_cases(chk.rng, v, 30 if tier != 'quick' else 8, 8 if tier != 'quick' else 5, ex)
                   if (c['component'] or '').count('_') <= 1]
    for c, o in zip(ccases, vlib.pmap(chains.chain_job, ccases)):
        chk.evals += 1
        if o.startswith('refused-write'):
            chk.fail(None, {'clause': 'a refused write through a chain of not-yet-existing children leaves the message unchanged', 'result': o[:700], **c},
                     {'kind': 'chain', 'case': c})
        elif o.startswith('HARNESS'):
            chk.broken.append({'kind': 'harness', 'log': o[:500], 'case': c})
        else:
            chk.nontrivial.add(('chain-refused', c['version'], c['segment'], c['field'], c['component'], c['sub']))
    chk.dist['refused_writes_through_chains'] = len(ccases)
    chk.exhaustive = False
    chk.rule = ('every op of every history that raises: low level - the dump of all 19 elements (child lists, parent, traversal parent, traversal index) '
                'is compared before / after; API level - encoding and children of the root before / after, and no helper element left pointing at a parent that does '
                'not list it; rejection causes generated: wrong class, wrong name, other validation level, other version, cardinality overflow (STRICT), value too '
                'long (STRICT), second component for a base datatype (STRICT), absent child deleted by name / index, datatype change on a populated element. '
                'Non-trivial = distinct (op, exception, state).')
    chk.assumptions = ['ElementList.insert of a child the element already lists first moves it out (model: eraseList); the API never inserts a listed child that can be refused',
                       'the traversal-parent setter (used only by create_element on new elements) is not atomic and is not claimed']
    return chk.finish()


def replay(path):
    d = json.load(open(path))
    print(json.dumps(d['what'], indent=1)[:3000])
    r = d['replay']
    if r.get('kind') == 'chain':
        o = chains.chain_job(r['case'])
        print('replayed:', o)
        return 1 if o.startswith('refused-write') else 0
    if r.get('kind') == 'api':
        recs = hc.replay_history(r['history'], r['step'])
        print('replayed:', json.dumps(recs[-1])[:600])
        return 1 if recs[-1]['atomic'] is False else 0
    if r.get('kind') == 'low':
        h = dict(r['history'], ops=r['history']['ops'][:r['step'] + 1])
        out = heapcorr.run_real(h)[0]
        print('replayed:', out[-2:] )
    return 0
