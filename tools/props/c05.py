"""C05 — STRICT accepts a subset of TOLERANT and enforces what validate() checks."""
import json
import vlib, gen, impl
from props.c01 import VERSIONS, excluded

MODULES = ['Hl7.Props.C05']
THEOREMS = ['Hl7.C05.C05_leaf_subset', 'Hl7.C05.C05_admit_subset', 'Hl7.C05.C05_strict_enforces_max', 'Hl7.C05.C05_strict_enforces_maxlen',
            'Hl7.C05.construct_subset']
DEF = '|^&~\\'


def report_of(el):
    try:
        r = el.validate(return_errors=True)
    except Exception as e:  # noqa
        return (['VALIDATE-RAISED:' + vlib.exc_name(e)], [])
    return ([impl.canon_err(e) for e in r.errors], [str(w)[:120] for w in r.warnings])


# the property's last clause: STRICT never lets an over-long base-datatype value in — judged on the accepted element itself, leaf by
# leaf, against the maximum length the value's own datatype class declares (`max_length`: ST 199, from 2.6 on 999; IS 20; ...)


def overlong_leaves(el):
    out = []

    def walk(e):
        if e.classname == 'SubComponent':
            dt = e.datatype
            val = e.value
            txt = getattr(val, 'value', val)
            mx = getattr(val, 'max_length', None)
            if isinstance(mx, int) and isinstance(txt, str) and len(txt) > mx:
                out.append('%s:%s:%d>%d' % (e.parent.name if e.parent is not None else '?', dt, len(txt), mx))
            return
        for c in e.children:
            walk(c)
    try:
        walk(el)
    except Exception as ex:  # noqa
        out.append('WALK-RAISED:' + vlib.exc_name(ex))
    return out


def both_seg(job):
    """(version, text) -> outcome of parse_segment + to_er7 + validate under STRICT and under TOLERANT"""
    from hl7apy.parser import parse_segment
    v, t = job
    out = []
    for strict in (True, False):
        try:
            s = parse_segment(t, version=v, encoding_chars=impl.ec_dict(DEF), validation_level=vlib.level(strict))
        except Exception as e:  # noqa
            out.append(('exc', vlib.exc_name(e)))
            continue
        try:
            out.append(('ok', s.to_er7(impl.ec_dict(DEF)), report_of(s), overlong_leaves(s) if strict else []))
        except Exception as e:  # noqa
            out.append(('obsexc', vlib.exc_name(e)))
    return out


def both_msg(job):
    from hl7apy.parser import parse_message
    t, fg = job
    out = []
    for strict in (True, False):
        try:
            m = parse_message(t, validation_level=vlib.level(strict), find_groups=fg)
        except Exception as e:  # noqa
            out.append(('exc', vlib.exc_name(e)))
            continue
        try:
            out.append(('ok', m.to_er7(), report_of(m), overlong_leaves(m) if strict else []))
        except Exception as e:  # noqa
            out.append(('obsexc', vlib.exc_name(e)))
    return out


def history(job):
    """(version, segment, ops) with ops = [('set', attr, value) | ('add', fieldname, value) | ('del', attr)] run under both levels"""
    from hl7apy.core import Segment
    v, seg, ops = job
    out = []
    for strict in (True, False):
        try:
            s = Segment(seg, version=v, validation_level=vlib.level(strict))
        except Exception as e:  # noqa
            out.append(('exc', -1, vlib.exc_name(e)))
            continue
        failed = None
        for i, op in enumerate(ops):
            try:
                if op[0] == 'set':
                    setattr(s, op[1], op[2])
                elif op[0] == 'add':
                    f = s.add_field(op[1])
                    f.value = op[2]
                elif op[0] == 'del':
                    delattr(s, op[1])
                elif op[0] == 'setvalue':
                    # the write spelled through the child reached by traversal: `segment.<field>.value = text` (and, with a handle taken before the
                    # field existed, a second write through the stale handle): STRICT counts the child it materialises like any other (seed C05-j)
                    h_ = getattr(s, op[1])
                    if len(op) > 3:
                        setattr(s, op[1], op[3])
                    h_.value = op[2]
                elif op[0] == 'addunnamed':
                    # an unknown child: a Field without a name (the only nameless Field a STRICT constructor allows is of datatype `varies`)
                    from hl7apy.core import Field
                    f = Field(datatype='varies', version=v, validation_level=vlib.level(strict))
                    f.value = op[1]
                    {'add': s.add, 'append': s.children.append, 'parent': lambda x: setattr(x, 'parent', s)}[op[2]](f)
            except Exception as e:  # noqa
                failed = (i, vlib.exc_name(e))
                break
        if failed:
            out.append(('exc', failed[0], failed[1]))
            continue
        try:
            out.append(('ok', s.to_er7(impl.ec_dict(DEF)), report_of(s), overlong_leaves(s) if strict else []))
        except Exception as e:  # noqa
            out.append(('obsexc', -1, vlib.exc_name(e)))
    return out


def container_history(job):
    """(version, 'message'|'group', name, ops) with ops = ('addseg', NAME) | ('add', NAME) | ('set', attr, text): a Message / Group filled through
    the API with segments of its structure and segments foreign to it, under both levels"""
    from hl7apy.core import Message, Group, Segment
    v, kind, name, ops = job
    out = []
    for strict in (True, False):
        try:
            c = (Message if kind == 'message' else Group)(name, version=v, validation_level=vlib.level(strict))
        except Exception as e:  # noqa
            out.append(('exc', -1, vlib.exc_name(e)))
            continue
        if kind == 'message':
            try:
                c.msh.msh_7 = '20200101'      # Message() stamps MSH-7 with now(): the two levels are built at different instants
            except Exception:  # noqa
                pass
        failed = None
        for i, op in enumerate(ops):
            try:
                if op[0] == 'addseg':
                    c.add_segment(op[1])
                elif op[0] == 'add':
                    c.add(Segment(op[1], version=v, validation_level=vlib.level(strict)))
                elif op[0] == 'set':
                    setattr(c, op[1], op[2])
            except Exception as e:  # noqa
                failed = (i, vlib.exc_name(e))
                break
        if failed:
            out.append(('exc', failed[0], failed[1]))
            continue
        try:
            out.append(('ok', c.to_er7(), report_of(c)))
        except Exception as e:  # noqa
            out.append(('obsexc', -1, vlib.exc_name(e)))
    return out


def container_jobs(rng, v, n, ex):
    import hl7apy
    lib = hl7apy.load_library(v)
    segs = sorted(k for k in lib.SEGMENTS if k not in ex.get(v, []) and k not in ('MSH', 'ANYHL7SEGMENT') and len(k) == 3)
    conts = [('group', g) for g in sorted(lib.GROUPS)] + [('message', m) for m in sorted(lib.MESSAGES) if m == m.upper()]
    jobs = []
    for kind, name in rng.sample(conts, min(n, len(conts))):
        ref = (lib.GROUPS if kind == 'group' else lib.MESSAGES)[name]
        if not (gen.is_seq(ref) and len(ref) >= 2 and gen.is_seq(ref[1])):
            continue
        own = [r[0] for r in ref[1] if gen.is_seq(r) and len(r) == 4 and r[3] == 'SEG' and r[0] in segs]
        foreign = [x for x in segs if x not in [r[0] for r in ref[1] if gen.is_seq(r) and len(r) == 4]]
        if not foreign:
            continue
        ops = []
        for _ in range(rng.randrange(1, 4)):
            nm = rng.choice(own) if own and rng.random() < .5 else rng.choice(foreign)
            k = rng.random()
            ops.append(('addseg', nm) if k < .4 else ('add', nm) if k < .7 else ('set', nm.lower(), nm + '|1'))
        jobs.append((v, kind, name, ops))
    # maximum cardinality of a segment in its container: the same own segment added two and three times. Containers whose structure
    # lists one child name twice are all taken (the two rows may disagree on the maximum — seed C05-h), the others by sample
    def dups(ref):
        names = [r[0] for r in ref[1] if gen.is_seq(r) and len(r) == 4]
        return sorted({x for x in names if names.count(x) > 1})
    rep_conts = []
    for kind, name in conts:
        ref = (lib.GROUPS if kind == 'group' else lib.MESSAGES)[name]
        if gen.is_seq(ref) and len(ref) >= 2 and gen.is_seq(ref[1]) and dups(ref):
            rep_conts += [(kind, name, d) for d in dups(ref) if d in segs]
    for kind, name in rng.sample(conts, min(n, len(conts))):
        ref = (lib.GROUPS if kind == 'group' else lib.MESSAGES)[name]
        if gen.is_seq(ref) and len(ref) >= 2 and gen.is_seq(ref[1]):
            own = [r[0] for r in ref[1] if gen.is_seq(r) and len(r) == 4 and r[3] == 'SEG' and r[0] in segs]
            if own:
                rep_conts.append((kind, name, rng.choice(own)))
    for kind, name, nm in rep_conts:
        for k in (2, 3):
            how = rng.choice(['add', 'addseg'])
            jobs.append((v, kind, name, [(how, nm)] * k))
    return jobs


def open_ended(lib, seg):
    ref = lib.SEGMENTS.get(seg)
    try:
        return ref[1][-1][1][2] == 'varies'
    except Exception:  # noqa
        return seg[:1] == 'Z'


def judge(chk, kind, rep, res, d18_possible, table_key=None, dup=False):
    s, t = res
    if s[0] != 'ok':
        return False
    if len(s) > 3 and s[3]:
        chk.fail(None, {'clause': 'strict-never-lets-an-over-long-value-in', 'kind': kind, 'leaves': s[3][:6], **rep}, rep)
    if t[0] != 'ok':
        chk.fail(None, {'clause': 'strict-accepted-implies-tolerant-accepted', 'kind': kind, 'tolerant': t, **rep}, rep)
        return True
    if s[1] != t[1]:
        key = 'D17:duplicate-rows' if dup else None
        if key is None and sorted(s[1].split('\r')) == sorted(t[1].split('\r')):
            key = 'D22:strict-regroups'
        chk.fail(key, {'clause': 'same-encoding', 'kind': kind, 'strict': s[1][:300], 'tolerant': t[1][:300], **rep}, rep)
    if s[2] != t[2]:
        chk.fail(None, {'clause': 'same-validation-report', 'kind': kind, 'strict': s[2], 'tolerant': t[2], **rep}, rep)
    other = [e for e in s[2][0] if not e.startswith('missing:')]
    if other and other[0].startswith('VALIDATE-RAISED:'):
        chk.fail(table_key, {'clause': 'validate-returns-a-report', 'kind': kind, 'raised': other[0], **rep}, rep)
    elif other:
        key = 'D18:open-ended-overflow' if (d18_possible and all(e.startswith('invalid-children:') for e in other)) else table_key
        chk.fail(key, {'clause': 'strict-accepted-draws-only-missing-required', 'kind': kind, 'errors': other[:6], **rep}, rep)
    return True


def run(tier, seed):
    import hl7apy
    chk = vlib.Check('C05', tier, seed)
    rng = chk.rng
    chk.proof(MODULES, THEOREMS)
    ex = excluded()
    sj, mj, hj = [], [], []
    nseg = 40 if tier == 'quick' else 100000
    for v in VERSIONS:
        g = gen.ConfGen(rng, version=v)
        names = sorted(x for x in g.lib.SEGMENTS if x not in ('MSH', 'ANYHL7SEGMENT'))
        for n in rng.sample(names, min(len(names), nseg)):
            for mode in ('conf', 'canon', 'wild'):
                t = g.conf_segment(n) if mode == 'conf' else g.segment(n, mode=mode, overflow=(mode == 'wild'))
                sj.append((v, t))
        # a second component in a field of a base datatype, for every base datatype of every version (what is a base datatype depends on
        # the version): STRICT refuses it; if it did not, the two levels would report differently on the same accepted text
        seen_dt = set()
        for n in names:
            sref = g.lib.SEGMENTS[n]
            if n in ex.get(v, []) or not (gen.is_seq(sref) and len(sref) > 1 and gen.is_seq(sref[1])):
                continue
            for i, row in enumerate(sref[1], 1):
                if gen.is_seq(row) and len(row) == 4 and gen.well_formed_ref(row[1]) and len(row[1]) == 6 and row[1][0] == 'leaf' \
                        and row[1][2] not in seen_dt and row[1][2] != 'varies' and row[2][1] != 0:
                    seen_dt.add(row[1][2])
                    val = gen.SAFE.get(row[1][2], 'X')
                    sj.append((v, n + '|' * i + val + '^' + val))
        for mt in rng.sample(g.structures(), min(len(g.structures()), 5 if tier == 'quick' else 60)):
            for style in ('required', 'all'):
                try:
                    t, _, _ = g.conf_message(mt, style)
                except Exception:  # noqa
                    continue
                mj.append((t, True))
        # API histories on segments
        for _ in range(60 if tier == 'quick' else 400):
            seg = rng.choice(names)
            rows = g.lib.SEGMENTS[seg][1] if gen.is_seq(g.lib.SEGMENTS[seg]) and len(g.lib.SEGMENTS[seg]) > 1 else []
            if not rows or not all(gen.is_seq(r) and len(r) == 4 and isinstance(r[0], str) for r in rows):
                continue
            ops = []
            withdrawn = [k_ for k_, r_ in enumerate(rows) if gen.is_seq(r_[2]) and len(r_[2]) == 2 and r_[2][1] == 0]
            for _ in range(rng.randint(1, 6)):
                i = rng.randrange(len(rows))
                if withdrawn and rng.random() < .3:
                    i = rng.choice(withdrawn)          # a withdrawn field (maximum 0): nothing may create one under STRICT
                row = rows[i]
                name = row[0].lower()
                val = g.conf_ref(row[1], 0) if rng.random() < .7 else rng.choice(['x' * 300, 'a^b^c^d^e^f^g^h^i^j^k^l^m^n^o^p^q^r^s^t^u^v^w^x^y', 'abc', '1~2', ''])
                k = rng.random()
                if k < .2:
                    ops.append(('setvalue', name, val) if rng.random() < .6 else ('setvalue', name, val, val))
                elif k < .6:
                    ops.append(('set', name, val))
                elif k < .85:
                    ops.append(('add', row[0], val))
                else:
                    ops.append(('del', name))
            if rng.random() < .25:
                ops.insert(rng.randrange(len(ops) + 1), ('addunnamed', rng.choice(['abc', 'abc^def']), rng.choice(['add', 'append', 'parent'])))
            hj.append((v, seg, ops))
    # every withdrawn field (maximum 0) of every segment off the guard list, written through traversal; and a stale handle on a max-1 field
    for v in VERSIONS:
        lib_ = hl7apy.load_library(v)
        pairs, ones = [], []
        for S_, ref_ in sorted(lib_.SEGMENTS.items()):
            if S_ in ex.get(v, []) or S_ in ('MSH', 'ANYHL7SEGMENT') or not (gen.is_seq(ref_) and len(ref_) > 1 and gen.is_seq(ref_[1])):
                continue
            for r_ in ref_[1]:
                if gen.is_seq(r_) and len(r_) == 4 and gen.is_seq(r_[2]) and len(r_[2]) == 2 and gen.well_formed_ref(r_[1]) and len(r_[1]) == 6:
                    if r_[2][1] == 0:
                        pairs.append((S_, r_[0]))
                    elif r_[2][1] == 1 and r_[1][0] == 'leaf' and r_[1][2] in ('ST', 'ID', 'IS'):
                        ones.append((S_, r_[0]))
        for S_, F_ in rng.sample(pairs, min(len(pairs), 8 if tier == 'quick' else len(pairs))):
            hj.append((v, S_, [('setvalue', F_.lower(), 'X')]))
        for S_, F_ in rng.sample(ones, min(len(ones), 4 if tier == 'quick' else 60)):
            hj.append((v, S_, [('setvalue', F_.lower(), 'B', 'A')]))
    rs = vlib.pmap(both_seg, sj, chunk=32)
    chk.again('parse_segment(text, version, level) for level in (STRICT, TOLERANT); to_er7; validate', both_seg, sj, rs, 300)
    rm = vlib.pmap(both_msg, mj, chunk=8)
    rh = vlib.pmap(history, hj, chunk=32)
    # correspondence: the model under both levels (encoding + error list)
    lines, want = [], []
    for (v, t), r in zip(sj, rs):
        for strict, o in zip((True, False), r):
            lines.append('SEG %s %s T %s %s' % (v, 'S' if strict else 'T', vlib.hexs(DEF), vlib.hexs(t)))
            want.append('ok ' + vlib.hexs(o[1]) if o[0] == 'ok' else 'exc ' + str(o[1]))
            lines.append('VALS %s %s %s %s' % (v, 'S' if strict else 'T', vlib.hexs(DEF), vlib.hexs(t)))
            if o[0] == 'ok' and o[2][0] and o[2][0][0].startswith('VALIDATE-RAISED:'):
                want.append('valexc ' + o[2][0][0].split(':', 1)[1])
            else:
                want.append('ok ' + '|'.join(o[2][0]) if o[0] == 'ok' else ('exc ' + str(o[1]) if o[0] == 'exc' else 'valexc ' + str(o[1])))
    mo = vlib.run_driver(lines)
    # an element that parses but whose validate()/to_er7() raises is reported by one op as ok and by the other as exc: compare per op
    cj, ci, cm = [], [], []
    for l, w, m in zip(lines, want, mo):
        if w.startswith('valexc') and l.startswith('SEG'):
            continue
        cj.append(l[:60])
        ci.append(w)
        cm.append(m)
    chk.correspond('parse_segment under STRICT and TOLERANT: encoding and validator errors vs the model', cj, ci, cm)
    strict_ok = 0
    for (v, t), r in zip(sj, rs):
        chk.evals += 1
        lib = hl7apy.load_library(v)
        seg = t[:3]
        rep = {'api': 'parse_segment(text, version, level) for level in (STRICT, TOLERANT); to_er7; validate', 'version': v, 'text': t}
        tk = ('T:%s:%s' % (v, seg)) if seg in ex.get(v, []) else None
        if judge(chk, 'segment', rep, r, open_ended(lib, seg), tk):
            strict_ok += 1
            chk.nontrivial.add((v, t))
    for (t, fg), r in zip(mj, rm):
        chk.evals += 1
        rep = {'api': 'parse_message(text, level, find_groups=True) for both levels; to_er7; validate', 'text': t}
        import findings
        v = findings.msg_version(t)
        names = [l[:3] for l in t.split('\r')]
        tk = ['T:%s:%s' % (v, n) for n in names if n in ex.get(v, [])] or None
        d18 = any(open_ended(hl7apy.load_library(v), n) for n in names if n in hl7apy.load_library(v).SEGMENTS) if v in VERSIONS else False
        from props.c08 import struct_info
        mt = None
        try:
            mt = t.split('\r')[0].split('|')[8].split('^')[2]
            dup = struct_info(hl7apy.load_library(v), hl7apy.load_library(v).MESSAGES[mt])[2]
        except Exception:  # noqa
            dup = False
        if judge(chk, 'message', rep, r, d18, tk, dup):
            strict_ok += 1
            chk.nontrivial.add(t)
    hist_ok = 0
    for (v, seg, ops), r in zip(hj, rh):
        chk.evals += 1
        rep = {'api': 'Segment(seg, version, level); ops; to_er7; validate - under both levels', 'version': v, 'segment': seg, 'ops': ops}
        tk = ('T:%s:%s' % (v, seg)) if seg in ex.get(v, []) else None
        if judge(chk, 'history', rep, r, open_ended(hl7apy.load_library(v), seg), tk):
            hist_ok += 1
            chk.nontrivial.add((v, seg, json.dumps(ops)))
    # containers (messages, groups) filled through the API with own and foreign segments
    cj = []
    for v in VERSIONS:
        cj += container_jobs(rng, v, 12 if tier == 'quick' else 150, ex)
    cont_ok = 0
    for (v, kind, name, ops), r in zip(cj, vlib.pmap(container_history, cj)):
        chk.evals += 1
        rep = {'api': '%s(name, version, level); add_segment / add(Segment) / assignment; to_er7; validate - under both levels' % kind.capitalize(), 'version': v,
               'container': kind, 'name': name, 'cops': ops}
        names = [o[1].upper() for o in ops]
        tk = ['T:%s:%s' % (v, n) for n in names if n in ex.get(v, [])] or None
        try:
            from props.c08 import struct_info
            lib_ = hl7apy.load_library(v)
            dup = struct_info(lib_, (lib_.GROUPS if kind == 'group' else lib_.MESSAGES)[name])[2]
        except Exception:  # noqa
            dup = False
        if judge(chk, 'container-history', rep, r, False, tk, dup):
            cont_ok += 1
            chk.nontrivial.add((v, name, json.dumps(ops)))
    chk.dist['container_histories'] = {'cases': len(cj), 'strict_accepted': cont_ok}
    chk.dist.update({'segments': len(sj), 'messages': len(mj), 'histories': len(hj), 'strict_accepted_texts': strict_ok, 'strict_accepted_histories': hist_ok})
    chk.rule = ('in-structure segments of every version in three flavours (conforming, canonical-random, wild with invalid / over-long leaves and overflow), conforming message '
                'instances, and random histories of set / add_field+value / delete on a fresh segment; each run under STRICT and under TOLERANT side by side. Non-trivial = '
                'distinct inputs accepted under STRICT.')
    chk.samples = [{'version': j[0], 'text': j[1][:120], 'strict': r[0][0], 'tolerant': r[1][0]} for j, r in list(zip(sj, rs))[::max(1, len(sj) // 8)]][:8]
    chk.assumptions = ['histories act on a fresh Segment (richer histories on messages/groups/fields: C09-C12)']
    return chk.finish()


def replay(path):
    d = json.load(open(path))
    r = d['replay']
    print(json.dumps(d['what'], indent=1))
    if 'cops' in r:
        print(container_history((r['version'], r['container'], r['name'], [tuple(o) for o in r['cops']])))
    elif 'ops' in r:
        print(history((r['version'], r['segment'], [tuple(o) for o in r['ops']])))
    elif 'version' in r:
        print(both_seg((r['version'], r['text'])))
    else:
        print(both_msg((r['text'], True)))
    return 0
