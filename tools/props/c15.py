"""C15 — Bad input fails with the library's exceptions, never with a crash."""
import json, string
import vlib, gen, impl, findings

from props.c01 import VERSIONS as _VS
MODULES = ['Hl7.Props.C15', 'Hl7.Props.C15Seg'] + ['Hl7.Gen.ObV' + v.replace('.', '_') for v in _VS]
THEOREMS = ['Hl7.Msg.splitMsh_errors', 'Hl7.Msg.C15_getMessageType', 'Hl7.Msg.C15_getMessageInfo', 'Hl7.Msg.C15_parse_header_errors',
            'Hl7.Pe.C15_segmentNew_wf', 'Hl7.Pe.C15_segmentNew_guarded', 'Hl7.Pe.go_ok'] + ['Hl7.Gen.ObV%s.segmentNew_nocrash' % v.replace('.', '_') for v in _VS]

BASE = [
    'MSH|^~\\&|SND|FAC|RCV|RFAC|20200101||ADT^A01^ADT_A01|1|P|2.5\rEVN||20200101\rPID|1||123^^^H^MR||DOE^JOHN||19800101|M\rPV1|1|I',
    'MSH|^~\\&#|SND|FAC|RCV|RFAC|20200101||ADT^A01^ADT_A01|1|P|2.7\rEVN||20200101\rPID|1||123^^^H^MR||DOE^JOHN\rPV1|1|I',
    'MSH|^~\\&|S|F|R|RF|2020||OML^O33^OML_O33|1|P|2.5\rPID|1||1\rSPM|1\rORC|NW\rOBR|1',
    'MSH|^~\\&|S|F|R|RF|2020||ORU^R01|1|P|2.3.1\rPID|1\rOBR|1\rOBX|1|ST|a||v\rOBX|2|NM|b||5',
    'MSH|^~\\&|S|F|R|RF|2020||ZZZ^Z01^ZZZ_Z01|1|P|2.5\rZAB|1|2\rPID|1',
    'MSH|^~\\&|S|F|R|RF|2020||QBP^Q11^QBP_Q11|1|P|2.5\rQPD|Q11^X|1|a~b\rRCP|I',
    # fields of type `varies` with empty components between valued ones, repetitions, fields beyond the defined count
    'MSH|^~\\&|S|F|R|RF|2020||ORU^R01^ORU_R01|1|P|2.5\rPID|1\rOBR|1\rOBX|1|CE|a||H^^L\rOBX|2|CE|b||^^L~a^^^d\rOBX|3|ST|c||^High',
    'MSH|^~\\&|S|F|R|RF|2020||QBP^Q11^QBP_Q11|1|P|2.6\rQPD|Q11^X|1|a^^c|^b||x^^^y~z\rRCP|I',
]


def junk(rng):
    k = rng.randrange(6)
    n = rng.choice([0, 1, 3, 4, 5, 8, 9, 12, 20, 40])
    if k == 0:
        return ''.join(rng.choice(string.printable) for _ in range(n))
    if k == 1:
        return 'MSH' + ''.join(rng.choice('|^~\\&#\r ab12.') for _ in range(n))
    if k == 2:
        return 'MSH|' + ''.join(rng.choice('^~\\&#|') for _ in range(rng.randint(0, 7))) + '|' * rng.randint(0, 14) + rng.choice(['', '2.5', '2.7', '2.8', '9', 'x'])
    if k == 3:
        return rng.choice([' ', '\r', '\n', '\t', '']) + 'MSH' + rng.choice('|!$ \t\r') + ''.join(rng.choice('^~\\&|A1_.\r') for _ in range(n))
    if k == 4:
        return ''.join(rng.choice('MSHPIDEVN|^~\\&\r\n 12._') for _ in range(n))
    return ''.join(chr(rng.choice([0, 1, 11, 13, 28, 31, 65, 124, 255, 0x394, 0x3000, 0x20ac])) for _ in range(n))


def gen_inputs(tier, rng):
    out = []
    # truncation at every byte
    for b in BASE:
        step = 1 if tier != 'quick' else 1
        for i in range(0, len(b) + 1, step):
            out.append(b[:i])
    R = 1500 if tier == 'quick' else 30000
    versions = ['2.1', '2.2', '2.3', '2.3.1', '2.4', '2.5', '2.5.1', '2.6', '2.7', '2.8', '2.8.1', '2.8.2']
    mg = {}
    for _ in range(R):
        k = rng.randrange(10)
        if k < 4:
            b = rng.choice(BASE)
            for _ in range(rng.randint(1, 3)):
                b = gen.mutate(rng, b)
            out.append(b)
        elif k == 4:
            b = rng.choice(BASE)
            f = b.split('|')
            j = rng.choice([1, 8, 11, 11, 8])
            if j < len(f):
                f[j] = rng.choice(['', '^', 'ADT', 'ADT^A01', 'ADT^A01^', '^^ADT_A01', '2.9', '2', '2.5^X', ' 2.5 ', '2.10', 'adt^a01', '^~\\&#', '^~\\', '^^\\&', '^~\\&#!'])
            out.append('|'.join(f))
        elif k == 5:
            b = rng.choice(BASE)
            segs = b.split('\r')
            segs.insert(rng.randrange(1, len(segs) + 1), rng.choice(['', 'XXX|1', 'PI', 'pid|1', 'ZZZ', 'QRD|1', 'ORO|1', 'ANYHL7SEGMENT|1', 'OBX|1|CE|x||a^b', 'PID' + '|' * 60 + 'x', 'NK1|1|a^b^c^d^e^f^g^h^i^j^k^l^m^n',
                                                                       # names whose upper-case form has another length (defect D37), other non-ASCII names
                                                                       'Z\u00df1|a', 'Za\u00df|a|b', 'Z\ufb01a|a', 'z\u00df1|a', 'Z\u0131A|1', 'Z\u00e91|a', 'P\u0131D|1', '\u017fid|1',
                                                                       # lines made of white space only (what CR LF line ends leave behind): no segment, no crash (seed C15-i)
                                                                       ' ', '\t', '\n', ' \t ', '\x0b', '\x0c', '\n',
                                                                       # a second header line, in lower case too (defect D46)
                                                                       'msh|1|2^3', 'MSH|1|2^3', 'Msh|^~\\&|x', 'msh|']))
            if rng.random() < .4:
                # ... in a message whose MSH-9 names no structure: its segments are not grouped, every line reaches the Segment constructor
                f = segs[0].split('|')
                if len(f) > 8:
                    f[8] = rng.choice(['', 'XXX', 'ADT^A01^', 'ADT^A08', 'ZZZ^Z01^ZZZ_Z01'])
                    segs[0] = '|'.join(f)
            out.append(('\r\n' if rng.random() < .2 else '\r').join(segs) + rng.choice(['', '', '\r', '\r\n']))
        elif k < 8:
            v = rng.choice(versions)
            g = mg.get(v)
            if g is None:
                g = mg[v] = gen.MsgGen(rng, version=v)
            mt = rng.choice(g.structures())
            try:
                t, _, _ = g.message(mt, 'random', rich=rng.random() < .5, perturb=rng.random() < .5)
            except Exception:  # noqa
                continue
            if rng.random() < .5:
                t = gen.mutate(rng, t)
            out.append(t)
        else:
            out.append(junk(rng))
    seen = set()
    res = []
    for t in out:
        if t not in seen:
            seen.add(t)
            res.append(t)
    return res


LIB_OK = ('ParserError', 'InvalidEncodingChars', 'UnsupportedVersion', 'InvalidName', 'ChildNotFound', 'ChildNotValid',
          'MaxChildLimitReached', 'OperationNotAllowed', 'MaxLengthReached', 'InvalidDataType', 'MessageProfileNotFound',
          'LegacyMessageProfile', 'ValidationError', 'InvalidDateOffset', 'InvalidDateFormat', 'InvalidMicrosecondsPrecision',
          'InvalidHighlightRange', 'UnknownValidationLevel', 'HL7apyException', 'InvalidTimestampFormat', 'InvalidDatetimeFormat')


def known_key(text, stage, exc, info):
    """decidable description of the listed C15 findings"""
    import findings
    t = text.lstrip()
    if stage == 'validate':
        v = findings.msg_version(t)
        names = [l.strip()[:3].upper() for l in t.split('\r')]
        ex = json.load(open(vlib.VERIF + '/table_exclusions.json'))['segments'].get(v, [])
        bad = [n for n in names if n in ex]
        return ['T:%s:%s' % (v, b) for b in bad] or None
    if stage == 'parse' and exc in ('Crash:IndexError', 'Crash:TypeError', 'ValueError'):
        v = findings.msg_version(t)
        names = [l.strip()[:3] for l in t.split('\r')]
        k = findings.d2_key(v, names)
        if k:
            return k
        if v == '2.1' and exc == 'Crash:TypeError':
            return 'D2:2.1:group-none-ref'
    return None


def run(tier, seed):
    chk = vlib.Check('C15', tier, seed)
    rng = chk.rng
    chk.proof(MODULES, THEOREMS)
    inputs = gen_inputs(tier, rng)
    chk.dist['inputs'] = len(inputs)
    # header functions: correspondence + oracle
    a = vlib.pmap(impl.mtype, inputs)
    b = vlib.pmap(impl.minfo, inputs)
    chk.again('get_message_type(text)', impl.mtype, inputs, a, 600)
    chk.again('get_message_info(text)', impl.minfo, inputs, b, 600)
    lines = ['MTYPE ' + vlib.hexs(t) for t in inputs] + ['MINFO ' + vlib.hexs(t) for t in inputs]
    mo = vlib.run_driver(lines)
    chk.correspond('get_message_type vs Hl7.Msg.getMessageType', inputs, a, mo[:len(inputs)], show=lambda t: {'text': t})
    chk.correspond('get_message_info vs Hl7.Msg.getMessageInfo', inputs, b, mo[len(inputs):], show=lambda t: {'text': t})
    kinds = {}
    for t, x, y in zip(inputs, a, b):
        for api, o in (('get_message_type', x), ('get_message_info', y)):
            chk.evals += 1
            k = o.split()[1] if o.startswith('exc') else 'ok'
            kinds[api + ':' + k] = kinds.get(api + ':' + k, 0) + 1
            if o.startswith('exc') and o.split()[1] not in LIB_OK:
                chk.fail(None, {'clause': 'header-never-crashes', 'api': api, 'raised': o[4:], 'text': t}, {'api': api, 'text': t})
            if o.startswith('ok') and t.lstrip().startswith('MSH'):
                chk.nontrivial.add(t)
    # parse_message -> to_er7 / validate
    jobs = []
    for t in inputs:
        strict = rng.random() < .4
        fg = rng.random() < .6
        jobs.append((t, strict, fg))
    full = vlib.pmap(impl.msg_full, jobs)
    chk.again('parse_message(text, level, find_groups); to_er7(); validate(return_errors=True)', impl.msg_full, jobs, full, 300)
    mlines = ['MSG %s T 2.5 %d %s' % ('S' if st else 'T', 1 if fg else 0, vlib.hexs(t)) for t, st, fg in jobs]
    mo2 = vlib.run_driver(mlines)
    chk.correspond('parse_message(...).to_er7() vs Hl7.Msg.parseMessage/encMessage', jobs, [f[0] for f in full], mo2,
                   show=lambda j: {'text': j[0], 'level': 'STRICT' if j[1] else 'TOLERANT', 'find_groups': j[2]})
    for (t, strict, fg), (enc, val, info) in zip(jobs, full):
        chk.evals += 1
        rep = {'api': 'parse_message(text, validation_level, find_groups)', 'text': t, 'level': 'STRICT' if strict else 'TOLERANT', 'find_groups': fg}
        if enc.startswith('exc '):
            e = enc[4:]
            kinds['parse:' + e] = kinds.get('parse:' + e, 0) + 1
            if e in LIB_OK:
                continue
            if e == 'ValueError' and strict:
                continue
            chk.fail(known_key(t, 'parse', e, info), {'clause': 'parse-never-crashes', 'raised': e, **rep}, rep)
            continue
        kinds['parse:ok'] = kinds.get('parse:ok', 0) + 1
        chk.nontrivial.add(t)
        if enc.startswith('encexc '):
            e = enc.split()[1]
            chk.fail(known_key(t, 'to_er7', e, info), {'clause': 'to_er7-succeeds', 'raised': e, **rep}, dict(rep, then='to_er7()'))
        if val is not None and val.startswith('exc '):
            e = val[4:]
            chk.fail(known_key(t, 'validate', e, info), {'clause': 'validate-returns-report', 'raised': e, **rep},
                     dict(rep, then='validate(return_errors=True)'))
    chk.dist['result_kinds'] = kinds
    chk.rule = ('%d base messages truncated at every byte; 1-3 random structural mutations of them (delete/duplicate/insert delimiters, blanks, control '
                'characters, case); MSH-2/MSH-9/MSH-12 replaced by 16 odd values (4- vs 5-character MSH-2, unknown versions); inserted unknown/garbled/'
                'over-long segment lines; generated instances of random structures of all 12 versions (perturbed, mutated); grammar-free junk. '
                'Random level and find_groups per input. Non-trivial = distinct inputs that parse.' % len(BASE))
    chk.samples = [{'text': t[:120]} for t in inputs[::max(1, len(inputs) // 10)]][:10]
    chk.assumptions = ['validate() is exercised with the standard tables (profiles: C18)']
    return chk.finish()


def replay(path):
    d = json.load(open(path))
    r = d['replay']
    print(json.dumps(d['what'], indent=1))
    if r.get('api', '').startswith('get_message'):
        print(impl.mtype(r['text']), impl.minfo(r['text']))
    else:
        print(impl.msg_full((r['text'], r['level'] == 'STRICT', r['find_groups'])))
    return 0
