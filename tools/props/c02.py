"""C02 — Every defined position is encoded at, and parsed from, its own index."""
import json
import vlib, gen, impl, findings
from props.c01 import VERSIONS, excluded

MODULES = ['Hl7.Props.C02'] + ['Hl7.Gen.ObV' + v.replace('.', '_') for v in VERSIONS] + ['Hl7.Gen.ObInstV' + v.replace('.', '_') for v in VERSIONS]
THEOREMS = ['Hl7.C02.C02_cascade_enc', 'Hl7.C02.C02_cascade_parse', 'Hl7.C02.C02_slot_position', 'Hl7.C02.C02_slot_only_there', 'Hl7.C02.C02_open_ended'] + \
           ['Hl7.Gen.ObV%s.segWF' % v.replace('.', '_') for v in VERSIONS] + \
           ['Hl7.Gen.ObInstV%s.segInstantiable' % v.replace('.', '_') for v in VERSIONS]
SAFE = {'DT': '2020', 'TM': '12', 'DTM': '2020', 'NM': '10', 'SI': '1', 'TN': '5551234'}


def value_for(ref):
    dt = ref[2] if gen.well_formed_ref(ref) and len(ref) == 6 else None
    return SAFE.get(dt, 'X')


def run(tier, seed):
    import hl7apy
    chk = vlib.Check('C02', tier, seed)
    rng = chk.rng
    chk.proof(MODULES, THEOREMS)
    ex = excluded()
    full = VERSIONS if tier != 'quick' else sorted(rng.sample(VERSIONS, 2))
    chk.dist['versions_exhaustive'] = full
    jobs, meta = [], []
    newly_bad = vlib.newly_bad_segments()     # aims the search when a table obligation no longer checks
    chk.dist['segments_breaking_segWF_now'] = newly_bad
    for v in VERSIONS:
        lib = hl7apy.load_library(v)
        names = sorted(lib.SEGMENTS)
        if v not in full:
            names = sorted(set(rng.sample(names, min(len(names), 12))) | ((set(ex.get(v, [])) | set(newly_bad.get(v, []))) & set(names)))
        for seg in names:
            ref = lib.SEGMENTS[seg]
            rows = ref[1] if gen.is_seq(ref) and len(ref) >= 2 and gen.is_seq(ref[1]) else []
            n = len(rows)
            if n == 0:
                jobs.append((v, seg, seg.lower() + '_1', 'X'))
                meta.append((v, seg, 1, 'X', 'field'))
                continue
            for i, row in enumerate(rows, 1):
                if seg == 'MSH' and i <= 2:
                    continue
                val = value_for(row[1]) if gen.is_seq(row) and len(row) == 4 else 'X'
                jobs.append((v, seg, '%s_%d' % (seg.lower(), i), val))
                meta.append((v, seg, i, val, 'field'))
            last = rows[-1]
            if gen.is_seq(last) and len(last) == 4 and gen.well_formed_ref(last[1]) and len(last[1]) == 6 and last[1][2] == 'varies':
                for N in [n + 1, n + 2, n + 7, 200] + ([1000] if tier != 'quick' else []):
                    jobs.append((v, seg, '%s_%d' % (seg.lower(), N), 'X'))
                    meta.append((v, seg, N, 'X', 'open-ended'))
        for z in ('ZAB', 'ZZ1'):
            for N in ([1, 2, 3, 10, 57, 200] if v not in full else list(range(1, 201)) + [1000, 5000]):
                jobs.append((v, z, '%s_%d' % (z.lower(), N), 'X'))
                meta.append((v, z, N, 'X', 'z-segment'))
    a = vlib.pmap(impl.setf, jobs)
    chk.again('Segment(name, version).<field> = value; to_er7(); parse_segment', impl.setf, jobs, a, 500)
    ech = {v: vlib.ec_hex(hl7apy.get_default_encoding_chars(v)) for v in VERSIONS}
    mo = vlib.run_driver(['SETF %s T %s %s %s %s' % (j[0], ech[j[0]], j[1], j[2], vlib.hexs(j[3])) for j in jobs])
    chk.correspond('Segment(S).<s_i> = value ; to_er7() vs Hl7.Pe.segSetStr/encSegment', jobs, [x.rsplit(' ', 1)[0] if x.startswith('ok ') else x for x in a], mo,
                   show=lambda j: {'version': j[0], 'segment': j[1], 'attribute': j[2], 'value': j[3]})
    for j, (v, seg, i, val, kind), o, m in zip(jobs, meta, a, mo):
        chk.evals += 1
        seps = i - 1 if seg == 'MSH' else i
        want = seg + '|' * seps + val
        rep = {'api': "s = Segment(segment, version); setattr(s, attribute, value); s.to_er7(); parse_segment(that)", 'version': v, 'segment': seg,
               'attribute': j[2], 'value': val}
        ok = o.startswith('ok ') and o.split(' ')[1] == vlib.hexs(want) and o.split(' ')[2] == vlib.hexs(val)
        if ok:
            chk.nontrivial.add((v, seg, i))
            continue
        mm = m if not o.startswith('ok ') else m
        agree = (o.rsplit(' ', 1)[0] if o.startswith('ok ') else o) == m
        key = 'T:%s:%s' % (v, seg) if (seg in ex.get(v, []) and agree) else None
        got = vlib.unhexs(o.split(' ')[1]) if o.startswith('ok ') else o
        chk.fail(key, {'clause': kind + '-position', 'version': v, 'segment': seg, 'index': i, 'expected': want, 'got': got,
                       'parsed_back': o.split(' ')[2] if o.startswith('ok ') else None}, rep)
    # ---- several positions at once in open-ended segments (Z segments, segments ending in a 'varies' field): every value at its own index
    mjobs = []
    for v in VERSIONS:
        lib = hl7apy.load_library(v)
        opens = [(n, len(lib.SEGMENTS[n][1])) for n in sorted(lib.SEGMENTS) if n not in ex.get(v, []) and gen.is_seq(lib.SEGMENTS[n]) and len(lib.SEGMENTS[n]) > 1
                 and gen.is_seq(lib.SEGMENTS[n][1]) and lib.SEGMENTS[n][1] and gen.is_seq(lib.SEGMENTS[n][1][-1]) and len(lib.SEGMENTS[n][1][-1]) == 4
                 and gen.well_formed_ref(lib.SEGMENTS[n][1][-1][1]) and len(lib.SEGMENTS[n][1][-1][1]) == 6 and lib.SEGMENTS[n][1][-1][1][2] == 'varies']
        for seg, n in opens + [('ZAB', 0), ('ZZ9', 0)]:
            sets = [[2, 10], [9, 10], [5, 12], [20, 100], list(range(1, 13)), sorted(rng.sample(range(1, 40), 4))]
            for idxs in (sets if v in full else rng.sample(sets, 2)):
                idxs = [n + i for i in idxs]
                mjobs.append((v, seg, [('%s_%d' % (seg.lower(), i), 'v%dx' % i) for i in idxs], idxs))
    ma = vlib.pmap(impl.setmany, [j[:3] for j in mjobs])
    for (v, seg, pairs, idxs), o in zip(mjobs, ma):
        chk.evals += 1
        parts = [''] * (max(idxs) + 1)
        parts[0] = seg
        for i in idxs:
            parts[i] = 'v%dx' % i
        want = '|'.join(parts)
        rep = {'api': "s = Segment(segment, version); for (attribute, value): setattr(s, attribute, value); s.to_er7()", 'version': v, 'segment': seg, 'pairs': pairs}
        if o == 'ok ' + vlib.hexs(want):
            chk.nontrivial.add((v, seg, tuple(idxs)))
            continue
        chk.fail(None, {'clause': 'open-ended-positions-together', 'version': v, 'segment': seg, 'indices': idxs, 'expected': want,
                        'got': vlib.unhexs(o[3:]) if o.startswith('ok ') else o}, rep)
    chk.dist['open_ended_multi_position_cases'] = len(mjobs)
    # ---- datatype positions: through a named field of that datatype, else through a named component of it
    djobs, dmeta = [], []
    noholder = 0
    for v in VERSIONS:
        lib = hl7apy.load_library(v)
        dts = sorted(lib.DATATYPES_STRUCTS)
        if v not in full:
            dts = rng.sample(dts, min(len(dts), 6))
        fholder, cholder = {}, {}
        for fn in sorted(lib.FIELDS):
            r = lib.FIELDS[fn]
            if gen.well_formed_ref(r) and len(r) == 6 and r[0] == 'sequence':
                fholder.setdefault(r[2], fn)
        for cn in sorted(lib.DATATYPES):
            r = lib.DATATYPES[cn]
            if gen.well_formed_ref(r) and len(r) == 6 and r[0] == 'sequence':
                cholder.setdefault(r[2], cn)
        for dt in dts:
            rows = lib.DATATYPES_STRUCTS[dt]
            if dt in fholder:
                hk, hn, sep1 = 'F', fholder[dt], '^'
            elif dt in cholder:
                hk, hn, sep1 = 'C', cholder[dt], '&'
            else:
                noholder += 1
                continue
            for j, row in enumerate(rows, 1):
                cref = row[1]
                val = value_for(cref)
                djobs.append((v, hk, hn, dt, j, None, None, val))
                dmeta.append(sep1 * (j - 1) + val)
                if hk == 'F' and gen.well_formed_ref(cref) and len(cref) == 6 and cref[0] == 'sequence' and gen.is_seq(cref[1]):
                    for k, srow in enumerate(cref[1], 1):
                        sval = value_for(srow[1])
                        djobs.append((v, hk, hn, dt, j, cref[2], k, sval))
                        dmeta.append('^' * (j - 1) + '&' * (k - 1) + sval)
    chk.dist['datatypes_without_named_holder'] = noholder
    da = vlib.pmap(impl.setdt, djobs)
    for j, want, o in zip(djobs, dmeta, da):
        chk.evals += 1
        if o == 'ok ' + vlib.hexs(want):
            chk.nontrivial.add(j[:7])
            continue
        chk.fail(None, {'clause': 'datatype-position', 'version': j[0], 'holder': j[2], 'datatype': j[3], 'component': j[4], 'sub_datatype': j[5], 'subcomponent': j[6],
                        'expected': want, 'got': vlib.unhexs(o[3:]) if o.startswith('ok ') else (o.split()[0] + ' ' + ' / '.join(vlib.unhexs(x) for x in o.split()[1:])) if o.startswith('pathdiff') else o,
                        'traversal_path': ('%s_%d' % (j[2].lower(), j[4]) + ('' if j[6] is None else '_%d' % j[6])) if o.startswith('path') else None},
                 {'api': "f = Field(holder, version) (or Component(holder)); f.<d_j>[.<d2_k>] = value; f.to_er7(); and g = Field(holder, version); g.<holder>_<j>[_<k>] = value; g.to_er7()", 'version': j[0], 'holder_kind': j[1], 'holder': j[2],
                  'datatype': j[3], 'component': j[4], 'sub_datatype': j[5], 'subcomponent': j[6], 'value': j[7]})
    chk.exhaustive = (tier != 'quick')
    chk.dist.update({'segment_positions': len(jobs), 'datatype_positions': len(djobs)})
    chk.rule = ('every field index of every segment of the exhaustive versions (all 12 in the thorough tier; 2 by seed in quick, plus a sample and every guard-listed '
                'segment of the others); every component and subcomponent position of every complex datatype of those versions; open-ended indices beyond the last '
                'field of varies-terminated segments and Z-segments (1..200, 1000, 5000). Non-trivial = distinct positions that encode at and parse from their own index.')
    chk.samples = [{'version': j[0], 'segment': j[1], 'attribute': j[2], 'value': j[3], 'result': o[:80]} for j, o in list(zip(jobs, a))[::max(1, len(jobs) // 8)]][:8]
    chk.assumptions = ['values are short literals valid for the position\'s datatype (positions, not datatypes, are under test)', 'TOLERANT validation, default delimiters']
    return chk.finish()


def replay(path):
    d = json.load(open(path))
    r = d['replay']
    print(json.dumps(d['what'], indent=1))
    if 'pairs' in r:
        print(impl.setmany((r['version'], r['segment'], [tuple(x) for x in r['pairs']])))
    elif 'segment' in r:
        print(impl.setf((r['version'], r['segment'], r['attribute'], r['value'])))
    else:
        print(impl.setdt((r['version'], r['holder_kind'], r['holder'], r['datatype'], r['component'], r['sub_datatype'], r['subcomponent'], r['value'])))
    return 0
