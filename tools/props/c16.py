"""C16 — MLLP: one framed request in, exactly one correctly routed reply out."""
import itertools, json, socket, threading, time
import vlib, gen, impl

MODULES = ['Hl7.Props.C16']
THEOREMS = ['Hl7.Mllp.C16_chunking', 'Hl7.Mllp.readFrame_chunks', 'Hl7.Mllp.readLoop_chunks', 'Hl7.Mllp.scan_prefix', 'Hl7.Mllp.C16_bad_start',
            'Hl7.Mllp.C16_timeout_first', 'Hl7.Mllp.C16_always_closed', 'Hl7.Mllp.C16_one_reply_registered', 'Hl7.Mllp.C16_unregistered',
            'Hl7.Mllp.C16_not_hl7', 'Hl7.Mllp.C16_no_err_handler', 'Hl7.Mllp.C16_frame_extract']
SB, EB, CR = b'\x0b', b'\x1c', b'\r'
TYPES = ['ADT^A01', 'ORU^R01^ORU_R01', 'QBP^Q11^QBP_Q11']


def frame(payload):
    return SB + payload + CR + EB + CR


def payloads(rng):
    out = []
    for t in TYPES + ['ADT^A08', 'XXX', '']:
        out.append(('typed:' + t, ('MSH|^~\\&|S|F|R|RF|2020||%s|%d|P|2.5\rPID|1||%d' % (t, rng.randint(1, 99), rng.randint(1, 9999))).encode()))
    out.append(('nonhl7', b'hello world'))
    out.append(('nonhl7', b'PID|1'))
    out.append(('badsep', b'MSH|^~\\&&|A'))
    out.append(('short', b'MSH|^~\\&'))
    out.append(('utf8', 'MSH|^~\\&|S|F|R|RF|2020||ADT^A01|1|P|2.5\rPID|1||é中'.encode('utf-8')))
    out.append(('emptyline', b'MSH|^~\\&|S|F|R|RF|2020||ADT^A01|1|P|2.5\r\rPID|1'))
    # framing bytes inside the payload: an end-block byte that is not followed by CR does not end the frame; a start block is just a byte
    out.append(('typed:innerEB', b'MSH|^~\\&|S|F|R|RF|2020||ADT^A01|7|P|2.5\rPID|1||left\x1cright'))
    out.append(('typed:innerEB2', b'MSH|^~\\&|S|F|R|RF|2020||QBP^Q11^QBP_Q11|7|P|2.5\rQPD|a\x1c\x1cb|\x0bc'))
    # characters that some line splitters treat as line ends (str.splitlines: LF VT FF FS GS RS NEL LS PS) inside the header fields that
    # precede MSH-9: only CR ends the MSH segment, so the message type is still the ninth field (seed C16-h)
    for k, ch in enumerate(['\n', '\x0b', '\x0c', '\x1c', '\x1d', '\x1e', '\x85', '\u2028', '\u2029']):
        flds = ['S', 'F', 'R', 'RF', '2020', '']
        i = rng.randrange(0, 6)
        flds[i] = flds[i] + 'a' + ch + 'b'
        t = TYPES[k % len(TYPES)]
        out.append(('typed:hdr%04x' % ord(ch), ('MSH|^~\\&|%s|%s|%d|P|2.5\rPID|1||7' % ('|'.join(flds), t, k)).encode('utf-8')))
    out.append(('typed:innerEBunreg', b'MSH|^~\\&|S|F|R|RF|2020||ADT^A08|7|P|2.5\rPID|1||x\x1cy'))
    return out


def ev_str(events):
    return ','.join(('c' + e[1].hex()) if e[0] == 'c' else e[0] for e in events)


def splits(b, k):
    """all ways of cutting b into exactly k non-empty consecutive chunks"""
    n = len(b)
    for cuts in itertools.combinations(range(1, n), k - 1):
        idx = (0,) + cuts + (n,)
        yield [b[idx[i]:idx[i + 1]] for i in range(k)]


def real_socket_round(chk, rng, nclients, rounds):
    """(b) real sockets: MLLPServer on loopback, concurrent clients, random chunkings, stalls and early closes"""
    from hl7apy.mllp import MLLPServer
    import mllpfake
    log = []
    handlers = mllpfake.make_handlers(TYPES, [], True, log)
    before = dict(handlers)
    srv = MLLPServer('127.0.0.1', 0, handlers, timeout=1)
    port = srv.server_address[1]
    th = threading.Thread(target=srv.serve_forever, kwargs={'poll_interval': 0.05}, daemon=True)
    th.start()
    results = []
    lock = threading.Lock()

    def client(i, kind, payload, cuts, behaviour):
        data = frame(payload)
        got = b''
        try:
            s = socket.create_connection(('127.0.0.1', port), timeout=5)
            pos = 0
            for c in cuts + [len(data)]:
                s.sendall(data[pos:c])
                pos = c
                time.sleep(rng.random() * 0.01)
                if pos >= len(data):
                    behaviour = 'normal'          # the whole frame went out (no cut left): nothing is truncated
                if behaviour == 'early-close' and pos >= len(data) // 2:
                    s.close()
                    with lock:
                        results.append((i, kind, payload, behaviour, None))
                    return
                if behaviour == 'stall' and pos >= len(data) // 2:
                    break
            while True:
                try:
                    b = s.recv(4096)
                except socket.timeout:
                    break
                if not b:
                    break
                got += b
            s.close()
        except Exception as e:  # noqa
            got = ('client-exc:' + type(e).__name__).encode()
        with lock:
            results.append((i, kind, payload, behaviour, got))
    ps = payloads(rng)
    n = 0
    for _ in range(rounds):
        ths = []
        for i in range(nclients):
            kind, p = rng.choice(ps)
            p = p.replace(b'|1|P|', ('|%d|P|' % (1000 + n)).encode())
            data_len = len(frame(p))
            cuts = sorted(rng.sample(range(1, data_len), min(rng.randint(0, 7), data_len - 1)))
            beh = rng.choice(['normal'] * 8 + ['early-close', 'stall'])
            t = threading.Thread(target=client, args=(n, kind, p, cuts, beh))
            ths.append(t)
            n += 1
        for t in ths:
            t.start()
        for t in ths:
            t.join(20)
    # one more round: a client that connects and sends NOTHING (it stalls before its first byte) next to ordinary clients — the others are
    # served at once, and the silent one is dropped when the server's timeout (1 s) expires (seed C16-i peeked at the first byte in the accept loop)
    silent = {}

    def silent_client():
        try:
            s = socket.create_connection(('127.0.0.1', port), timeout=6)
            t0 = time.time()
            try:
                b = s.recv(16)
                silent['closed_after'] = time.time() - t0 if not b else None
                silent['got'] = b
            except socket.timeout:
                silent['closed_after'] = None
            s.close()
        except Exception as e:  # noqa
            silent['exc'] = type(e).__name__
    st = threading.Thread(target=silent_client)
    st.start()
    time.sleep(0.3)
    ths = []
    for i in range(3):
        kind, p = [x for x in ps if x[0].startswith('typed:ADT^A01')][0]
        p = p.replace(b'|1|P|', ('|%d|P|' % (5000 + i)).encode())
        t = threading.Thread(target=client, args=(n, kind, p, [], 'normal'))
        ths.append(t)
        n += 1
    t_start = time.time()
    for t in ths:
        t.start()
    for t in ths:
        t.join(20)
    served_in = time.time() - t_start
    st.join(10)
    chk.evals += 1
    if served_in > 4.0 or silent.get('closed_after') is None or silent.get('closed_after', 99) > 4.0 or silent.get('got'):
        chk.fail(None, {'clause': 'a client that stalls before its first byte does not hold up the others, and is dropped at the timeout',
                        'others_served_in_s': round(served_in, 2), 'silent_client': {k: (v if not isinstance(v, bytes) else v.hex()) for k, v in silent.items()}},
                 {'api': 'MLLPServer(timeout=1) on loopback: one silent connection + 3 ordinary clients'})
    srv.shutdown()
    srv.server_close()
    if handlers != before:
        chk.fail(None, {'clause': 'handlers-map-unchanged'}, {'api': 'MLLPServer with concurrent clients'})
    # expected replies from the model, per connection
    normal = [r for r in results if r[3] == 'normal']
    lines = ['MLLP %s - 1 c%s' % (','.join(vlib.hexs(t) for t in TYPES), frame(r[2]).hex()) for r in normal]
    mo = vlib.run_driver(lines) if lines else []
    for r, m in zip(normal, mo):
        chk.evals += 1
        want = m.split(' ')[1][6:]
        got = vlib.hexs(r[4].decode('utf-8', 'replace')) if r[4] else '-'
        if got != want:
            chk.fail(None, {'clause': 'each-client-gets-its-own-routed-reply', 'kind': r[1], 'payload': r[2].decode('utf-8', 'replace'), 'expected_reply': want,
                            'got_reply': got}, {'api': 'MLLPServer on loopback, %d concurrent clients' % nclients, 'payload_hex': r[2].hex()})
    for r in results:
        if r[3] != 'normal' and r[4]:
            chk.fail(None, {'clause': 'truncated-frame-gets-no-reply', 'behaviour': r[3], 'got': r[4][:50].decode('utf-8', 'replace')},
                     {'api': 'MLLPServer on loopback', 'behaviour': r[3], 'payload_hex': r[2].hex()})
    chk.dist['real_socket_connections'] = len(results)
    chk.dist['real_socket_handler_invocations'] = len(log)


def usable_header(p):
    """independent reading of MSH-1 / MSH-2: a field separator followed by four or five characters, all distinct, none of them white space"""
    if len(p) < 8:
        return False
    fs = p[3]
    parts = p.split('\r')[0].split(fs)
    if len(parts) < 2:
        return False
    m2 = parts[1]
    chars = fs + m2
    return len(m2) in (4, 5) and len(set(chars)) == len(chars) and not any(c.isspace() for c in chars)


def run(tier, seed):
    chk = vlib.Check('C16', tier, seed)
    rng = chk.rng
    chk.proof(MODULES, THEOREMS)
    jobs = []       # (types, raising, err, events, tag, payload)
    ps = payloads(rng)
    small = ('MSH|^~\\&|S|F|R|RF|2020||ADT^A01|1|P|2.5\rPID|1').encode()
    # (1) exhaustive splittings into <= 3 chunks of short frames
    for kind, p in ([('typed:ADT^A01', small), ('nonhl7', b'hi there'), ('typed:XXX', b'MSH|^~\\&|||||||XXX')] if tier == 'quick' else ps):
        data = frame(p)
        if len(data) > 64 and tier == 'quick':
            data = frame(p[:40])
            p = p[:40]
        for k in (1, 2, 3):
            for cs in splits(data, k):
                jobs.append((TYPES, [], True, [('c', c) for c in cs], 'split%d' % k, p))
    # (2) random k<=8 splittings of every payload kind, with and without ERR handler, raising handlers
    for kind, p in ps:
        data = frame(p)
        for _ in range(6 if tier == 'quick' else 60):
            k = rng.randint(1, min(8, len(data)))
            cuts = sorted(rng.sample(range(1, len(data)), k - 1))
            idx = [0] + cuts + [len(data)]
            cs = [data[idx[i]:idx[i + 1]] for i in range(k)]
            if rng.random() < .3:
                cs.insert(rng.randrange(len(cs) + 1), b'')
            err = rng.random() < .8
            raising = [TYPES[0]] if rng.random() < .2 else []
            types = [t for t in TYPES if t not in raising]
            jobs.append((types, raising, err, [('c', c) for c in cs], 'rand:' + kind, p))
    # (3) malformed frames, stalls and early closes at every prefix of a frame
    data = frame(small)
    for i in range(0, len(data) + 1):
        jobs.append((TYPES, [], True, [('c', data[:i]), ('t',)], 'stall@%d' % i, small))
        jobs.append((TYPES, [], True, [('c', data[:i]), ('e',)], 'eof@%d' % i, small))
    for bad in [b'', b'X' + data[1:], data[1:], b'\x0b\x1c\r', b'\x0b\r\x1c\r', b'\x0b\x0b' + data[1:], SB + b'\xff\xfe' + CR + EB + CR,
                SB + b'MSH|^~\\&|\xc3' + CR + EB + CR, data + b'trailing', data + data, SB + small + EB + CR, SB + small + CR + CR + EB + CR]:
        jobs.append((TYPES, [], True, [('c', bad)], 'malformed', bad))
    a = vlib.pmap(impl.mllp, [j[:4] for j in jobs], chunk=32)
    lines = ['MLLP %s %s %d %s' % (','.join(vlib.hexs(t) for t in j[0]) or '-', ','.join(vlib.hexs(t) for t in j[1]) or '-', 1 if j[2] else 0, ev_str(j[3]))
             for j in jobs]
    mo = vlib.run_driver(lines)
    chk.correspond('MLLPRequestHandler.handle() over a scripted socket vs Hl7.Mllp.handle', jobs, a, mo,
                   show=lambda j: {'events': ev_str(j[3]), 'handlers': j[0], 'raising': j[1], 'err_handler': j[2]})
    # oracle: the property itself on the implementation's outcomes
    by_stream = {}
    for j, o in zip(jobs, a):
        chk.evals += 1
        rep = {'api': 'MLLPRequestHandler over a scripted socket', 'events': ev_str(j[3]), 'handlers': j[0], 'raising': j[1], 'err_handler': j[2]}
        if not o.startswith('inv='):
            chk.fail(None, {'clause': 'handle-does-not-raise', 'got': o, **rep}, rep)
            continue
        inv, reply, closed = [x.split('=', 1)[1] for x in o.split(' ')]
        if closed != '1':
            chk.fail(None, {'clause': 'connection-closed', **rep}, rep)
        pure = all(e[0] == 'c' for e in j[3])
        stream = b''.join(e[1] for e in j[3] if e[0] == 'c')
        if pure:
            key = (stream, tuple(j[0]), tuple(j[1]), j[2])
            if key in by_stream and by_stream[key] != o:
                chk.fail(None, {'clause': 'chunk-independence', 'a': by_stream[key], 'b': o, **rep}, rep)
            by_stream.setdefault(key, o)
        tag = j[4]
        invs = [x for x in inv.split(',') if x]
        if tag.startswith(('split', 'rand:typed')) and pure and '\r\r' not in j[5].decode('utf-8', 'replace') and not j[5].startswith(b'\r'):
            # (a frame whose payload holds an empty segment line is not something to_mllp() produces: the frame grammar rejects it; no routing claim)
            # a complete frame of an HL7 message: exactly one handler invocation (plus ERR after a raising handler), routed by MSH-9
            p = j[5].decode('utf-8')
            mt = p.split('\r')[0].split('|')[8] if p.startswith('MSH') and len(p.split('\r')[0].split('|')) > 8 else None
            if mt in j[0]:
                want = ['H:' + vlib.hexs(mt)]
                wr = vlib.hexs('ACK:' + mt)
            elif mt in j[1]:
                want = ['H:' + vlib.hexs(mt)] + (['E:HandlerException'] if j[2] else [])
                wr = vlib.hexs('ERR:HandlerException') if j[2] else '-'
            elif p.startswith('MSH') and not usable_header(p):
                # MSH-2 does not give five (six) distinct delimiters: not an HL7 message
                want = ['E:InvalidHL7Message'] if j[2] else []
                wr = vlib.hexs('ERR:InvalidHL7Message') if j[2] else '-'
            else:
                want = ['E:UnsupportedMessageType'] if j[2] else []
                wr = vlib.hexs('ERR:UnsupportedMessageType') if j[2] else '-'
            if p.startswith('MSH') and (invs != want or reply != wr):
                chk.fail(None, {'clause': 'one-correctly-routed-reply', 'expected': [want, wr], 'got': [invs, reply], **rep}, rep)
            else:
                chk.nontrivial.add((stream, len(j[3])))
        if tag.startswith(('stall', 'eof')) or tag == 'malformed':
            whole = frame(small)
            if tag.startswith(('stall', 'eof')) and stream != whole and invs:
                chk.fail(None, {'clause': 'truncated-frame-invokes-no-handler', 'got': invs, **rep}, rep)
            if tag == 'malformed' and not stream.startswith(SB) and (invs or reply != '-'):
                chk.fail(None, {'clause': 'bad-start-invokes-no-handler', 'got': invs, **rep}, rep)
    real_socket_round(chk, rng, 8 if tier == 'quick' else 16, 2 if tier == 'quick' else 12)
    chk.dist['scripted_cases'] = len(jobs)
    chk.rule = ('scripted socket: every splitting into 1, 2 and 3 chunks of short frames (registered type, unregistered type, non-HL7); random splittings into up to 8 chunks '
                '(incl. empty writes) of registered / unregistered / missing-type / non-HL7 / bad-MSH-2 / UTF-8 / empty-line payloads, with and without ERR handler and with a '
                'raising handler; a stall (timeout) and an early close (EOF) after every prefix of a frame; malformed frames (bad start, undecodable bytes, doubled frame, '
                'missing CR, trailing bytes). Real sockets: MLLPServer on loopback with concurrent clients, random chunking, stalls and early closes. Non-trivial = distinct '
                '(byte stream, number of chunks) of complete HL7 frames.')
    chk.samples = [{'events': ev_str(j[3])[:120], 'outcome': o} for j, o in list(zip(jobs, a))[::max(1, len(jobs) // 8)]][:8]
    chk.assumptions = ['handlers are deterministic functions of the message', 'ThreadingTCPServer, the socket layer and real-time timeouts are not modelled; the real-socket '
                       'round supports the tie, it is not part of the proof']
    return chk.finish()


def replay(path):
    d = json.load(open(path))
    r = d['replay']
    print(json.dumps(d['what'], indent=1))
    if 'events' in r:
        evs = []
        for tok in r['events'].split(','):
            evs.append(('c', bytes.fromhex(tok[1:])) if tok.startswith('c') else (tok,))
        print(impl.mllp((r['handlers'], r['raising'], r['err_handler'], evs)))
    return 0
