"""C10 — The element tree stays internally consistent through any API history."""
import json
import vlib, heapcorr
from props import heapcommon as hc


def run(tier, seed):
    chk = vlib.Check('C10', tier, seed)
    chk.proof(hc.MODULES['C10'], hc.THEOREMS['C10'])
    nlow, nseg, nmsg = hc.sizes(tier)
    runs = hc.low_level(chk, nlow)
    hc.api_level(chk, hc.api_size(tier))
    for r in runs:
        for i, bad in enumerate(r['inv']):
            chk.evals += 1
            if bad:
                chk.fail(None, {'clause': 'graph invariant (ElementList level)', 'ops': r['history']['ops'][:i + 1], 'outcome': r['impl'][i].split(' ')[0],
                                'nodes': [n[:2] for n in r['history']['nodes']], 'violations': bad},
                         {'kind': 'low', 'history': r['history'], 'step': i})
                break
            chk.nontrivial.add(r['impl'][i])
    for h, recs in hc.api_histories(chk, nseg, nmsg):
        for i, r in enumerate(recs):
            chk.evals += 1
            if r['inv']:
                chk.fail(None, {'clause': 'graph invariant (API level)', 'root': h['root'], 'strict': h['strict'], 'ops': h['ops'][:i + 1],
                                'outcome': r['exc'] or 'ok', 'violations': r['inv']}, {'kind': 'api', 'history': h, 'step': i})
                break
            chk.nontrivial.add((r['op'][0], r['exc'], tuple(r['children'])))
    chk.exhaustive = False
    chk.rule = ('after every op (successful or rejected) of every history: each listed child reports the listing element as parent, is listed once and by '
                'one element only; len / iteration / indexing / containment / lookup by name agree (the by-name index is the list filtered by name); '
                'version and validation level are those of the root; elements moved away or detached are really gone; low level: 19 real elements, '
                'API level: Segment or ADT_A01 message roots, both validation levels. Non-trivial = distinct (op, outcome, children) states.')
    chk.assumptions = ['the by-name clause skips a parent after replace_child(old, new) with different names (never issued by the API)',
                       'the traversal-parent setter is applied to freshly created elements only (as create_element does)']
    return chk.finish()


def replay(path):
    d = json.load(open(path))
    print(json.dumps(d['what'], indent=1)[:3000])
    r = d['replay']
    if r.get('kind') == 'api':
        recs = hc.replay_history(r['history'], r['step'])
        print('replayed:', json.dumps(recs[-1])[:600])
        return 1 if recs[-1]['inv'] else 0
    if r.get('kind') == 'low':
        h = dict(r['history'], ops=r['history']['ops'][:r['step'] + 1])
        out, _, inv, _ = heapcorr.run_real(h)
        print('replayed:', out[-1], inv[-1])
        return 1 if inv[-1] else 0
    return 0
