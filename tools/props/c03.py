"""C03 — Parsing never silently drops or reorders content."""
import json, re
import vlib, gen, impl
from props.c01 import VERSIONS, excluded

MODULES = ['Hl7.Props.C08', 'Hl7.Props.C03Casc', 'Hl7.Props.C03Enc']
THEOREMS = ['Hl7.Msg.C08_order', 'Hl7.Msg.C03_flat_keeps_all', 'Hl7.Msg.place_flat', 'Hl7.Msg.finish_flat', 'Hl7.Msg.C03_witness_drop', 'Hl7.Msg.C03_dropped_only_if_unplaceable', 'Hl7.Msg.place_dropped_unplaceable', 'Hl7.Casc.C03_parse_keeps_every_piece', 'Hl7.Casc.C03_encode_keeps_every_piece', 'Hl7.Casc.pos_pieces', 'Hl7.Casc.enc_parse_nil']
DEF = '|^&~\\'


def leaves(line, chars=DEF):
    """non-empty leaf values of one segment line, in order"""
    body = line[3:]
    parts = re.split('[' + re.escape(chars[0] + chars[1] + chars[2] + chars[3]) + ']', body)
    return [p for p in parts if p.strip() != '']


def is_subsequence(a, b):
    it = iter(b)
    return all(x in it for x in a)


def build(rng, tier):
    out = []
    per = 14 if tier == 'quick' else 120
    for v in VERSIONS:
        g = gen.MsgGen(rng, version=v)
        mts = g.structures()
        allsegs = sorted(n for n in g.lib.SEGMENTS if n not in ('MSH', 'ANYHL7SEGMENT'))
        for mt in rng.sample(mts, min(len(mts), per)):
            for style in ('plain', 'foreign', 'zseg', 'repeat', 'overflow', 'shuffle', 'blank', 'delims', 'ctrl'):
                try:
                    t, der, names = g.message(mt, 'random', rich=False)
                except Exception:  # noqa
                    continue
                names = names[1:]
                if style == 'foreign':
                    for _ in range(rng.randint(1, 2)):
                        names.insert(rng.randrange(len(names) + 1), rng.choice(allsegs))
                elif style == 'zseg':
                    names.insert(rng.randrange(len(names) + 1), 'Z' + rng.choice('ABZ') + rng.choice('12P'))
                elif style == 'repeat' and names:
                    i = rng.randrange(len(names))
                    names.insert(i, names[i])
                elif style == 'shuffle' and len(names) > 1:
                    i, j = rng.sample(range(len(names)), 2)
                    names[i], names[j] = names[j], names[i]
                lines = [g.msh(mt)]
                for n in names:
                    if n in g.lib.SEGMENTS and rng.random() < .5:
                        lines.append(g.segment(n, mode='canon', overflow=(style in ('overflow', 'delims')), fill=.25))
                    elif n[:1] == 'Z' and n not in g.lib.SEGMENTS:
                        lines.append(g.zsegment(n))
                    else:
                        lines.append(n + '|1')
                if style == 'ctrl' and len(lines) > 1:
                    # a character that some line splitters take for a line end (LF VT FF FS GS RS NEL LS PS) strictly inside a value:
                    # only CR ends a segment (seed C03-j split the message with splitlines())
                    k = rng.randrange(1, len(lines))
                    lines[k] = lines[k] + '|a' + rng.choice(['\n', '\x0b', '\x0c', '\x1c', '\x1d', '\x1e', '\x85', '\u2028', '\u2029']) + 'b'
                if style == 'blank':
                    # empty lines between segments (and after the last one) carry no content: nothing after them may be lost
                    for _ in range(rng.randint(1, 2)):
                        lines.insert(rng.randrange(1, len(lines) + 1), '')
                text = '\r'.join(lines)
                chars = DEF
                if style == 'delims':
                    # the same message spelled with another delimiter set (declared in MSH-1 / MSH-2): fields beyond the defined count, with
                    # components and subcomponents, must be split by the message's own characters like every other field (seed C03-h)
                    pool = [c for c in '!$%*+/:;<=>?@[]{}' if c not in text]
                    if len(pool) < 5:
                        continue
                    chars = ''.join(rng.sample(pool, 5))
                    text = text.translate({ord(a): b for a, b in zip(DEF, chars)})
                out.append((v, mt, style, text, chars))
    return out


def run(tier, seed):
    chk = vlib.Check('C03', tier, seed)
    rng = chk.rng
    chk.proof(MODULES, THEOREMS)
    ex = excluded()
    msgs = build(rng, tier)
    jobs = [(t, False, fg) for (v, mt, st, t, ch) in msgs for fg in (True, False)]
    meta = [(v, mt, st, ch) for (v, mt, st, t, ch) in msgs for fg in (True, False)]
    a = vlib.pmap(impl.msg, jobs)
    chk.again('parse_message(text, TOLERANT, find_groups).to_er7()', impl.msg, jobs, a, 300)
    mo = vlib.run_driver(['MSG T T 2.5 %d %s' % (1 if j[2] else 0, vlib.hexs(j[0])) for j in jobs])
    chk.correspond('parse_message(text, TOLERANT, find_groups).to_er7() + tree vs Hl7.Msg.parseMessage/encMessage', jobs, a, mo,
                   show=lambda j: {'text': j[0], 'find_groups': j[2]})
    kinds = {}
    for j, (v, mt, style, chars), o, m in zip(jobs, meta, a, mo):
        chk.evals += 1
        text, _, fg = j
        rep = {'api': 'parse_message(text, TOLERANT, find_groups).to_er7()', 'text': text, 'find_groups': fg}
        k0 = o.split(' ')[0] + (':' + o.split(' ')[1] if not o.startswith('ok') else '')
        kinds[k0] = kinds.get(k0, 0) + 1
        if o.startswith('exc '):
            continue                      # surfaced as an exception: allowed by the property (crash kinds are C15's)
        inp = [l.strip() for l in text.split('\r') if l != '']
        in_names = [l[:3].upper() for l in inp]
        agree = (o == m) or m == 'exc Unsupported'
        bad = [n for n in in_names if n in ex.get(v, [])]
        if o.startswith('encexc '):
            key = None
            chk.fail(key, {'clause': 'encodes', 'got': o, 'version': v, 'structure': mt, 'style': style, 'text': text, 'find_groups': fg}, rep)
            continue
        out = vlib.unhexs(o.split(' ')[1])
        outl = [l for l in out.split('\r') if l != '']
        out_names = [l[:3] for l in outl]
        if out_names != in_names:
            key = None
            if fg and agree and is_subsequence(out_names, in_names):
                key = 'D4:unplaceable-dropped'      # pure dropping by the group finder (no reordering, nothing invented)
            chk.fail(key, {'clause': 'same-segments-same-order', 'version': v, 'structure': mt, 'style': style, 'find_groups': fg,
                           'input_segments': in_names, 'output_segments': out_names, 'text': text}, rep)
            continue
        chk.nontrivial.add((text, fg))
        for li, lo in zip(inp, outl):
            if leaves(li, chars) != leaves(lo, chars):
                n = li[:3].upper()
                key = 'T:%s:%s' % (v, n) if (n in ex.get(v, []) and agree) else None
                chk.fail(key, {'clause': 'same-leaves-same-order', 'version': v, 'segment_in': li, 'segment_out': lo, 'find_groups': fg}, rep)
                break
    chk.dist['result_kinds'] = kinds
    chk.dist['messages'] = len(msgs)
    chk.rule = ('per version, instances of random message structures in nine styles: as derived; with 1-2 segments of other message types inserted; with a Z-segment; '
                'with a repeated segment; with fields/components beyond the defined count; with two segments swapped; with empty lines between segments; the overflow style spelled with a random other delimiter set. Each parsed with find_groups on and off under '
                'TOLERANT. Non-trivial = distinct (text, find_groups) whose encoding keeps all segments in order.')
    chk.samples = [{'version': v, 'structure': mt, 'style': st, 'text': t[:160]} for (v, mt, st, t, ch) in msgs[::max(1, len(msgs) // 8)]][:8]
    chk.assumptions = ['leaf values are canonical (escape-stable, datatype-stable): normalisation of non-canonical leaves is C06/C13']
    return chk.finish()


def replay(path):
    d = json.load(open(path))
    r = d['replay']
    print(json.dumps(d['what'], indent=1))
    print(impl.msg((r['text'], False, r['find_groups'])))
    return 0
