"""C13 — Base datatype values: acceptance matches HL7 syntax and text is preserved."""
import itertools, json, re
import vlib

MODULES = ['Hl7.Props.C13']
THEOREMS = ['Hl7.Datatypes.C13_tolerant_total', 'Hl7.Datatypes.C13_tolerant_never_valueError', 'Hl7.Datatypes.C13_maxlen_textual',
            'Hl7.Datatypes.C13_maxlen_nm', 'Hl7.Datatypes.C13_maxlen_si',
            'Hl7.Datatypes.C13_dt_length', 'Hl7.Datatypes.C13_strict_reject_is_valueError',
            'Hl7.Datatypes.C13_tolerant_verbatim_fallback',
            'Hl7.Datatypes.C13_si_accept_iff', 'Hl7.Datatypes.C13_si_roundtrip',
            'Hl7.Datatypes.C13_witness_dt_space', 'Hl7.Datatypes.C13_witness_offset_bound', 'Hl7.Datatypes.C13_witness_offset_repeat',
            'Hl7.Datatypes.C13_witness_nm_exponent', 'Hl7.Datatypes.C13_witness_nm_scientific', 'Hl7.Datatypes.C13_witness_si_sign',
            'Hl7.Datatypes.C13_witness_year']
ALPHA = '0123456789.+- a'
DTS = ['DT', 'TM', 'DTM', 'NM', 'SI']


# ---------------------------------------------------------------- HL7 lexical definitions (independent of the code)
def leap(y):
    return y % 4 == 0 and (y % 100 != 0 or y % 400 == 0)


def lex_date(s):
    if not re.fullmatch(r'\d{4}(\d{2}(\d{2})?)?', s):
        return False
    y = int(s[:4])
    if y < 1:
        return False
    if len(s) >= 6:
        m = int(s[4:6])
        if not 1 <= m <= 12:
            return False
        if len(s) == 8:
            d = int(s[6:8])
            md = [31, 29 if leap(y) else 28, 31, 30, 31, 30, 31, 31, 30, 31, 30, 31][m - 1]
            if not 1 <= d <= md:
                return False
    return True


def lex_time(s):
    """HH[MM[SS[.S{1,4}]]]"""
    m = re.fullmatch(r'(\d{2})((\d{2})((\d{2})(\.\d{1,4})?)?)?', s)
    if not m:
        return False
    if int(m.group(1)) > 23:
        return False
    if m.group(3) is not None and int(m.group(3)) > 59:
        return False
    if m.group(5) is not None and int(m.group(5)) > 59:
        return False
    return True


def split_off(s):
    m = re.fullmatch(r'(.*?)([+-]\d{4})', s, re.S)
    if not m:
        return s, ''
    return m.group(1), m.group(2)


def lex_offset(o):
    if o == '':
        return True
    hh, mm = int(o[1:3]), int(o[3:5])
    if mm > 59:
        return False
    v = hh * 100 + mm
    return v <= 1400 if o[0] == '+' else v <= 1200


def lex(dt, s):
    if dt == 'DT':
        return lex_date(s)
    if dt == 'TM':
        b, o = split_off(s)
        return lex_time(b) and lex_offset(o)
    if dt == 'DTM':
        b, o = split_off(s)
        if not lex_offset(o):
            return False
        if len(b) <= 8:
            return lex_date(b)
        return lex_date(b[:8]) and len(b[:8]) == 8 and lex_time(b[8:])
    if dt == 'NM':
        return re.fullmatch(r'[+-]?(\d+(\.\d*)?|\.\d+)', s) is not None
    if dt == 'SI':
        return re.fullmatch(r'\d{1,4}', s) is not None
    raise KeyError(dt)


def plain_decimal(s):
    return re.fullmatch(r'-?(0|[1-9]\d*)(\.\d+)?', s) is not None


def known_class(dt, s, strict_ok, text):
    """decidable description of the D10 root causes; None if the deviation is none of them"""
    if any(ord(c) > 127 for c in s) and strict_ok:
        return 'D10:unicode-digits'
    if dt in ('DT', 'DTM') and re.search(r'^\d{6} [1-9]', s):
        return 'D10:space-day'
    if dt in ('TM', 'DTM'):
        m = re.search(r'([+-])(\d\d)(\d\d)$', s)
        if m:
            off = m.group(0)
            if s.count(off) > 1:
                return 'D10:offset-repeat'
            if (m.group(1) == '+' and m.group(2) == '14' and m.group(3) != '00') or \
               (m.group(1) == '-' and m.group(2) == '12' and m.group(3) != '00'):
                return 'D10:offset-bound'
    if dt in ('DT', 'DTM') and re.match(r'0\d{3}', s) and text is not None and text != s:
        return 'D10:year-lt-1000'
    if dt == 'NM':
        if not lex('NM', s) and strict_ok:
            return 'D10:nm-nonlexical'
        if lex('NM', s) and text is not None and text != s and plain_decimal(s):
            return 'D10:nm-scientific'
    if dt == 'SI':
        if not lex('SI', s) and strict_ok:
            return 'D10:si-nonlexical'
    return None


def impl(dt, s, version, strict, ec):
    from hl7apy.factories import datatype_factory
    from hl7apy.consts import VALIDATION_LEVEL as VL
    from hl7apy.exceptions import HL7apyException
    try:
        o = datatype_factory(dt, s, version, VL.STRICT if strict else VL.TOLERANT)
        return 'ok ' + vlib.hexs(o.to_er7(ec))
    except HL7apyException as e:
        return 'exc ' + type(e).__name__
    except ValueError:
        return 'exc ValueError'
    except (IndexError, KeyError, TypeError, AttributeError) as e:
        return 'exc Crash:' + type(e).__name__


def gen_cases(tier, rng):
    cases = {d: [] for d in DTS}
    n = 3 if tier == 'quick' else 5
    short = [''.join(t) for k in range(0, n + 1) for t in itertools.product(ALPHA, repeat=k)]
    for d in DTS:
        cases[d].extend(short)
    # time-of-day grid, fractions, offsets
    tms = []
    for hh in range(0, 25):
        for mm in list(range(0, 62)):
            tms.append('%02d%02d' % (hh, mm))
            if mm % 7 == 0 or tier != 'quick':
                for ss in ([0, 1, 30, 59, 60, 61] if tier == 'quick' else range(0, 62)):
                    tms.append('%02d%02d%02d' % (hh, mm, ss))
    tms += ['%02d' % h for h in range(0, 30)] + ['1', '123', '12345', '1 ', ' 1', '1200 ', '12:00']
    for f in range(0, 8):
        tms.append('120000.' + '1234567'[:f])
        tms.append('235959.' + '0' * f)
    offs = []
    for sg in '+-':
        for hh in range(0, 16):
            for mm in ([0, 1, 30, 59, 60, 99] if tier == 'quick' else range(0, 100, 1 if hh in (0, 12, 14) else 9)):
                offs.append('%s%02d%02d' % (sg, hh, mm))
    offs += ['+123', '-12345', '+12 0', '+ 100', '++100', '0100']
    cases['TM'].extend(tms)
    for b in ['12', '1200', '120000', '120000.1234', '00', '2359']:
        for o in offs:
            cases['TM'].append(b + o)
    cases['TM'] += ['12+0100+0100', '0100+0100', '+0100', '12-0100-0100', '1200+1200+1200', '12+01000', '12+0100 ', '+010012']
    # calendar
    years = ['0000', '0001', '0999', '1000', '1899', '1900', '2000', '2023', '2024', '2100', '2400', '9999']
    for y in years:
        cases['DT'].append(y)
        for m in range(0, 14):
            cases['DT'].append('%s%02d' % (y, m))
            for d in range(0, 33):
                cases['DT'].append('%s%02d%02d' % (y, m, d))
        cases['DT'] += [y + '1', y + '011', y + '01 5', y + ' 105', y + '1 05', y + '0101 ', ' ' + y, y + ' 1', y + '001', y + '1301', y + '0 1']
    cases['DT'] += ['20200', '202001011', '2020010', '٢٠٢٠', '２０２０', '2020-01-01', '20.0', '+2020', '-2020']
    dtm = []
    for d in ['2020', '202002', '20200229', '20210229', '0999', '099912', '19991231', '199912 5', '1999']:
        dtm.append(d)
        for t in ['00', '23', '24', '2359', '2360', '235959', '235960', '235959.1', '235959.1234', '235959.12345', '1', '123', '12345', '12 0']:
            dtm.append(d + t)
    cases['DTM'] += dtm
    for b in ['2020', '20200101', '2020010112', '202001011200', '20200101120000', '20200101120000.1234', '199912 5', '0999']:
        for o in (offs if tier != 'quick' else offs[::3]):
            cases['DTM'].append(b + o)
    cases['DTM'] += ['2020+0100+0100', '20200101+0100+0100', '+0100', '2020+01000', '202001011200+0100 ', '0100+0100']
    # numerics
    ws = ['', ' ', '\t', '\n', '\x1c', '\x1f', '\x85', '\xa0', ' ', '　']
    nums = ['0', '1', '-1', '+1', '01', '001', '0.5', '.5', '5.', '1.50', '-0', '-0.0', '+.5', '1e5', '1E5', '1e-7', '1E+5', '0.0000001', '0.000001',
            '0.00000123', '123456789012345', '1234567890123456', '12345678901234567', '-123456789012345', '-1234567890123456', '1234567890.123456',
            '123456789.1234567', '0.123456789012345', '00000000000000001', '1_0', 'Infinity', 'NaN', 'inf', '-inf', 'nan', '0x10', '1,5', '١٢', '１２', '1.2.3',
            '--1', '+-1', '1-', '1+', '.', '-', '+', 'e5', '1e', '1e+', '9999', '10000', '09999', '-9999', '99999', '1.0', '1.', '0e0', '0e5', '0e-5', '1e1', '1e0',
            '100e-2', '1.5e3', '-1.5E-3', '0.1e-5', '12e-8', '1.e1', '.1e1']
    for v in nums:
        for a in ws[:4 if tier == 'quick' else None]:
            for b in ws[:3 if tier == 'quick' else None]:
                cases['NM'].append(a + v + b)
                cases['SI'].append(a + v + b)
    R = 2000 if tier == 'quick' else 20000
    for _ in range(R):
        k = rng.choice([4, 5, 6, 7, 8, 9, 10, 12, 14, 16, 18, 19, 21, 26])
        base = rng.choice(['digits', 'digits', 'mixed'])
        if base == 'digits':
            s = ''.join(rng.choice('0123456789') for _ in range(k))
            if rng.random() < .4:
                i = rng.randrange(0, len(s))
                s = s[:i] + rng.choice('.+- a') + s[i + 1:]
        else:
            s = ''.join(rng.choice(ALPHA) for _ in range(k))
        cases[rng.choice(DTS)].append(s)
        # structured numerics
        sg = rng.choice(['', '', '-', '+'])
        ip = ''.join(rng.choice('0123456789') for _ in range(rng.choice([0, 1, 1, 2, 4, 5, 15, 16, 17])))
        fp = rng.choice(['', '', '.', '.' + ''.join(rng.choice('0123456789') for _ in range(rng.choice([1, 2, 6, 7, 8])))])
        ex = rng.choice(['', '', '', 'e' + rng.choice(['', '-', '+']) + str(rng.randrange(0, 12))])
        v = sg + ip + fp + ex
        cases[rng.choice(['NM', 'SI'])].append(v)
        # structured times / datetimes
        d = rng.choice(['2020', '202002', '20200229', '19000229', '20000229', '21000229'])
        t = rng.choice(['', '%02d' % rng.randrange(0, 25), '%02d%02d' % (rng.randrange(0, 25), rng.randrange(0, 61)),
                        '%02d%02d%02d' % (rng.randrange(0, 24), rng.randrange(0, 60), rng.randrange(0, 62)),
                        '%02d%02d%02d.%s' % (rng.randrange(0, 24), rng.randrange(0, 60), rng.randrange(0, 60), '123456'[:rng.randrange(0, 7)])])
        o = rng.choice(['', '', rng.choice(offs)])
        cases['DTM'].append(d + t + o)
        if t:
            cases['TM'].append(t + o)
    out = []
    for d in DTS:
        seen = set()
        for s in cases[d]:
            if '\n' in s and d in ('DT', 'TM', 'DTM'):
                continue      # model domain: Python's `$` also matches before a final newline (DESIGN §4.5)
            if s not in seen:
                seen.add(s)
                out.append((d, s))
    return out


def run(tier, seed):
    import hl7apy
    from hl7apy import get_default_encoding_chars
    chk = vlib.Check('C13', tier, seed)
    rng = chk.rng
    chk.proof(MODULES, THEOREMS)
    cases = gen_cases(tier, rng)
    # versions grouped by the identity of their (factory-relevant) classes: every distinct group runs the whole corpus
    groups = {}
    for v in sorted(hl7apy.SUPPORTED_LIBRARIES):
        lib = hl7apy.load_library(v)
        key = tuple(id(lib.BASE_DATATYPES.get(d)) for d in DTS + ['ST'])
        groups.setdefault(key, []).append(v)
    reps = [vs[rng.randrange(len(vs))] for vs in groups.values()]
    chk.dist['version_groups'] = list(groups.values())
    chk.dist['versions_run_fully'] = reps
    ec = dict(get_default_encoding_chars('2.5'))
    ech = vlib.ec_hex(ec)
    jobs = []
    for v in reps:
        lib = hl7apy.load_library(v)
        for d, s in cases:
            if d in lib.BASE_DATATYPES:
                for strict in (True, False):
                    jobs.append((v, d, s, strict))
    # every other version: a sample
    for vs in groups.values():
        for v in vs:
            if v in reps:
                continue
            lib = hl7apy.load_library(v)
            for d, s in rng.sample(cases, min(len(cases), 300 if tier == 'quick' else 3000)):
                if d in lib.BASE_DATATYPES:
                    jobs.append((v, d, s, rng.random() < .5))
    hl7apy.set_default_validation_level(2)
    impl_out = [impl(d, s, v, strict, ec) for (v, d, s, strict) in jobs]
    lines = ['FAC %s %s T %s %s %s' % (v, 'S' if strict else 'T', ech, d, vlib.hexs(s)) for (v, d, s, strict) in jobs]
    model_out = vlib.run_driver(lines)
    chk.correspond('datatype_factory(dt, value, version, level).to_er7() vs Hl7.Datatypes.factory', jobs, impl_out, model_out,
                   show=lambda j: {'version': j[0], 'datatype': j[1], 'value': j[2], 'level': 'STRICT' if j[3] else 'TOLERANT'})
    # oracle: the property on the implementation
    res = {}
    for j, o in zip(jobs, impl_out):
        res[j] = o
    kinds = {}
    agree = {j: (a == b or b == 'exc Unsupported') for j, a, b in zip(jobs, impl_out, model_out)}
    _fail = chk.fail

    def fail_if_model_agrees(key, what, replay):
        # a deviation is a *listed* finding only where the Lean model (which carries the kernel-checked witnesses)
        # exhibits the very same behaviour; anything the model does not predict is new
        j = (replay['version'], replay['datatype'], replay['value'], replay['level'] == 'STRICT')
        _fail(key if agree.get(j, False) else None, what, replay)
    chk.fail = fail_if_model_agrees
    for (v, d, s, strict), o in zip(jobs, impl_out):
        chk.evals += 1
        rep = {'api': 'datatype_factory(datatype, value, version, level).to_er7()', 'version': v, 'datatype': d, 'value': s,
               'level': 'STRICT' if strict else 'TOLERANT'}
        ok = o.startswith('ok ')
        text = vlib.unhexs(o[3:]) if ok else None
        L = lex(d, s) if s != '' else None
        kinds[o.split()[0] + (':' + o.split()[1] if not ok else '')] = kinds.get(o.split()[0] + (':' + o.split()[1] if not ok else ''), 0) + 1
        if s == '':
            continue     # the empty value is "no value" for every datatype
        if L:
            chk.nontrivial.add((d, s))
        if strict:
            if o.startswith('exc Crash') or (not ok and o not in ('exc ValueError', 'exc MaxLengthReached')):
                chk.fail(None, {'clause': 'strict-exception-kind', 'got': o, **rep}, rep)
                continue
            # too long => MaxLengthReached
            maxlen = {'NM': 16, 'SI': 4}.get(d)
            if L and maxlen and plain_decimal(s) and len(s) > maxlen:
                if o != 'exc MaxLengthReached':
                    chk.fail(known_class(d, s, ok, text), {'clause': 'maxlen', 'got': o, **rep}, rep)
                continue
            if o == 'exc MaxLengthReached':
                if not (maxlen and L is not False):
                    # over-long normalised value of a non-lexical input: same root cause as non-lexical acceptance
                    chk.fail(known_class(d, s, True, None), {'clause': 'accept-iff-lexical', 'got': o, 'lexical': L, **rep}, rep)
                continue
            if ok != bool(L):
                chk.fail(known_class(d, s, ok, text), {'clause': 'accept-iff-lexical', 'accepted': ok, 'lexical': L, **rep}, rep)
                continue
            if ok:
                same_text = text == s
                if d in ('NM', 'SI'):
                    from decimal import Decimal, InvalidOperation
                    try:
                        same_number = Decimal(text) == Decimal(s)
                    except InvalidOperation:
                        same_number = False        # the encoding of an accepted number is not a number at all (e.g. '' for SI '0', seed C13-g)
                    if not same_number:
                        chk.fail(None, {'clause': 'same-number', 'encoded': text, **rep}, rep)
                    elif plain_decimal(s) and not same_text:
                        chk.fail(known_class(d, s, ok, text), {'clause': 'plain-decimal-text', 'encoded': text, **rep}, rep)
                elif not same_text:
                    chk.fail(known_class(d, s, ok, text), {'clause': 'text-roundtrip', 'encoded': text, **rep}, rep)
        else:
            if not ok:
                chk.fail(None, {'clause': 'tolerant-total', 'got': o, **rep}, rep)
                continue
            if text != s:
                # preserved verbatim unless it is a lexically valid value re-encoded to the same text
                strict_o = res.get((v, d, s, True))
                strict_ok = strict_o.startswith('ok ') if strict_o else None
                k = known_class(d, s, True, text)
                if k is None and d in ('NM', 'SI') and L and not plain_decimal(s):
                    k = 'D10:tolerant-normalised'      # '+1' -> '1', '01' -> '1', '.5' -> '0.5'
                if k is not None and not k.startswith('D10:tolerant'):
                    k = 'D10:tolerant-normalised'
                chk.fail(k, {'clause': 'tolerant-verbatim', 'encoded': text, **rep}, rep)
    # the result of a factory call is a function of its arguments: the same calls in another order (TOLERANT before STRICT,
    # and each call repeated) must return what they returned the first time — a memo keyed on too little (seed C13-h) shows here
    pairs = sorted({(v, d, s) for (v, d, s, _) in jobs if v in reps})
    sample = rng.sample(pairs, min(len(pairs), 6000 if tier == 'quick' else 60000))
    replays = 0
    for (v, d, s) in sample:
        for strict in (False, True, True, False):
            if (v, d, s, strict) not in res:
                continue
            o2 = impl(d, s, v, strict, ec)
            chk.evals += 1
            replays += 1
            if o2 != res[(v, d, s, strict)]:
                rep = {'api': 'datatype_factory(datatype, value, version, level).to_er7()', 'version': v, 'datatype': d, 'value': s,
                       'level': 'STRICT' if strict else 'TOLERANT', 'after': 'the same value submitted under the other level first (TOLERANT, STRICT, STRICT, TOLERANT)'}
                _fail(None, {'clause': 'acceptance depends on the calls made before', 'first_time': res[(v, d, s, strict)], 'now': o2, **rep}, rep)
                break
    chk.dist['calls_replayed_in_another_order'] = replays
    chk.dist['result_kinds'] = kinds
    chk.dist['cases_per_datatype'] = {d: sum(1 for c in cases if c[0] == d) for d in DTS}
    chk.dist['lexically_valid_distinct'] = len(chk.nontrivial)
    chk.rule = ('per datatype: all strings of length <= %d over %r; the HHMM(SS) grid 00-24 x 00-61 (x seconds), fraction lengths 0-7, the +/-HHMM offset grid '
                'appended to every base format (incl. doubled offsets), 12 boundary years x months 00-13 x days 00-32 (+ blank/short forms), 70 numeric literals x '
                'whitespace kinds, structured random dates/times/numbers and random alphabet strings up to length 26; both levels. Non-trivial = distinct (datatype, '
                'string) pairs that are lexically valid HL7 values.' % (3 if tier == 'quick' else 5, ALPHA))
    chk.samples = [{'datatype': j[1], 'value': j[2], 'level': 'STRICT' if j[3] else 'TOLERANT', 'result': o} for j, o in list(zip(jobs, impl_out))[5000::max(1, len(jobs) // 12)]][:12]
    chk.assumptions = ["values are str (the factory's float/int inputs are outside the property)", "no '\\n' in DT/TM/DTM values (Python's $ quirk, outside the property's alphabet)",
                       'ASCII digits (Unicode digits are sent to the implementation and must be rejected; the model marks them Unsupported only if accepted)']
    return chk.finish()


def replay(path):
    d = json.load(open(path))
    r = d['replay']
    print(json.dumps(d['what'], indent=1))
    from hl7apy import get_default_encoding_chars
    print('now:', impl(r['datatype'], r['value'], r['version'], r['level'] == 'STRICT', get_default_encoding_chars('2.5')),
          'lexical:', lex(r['datatype'], r['value']))
    return 0
