"""C06 — Escaping is delimiter-safe and idempotent for every delimiter set."""
import itertools, json
import vlib

MODULES = ['Hl7.Props.C06']
THEOREMS = ['Hl7.Escape.C06_delimiter_free', 'Hl7.Escape.C06_counts', 'Hl7.Escape.C06_idempotent',
            'Hl7.Escape.C06_fixed_iff', 'Hl7.Escape.C06_escaped_fixed', 'Hl7.Escape.C06_tokenizes_partial',
            'Hl7.Escape.C06_witness_tokenizes', 'Hl7.Escape.pass_idem']
LETTERS = 'HNFSTREL'
PUNCT = [c for c in '!"#$%&\'()*+,-./:;<=>?@[\\]^_`{|}~']


def mk_ec(chars):
    d = {'FIELD': chars[0], 'COMPONENT': chars[1], 'SUBCOMPONENT': chars[2], 'REPETITION': chars[3], 'ESCAPE': chars[4],
         'GROUP': '\r', 'SEGMENT': '\r'}
    if len(chars) > 5:
        d['TRUNCATION'] = chars[5]
    return d


def delims(ec, v27):
    ds = [ec['FIELD'], ec['COMPONENT'], ec['SUBCOMPONENT'], ec['REPETITION']]
    if v27 and 'TRUNCATION' in ec:
        ds.append(ec['TRUNCATION'])
    return ds


def tokenizes(out, e, letters):
    i, n = 0, len(out)
    while i < n:
        if out[i] == e:
            if i + 2 < n and out[i + 1] in letters and out[i + 2] == e:
                i += 3
            else:
                return False
        else:
            i += 1
    return True


def textual_classes():
    """(version, datatype, class, v27?) for every textual base datatype class of every version.  Which escaping a class owes is a
    fact about its VERSION (from 2.7 on: truncation character and the letter L), not about the class it happens to derive from — a
    2.7+ class wired to the pre-2.7 code is exactly what the property forbids (seed C06-e, defect D35)."""
    import hl7apy
    from hl7apy import base_datatypes as bd
    from hl7apy.v2_7 import base_datatypes as bd27
    out = []
    for v in sorted(hl7apy.SUPPORTED_LIBRARIES):
        lib = hl7apy.load_library(v)
        for dt, cls in sorted(lib.BASE_DATATYPES.items()):
            if issubclass(cls, bd.TextualDataType) and dt != 'TN':
                out.append((v, dt, cls, tuple(int(x) for x in v.split('.')) >= (2, 7)))
    return out


def impl_escape(cls, s, ec):
    from hl7apy.consts import VALIDATION_LEVEL
    try:
        return 'ok ' + vlib.hexs(cls(s, validation_level=VALIDATION_LEVEL.TOLERANT).to_er7(ec))
    except Exception as e:  # noqa
        return 'exc ' + type(e).__name__


def oracle(chk, cls, v27, ec, s, out_line, model_line, where):
    """the property itself, evaluated on the implementation's output"""
    chk.evals += 1
    rep = {'api': 'cls(value).to_er7(ec)', 'class': where, 'encoding_chars': {k: v for k, v in ec.items() if k not in ('GROUP', 'SEGMENT')},
           'value': s}
    if not out_line.startswith('ok '):
        chk.fail(None, {'clause': 'total', 'value': s, 'got': out_line, 'class': where}, rep)
        return
    out = vlib.unhexs(out_line[3:])
    e = ec['ESCAPE']
    letters = LETTERS if v27 else LETTERS[:-1]
    ds = delims(ec, v27)
    if any(d in out for d in ds):
        chk.fail(None, {'clause': 'delimiter-free', 'value': s, 'encoded': out, 'class': where}, rep)
    again = impl_escape(cls, out, ec)
    if again != out_line:
        chk.fail(None, {'clause': 'idempotent', 'value': s, 'encoded': out,
                        'encoded_twice': vlib.unhexs(again[3:]) if again.startswith('ok ') else again, 'class': where}, rep)
    if not any(d in s for d in ds) and tokenizes(s, e, letters) and out != s:
        chk.fail(None, {'clause': 'already-escaped-unchanged', 'value': s, 'encoded': out, 'class': where}, rep)
    if not tokenizes(out, e, letters):
        # finding D5: known exactly where the (proved-about) model exhibits the same output for an input with an escape char
        key = 'D5:tokenize' if (e in s and model_line == out_line) else None
        chk.fail(key, {'clause': 'tokenizes', 'value': s, 'encoded': out, 'class': where}, rep)
    if s and (out != s):
        chk.nontrivial.add((where, s))


def element_counts(chk, rng, n):
    """clause 'a value assigned through a datatype object never changes the number of fields/components/subcomponents'
    through the element API (Segment -> Field -> Component -> SubComponent.value = ST(...))"""
    import hl7apy
    from hl7apy.core import Message
    from hl7apy.consts import VALIDATION_LEVEL
    done = 0
    for _ in range(n):
        v = rng.choice(['2.3', '2.5', '2.6', '2.7', '2.8.2'])
        v27 = v >= '2.7'
        chars = rng.sample(PUNCT, 6 if v27 and rng.random() < .7 else 5)
        ec = mk_ec(chars)
        alpha = chars + list('HNFSTRELXa.1 ')
        s = ''.join(rng.choice(alpha) for _ in range(rng.randint(1, 12))).strip()
        if not s:
            continue
        lib = hl7apy.load_library(v)
        ST = lib.BASE_DATATYPES['ST']
        try:
            m = Message('ADT_A01', version=v, encoding_chars=dict(ec), validation_level=VALIDATION_LEVEL.TOLERANT)
            m.msh.msh_7 = '20200101'
            m.pid.pid_5.pid_5_2 = 'B'
            m.pid.pid_5.pid_5_3 = 'C'
            m.pid.pid_8 = 'M'
            base = m.to_er7()
            if rng.random() < .5:
                m.pid.pid_5.pid_5_2.value = ST(s)
            else:
                m.pid.pid_5.pid_5_3.children[0].value = ST(s)
            enc = m.to_er7()
        except Exception as ex:  # noqa
            chk.notes.append('element_counts: %s on %r' % (type(ex).__name__, s))
            continue
        done += 1
        chk.evals += 1
        e = ec['ESCAPE']
        for d in delims(ec, v27) + ['\r']:
            # the MSH-2 field itself spells the delimiters: compare the text after MSH-2
            def body(t):
                return t[4 + len(chars) - 1:]
            if body(enc).count(d) != body(base).count(d):
                chk.fail(None, {'clause': 'counts', 'value': s, 'before': base, 'after': enc, 'delimiter': d},
                         {'api': "Message('ADT_A01', version, encoding_chars); m.pid.pid_5.pid_5_2.value = ST(value) (or on its subcomponent); m.to_er7()",
                          'version': v, 'encoding_chars': {k: vv for k, vv in ec.items() if k not in ('GROUP', 'SEGMENT')}, 'value': s})
    chk.dist['element_count_cases'] = done


def standalone(chk, rng, n):
    """a textual leaf in an element that belongs to no message is encoded with the delimiters of the element's OWN version (from 2.7 on that
    set includes the truncation character): no delimiter of that set comes out unescaped, whatever kind of element holds the leaf"""
    import hl7apy
    from hl7apy.core import SubComponent, Component, Field, Segment
    from hl7apy.consts import VALIDATION_LEVEL
    done = 0
    versions = sorted(hl7apy.SUPPORTED_LIBRARIES)
    for _ in range(n):
        v = rng.choice(versions)
        ec = hl7apy.get_default_encoding_chars(v)
        v27 = 'TRUNCATION' in ec
        ds = delims(ec, v27)
        alpha = ds * 2 + [ec['ESCAPE']] + list('LFab1 ')
        s = ''.join(rng.choice(alpha) for _ in range(rng.randint(1, 8)))
        kind = rng.choice(['SubComponent', 'Component', 'Field', 'Segment'])
        try:
            lib = hl7apy.load_library(v)
            val = lib.BASE_DATATYPES['ST'](s, validation_level=VALIDATION_LEVEL.TOLERANT)
            if kind == 'SubComponent':
                e = SubComponent(datatype='ST', version=v)
                e.value = val
            elif kind == 'Component':
                e = Component(datatype='ST', version=v)
                e.value = val
            elif kind == 'Field':
                e = Field(datatype='ST', version=v)
                e.value = val
            else:
                e = Segment('NTE', version=v)
                e.nte_3.value = val
            out = e.to_er7()
        except Exception as ex:  # noqa
            chk.notes.append('standalone: %s on %r (%s %s)' % (type(ex).__name__, s, kind, v))
            continue
        done += 1
        chk.evals += 1
        body = out[4:].lstrip(ec['FIELD']) if kind == 'Segment' else out
        if any(d in body for d in ds):
            chk.fail(None, {'clause': 'delimiter-free (element outside a message)', 'element': kind, 'version': v, 'value': s, 'encoded': out,
                            'delimiters': ''.join(ds)},
                     {'api': "e = %s(datatype='ST', version=v) (Segment('NTE', version=v).nte_3 for a segment); e.value = ST(value); e.to_er7()" % kind,
                      'version': v, 'element': kind, 'value': s})
    chk.dist['standalone_element_cases'] = done


def reuse(chk, rng, classes, n):
    """one datatype object encoded several times with different delimiter sets — sets that differ in one role only (the
    truncation character present / absent / another one; another escape character; two roles swapped): every call must return
    what a fresh object of the same class returns for that text and set (a memo kept on the object or on the class and keyed
    on too little — seed C06-h — shows here)"""
    from hl7apy.consts import VALIDATION_LEVEL
    done = 0
    for _ in range(n):
        v, dt, cls, v27 = rng.choice(classes)
        base = rng.sample(PUNCT, 7)
        e1 = mk_ec(base[:5])
        chain = [e1, mk_ec(base[:6]), mk_ec(base[:5] + [base[6]]), e1,
                 mk_ec(base[:4] + [base[6]]), mk_ec([base[1], base[0]] + base[2:5]), mk_ec(base[:6])]
        if not v27:
            chain = [e for e in chain if 'TRUNCATION' not in e] + [e1]
        rng.shuffle(chain)
        alpha = base + [base[4]] * 2 + list('HFELa ')
        s = ''.join(rng.choice(alpha) for _ in range(rng.randint(1, 10)))
        try:
            obj = cls(s, validation_level=VALIDATION_LEVEL.TOLERANT)
        except Exception:  # noqa
            continue
        for k, ec in enumerate(chain):
            chk.evals += 1
            try:
                got = 'ok ' + vlib.hexs(obj.to_er7(ec))
            except Exception as ex:  # noqa
                got = 'exc ' + type(ex).__name__
            fresh = impl_escape(cls, s, ec)
            if got != fresh:
                rep = {'api': 'one object: obj = cls(value); obj.to_er7(ec_1); ...; obj.to_er7(ec_k)', 'class': '%s/%s' % (v, dt), 'value': s,
                       'encoding_chars_sequence': [vlib.ec_hex(e) for e in chain[:k + 1]]}
                chk.fail(None, {'clause': 'the encoding of a leaf depends on the encodings made before (same object, another delimiter set)',
                                'got': vlib.unhexs(got[3:]) if got.startswith('ok ') else got,
                                'fresh_object_gives': vlib.unhexs(fresh[3:]) if fresh.startswith('ok ') else fresh, **rep}, rep)
                break
        done += 1
    chk.dist['objects_reused_across_delimiter_sets'] = done


def run(tier, seed):
    chk = vlib.Check('C06', tier, seed)
    rng = chk.rng
    chk.proof(MODULES, THEOREMS)
    classes = textual_classes()
    chk.dist['textual_classes'] = len(classes)
    by_variant = {}
    for v, dt, cls, v27 in classes:
        by_variant.setdefault(v27, []).append((v, dt, cls))
    # delimiter sets
    nsets = 6 if tier == 'quick' else 200
    maxlen = 4 if tier == 'quick' else 6
    sets = [(False, mk_ec('|^&~\\')), (True, mk_ec('|^&~\\#')), (True, mk_ec('|^&~\\'))]
    while len(sets) < nsets + 3:
        v27 = rng.random() < .5
        k = 6 if (v27 and rng.random() < .7) else 5
        sets.append((v27, mk_ec(rng.sample(PUNCT, k))))
    cases = []   # (cls, v27, ec, s, where)
    # (a) exhaustive short strings over the structured alphabet, for the three standard sets and one random set
    for si, (v27, ec) in enumerate(sets[:4] if tier == 'quick' else sets[:8]):
        v, dt, cls = (by_variant[v27][0] if si else [c for c in by_variant[False] if c[1] == 'ST'][0])
        alpha = [ec['ESCAPE'], ec['FIELD'], ec['COMPONENT'], 'F', 'E', 'L', 'a'] + ([ec['TRUNCATION']] if 'TRUNCATION' in ec else [])
        for n in range(0, maxlen + 1):
            for tup in itertools.product(alpha, repeat=n):
                cases.append((cls, v27, ec, ''.join(tup), '%s/%s' % (v, dt)))
    n_exh = len(cases)
    # (b) random longer strings over the full alphabet, every delimiter set, a random textual class of the matching variant
    per = 150 if tier == 'quick' else 400
    for v27, ec in sets:
        chars = [ec[k] for k in ('FIELD', 'COMPONENT', 'SUBCOMPONENT', 'REPETITION', 'ESCAPE')] + ([ec['TRUNCATION']] if 'TRUNCATION' in ec else [])
        alpha = chars * 2 + [ec['ESCAPE']] * 3 + list(LETTERS) + list('Xa.0 Z')
        for _ in range(per):
            v, dt, cls = rng.choice(by_variant[v27])
            n = rng.choice([1, 2, 3, 5, 8, 13, 21, 40])
            s = ''.join(rng.choice(alpha) for _ in range(n))
            cases.append((cls, v27, ec, s, '%s/%s' % (v, dt)))
    # (c) every textual class of every version on a fixed adversarial pool (class-level overrides would show here)
    pool = ['', 'plain', '|^&~\\#', '\\F\\', '\\F|', '\\E\\\\', 'a\\H\\b\\N\\c', '\\L\\#', '\\\\\\', 'x\\T', 'E\\', '\\X0D\\']
    for v, dt, cls, v27 in classes:
        for (sv27, ec) in sets[:3]:
            if sv27 != v27:
                continue
            for s in pool:
                cases.append((cls, v27, ec, s, '%s/%s' % (v, dt)))
    impl = [impl_escape(c[0], c[3], c[2]) for c in cases]
    lines = ['ESC %d %s %s' % (1 if c[1] else 0, vlib.ec_hex(c[2]), vlib.hexs(c[3])) for c in cases]
    model = vlib.run_driver(lines)
    chk.correspond('escape: cls(value).to_er7(ec) vs Hl7.Escape.escape', cases, impl, model,
                   show=lambda c: {'class': c[4], 'v27': c[1], 'ec': vlib.ec_hex(c[2]), 'value': c[3]})
    for c, o, mo in zip(cases, impl, model):
        oracle(chk, c[0], c[1], c[2], c[3], o, mo, c[4])
    element_counts(chk, rng, 60 if tier == 'quick' else 600)
    standalone(chk, rng, 200 if tier == 'quick' else 3000)
    reuse(chk, rng, classes, 600 if tier == 'quick' else 6000)
    chk.exhaustive = False
    chk.rule = ('(a) all strings of length <= %d over {escape, field, component, F, E, L, a, truncation} for %d delimiter sets (exhaustive part: %d cases); '
                '(b) %d random strings (length 1-40) per delimiter set over delimiters+escape+HNFSTREL+filler for %d valid punctuation sets; '
                '(c) every textual class of every version x 12 adversarial literals. A case is non-trivial when the encoding differs from the input.'
                % (maxlen, 4 if tier == 'quick' else 8, n_exh, per, len(sets)))
    chk.samples = [{'class': c[4], 'ec': vlib.ec_hex(c[2]), 'value': c[3], 'encoded': vlib.unhexs(o[3:]) if o.startswith('ok ') else o}
                   for c, o in list(zip(cases, impl))[n_exh:n_exh + 400:40]]
    chk.dist['cases'] = len(cases)
    chk.dist['delimiter_sets'] = len(sets)
    chk.dist['changed_by_encoding'] = len(chk.nontrivial)
    chk.assumptions = ['highlights=None (highlight ranges are outside the property)', 'single-character delimiters']
    return chk.finish()


def replay(path):
    d = json.load(open(path))
    r = d['replay']
    import hl7apy
    print(json.dumps(d['what'], indent=1))
    if 'class' in r:
        v, dt = r['class'].split('/')
        cls = hl7apy.load_library(v).BASE_DATATYPES[dt]
        ec = dict(r['encoding_chars'], GROUP='\r', SEGMENT='\r')
        out = cls(r['value']).to_er7(ec)
        print('value   = %r\nencoded = %r\ntwice   = %r' % (r['value'], out, cls(out).to_er7(ec)))
    return 0
