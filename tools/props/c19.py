"""C19 — Concurrent use gives the same results as sequential use."""
import json, sys, threading, hashlib
import vlib, gen, impl
from props.c01 import VERSIONS

MODULES = ['Hl7.Props.C19']
THEOREMS = ['Hl7.Shared.sched_invariant', 'Hl7.Shared.C19_schedule_independent', 'Hl7.Shared.C19_api_step_readonly', 'Hl7.Shared.C19_api_threads_readonly',
            'Hl7.Shared.C19_regression_nocopy']
DEF = '|^&~\\'


def factory_call(job):
    from props import c13
    from hl7apy import get_default_encoding_chars
    dt, s, v, strict = job
    return c13.impl(dt, s, v, strict, get_default_encoding_chars('2.5'))


CALLS = {'seg': impl.seg, 'msg': impl.msg_full, 'fld': impl.fld, 'setf': impl.setf, 'build': impl.ecrun, 'factory': factory_call, 'mtype': impl.mtype}


def call(c):
    r = CALLS[c[0]](c[1])
    return json.dumps(r, sort_keys=True, default=str)


def corpus(rng, n):
    import hl7apy
    out = []
    gens = {v: gen.MsgGen(rng, version=v) for v in VERSIONS}
    for i in range(n):
        v = rng.choice(VERSIONS)
        g = gens[v]
        k = rng.randrange(7)
        strict = rng.random() < .4
        if k == 0:
            name = rng.choice(sorted(x for x in g.lib.SEGMENTS if x not in ('MSH', 'ANYHL7SEGMENT')))
            out.append(('seg', (v, g.segment(name, mode=rng.choice(['canon', 'wild'])), strict, DEF)))
        elif k == 1:
            mt = rng.choice(g.structures())
            try:
                t, _, _ = g.message(mt, 'random', rich=rng.random() < .3)
            except Exception:  # noqa
                continue
            out.append(('msg', (t, strict, rng.random() < .6)))
        elif k == 2:
            fn = rng.choice(sorted(g.lib.FIELDS))
            ref = g.lib.FIELDS[fn]
            if gen.well_formed_ref(ref) and len(ref) == 6:
                out.append(('fld', (v, g.by_ref(ref, 0, 'wild', True), fn, strict, DEF)))
        elif k == 3:
            name = rng.choice(sorted(x for x in g.lib.SEGMENTS if x not in ('MSH', 'ANYHL7SEGMENT')))
            if rng.random() < .35:
                # fields an open-ended segment accepts beyond its structure (Z segments; after a trailing `varies` field): their
                # reference is made up on the spot by Segment.find_child_reference (seed C19-h kept it in one shared dict)
                oe = [x for x in ('QPD', 'RDT') if x in g.lib.SEGMENTS]
                name = rng.choice(['ZIN', 'ZPD', 'ZA1'] + oe)
                out.append(('setf', (v, name, '%s_%d' % (name.lower(), rng.randrange(1, 30)), rng.choice(['X', 'a^b', '7']))))
            else:
                out.append(('setf', (v, name, name.lower() + '_1', 'X')))
        elif k == 4:
            out.append(('build', (v, dict(zip(['FIELD', 'COMPONENT', 'SUBCOMPONENT', 'REPETITION', 'ESCAPE'], rng.sample('!@%$/*;:', 5))))))
        elif k == 5:
            dt = rng.choice(['DT', 'TM', 'DTM', 'NM', 'SI', 'ST', 'ID'])
            if dt in g.lib.BASE_DATATYPES:
                out.append(('factory', (dt, rng.choice(['2020', '202013', '12', '1.5', 'x', '1200+0100', '00001', '', 'abc' * 90]), v, strict)))
        else:
            out.append(('mtype', rng.choice(['MSH|^~\\&|A|B|C|D|E||ADT^A01|1|P|2.5', 'junk', 'MSH|^~\\&#|x'])))
    return out


class RecDict(dict):
    """a dict that records every mutation (the shared BASE_DATATYPES map of a version)"""
    log = []

    def _rec(self, op, *a):
        RecDict.log.append((op,) + tuple(repr(x)[:40] for x in a))

    def __setitem__(self, k, v):
        self._rec('set', k)
        dict.__setitem__(self, k, v)

    def __delitem__(self, k):
        self._rec('del', k)
        dict.__delitem__(self, k)

    def update(self, *a, **k):
        self._rec('update')
        dict.update(self, *a, **k)

    def pop(self, *a):
        self._rec('pop', *a)
        return dict.pop(self, *a)

    def popitem(self):
        self._rec('popitem')
        return dict.popitem(self)

    def clear(self):
        self._rec('clear')
        dict.clear(self)

    def setdefault(self, k, d=None):
        if k not in self:
            self._rec('setdefault', k)
        return dict.setdefault(self, k, d)


def shallow_state():
    """identity and size of every module-level mutable object the calls could reach"""
    import hl7apy
    st = {'defaults': (hl7apy.get_default_version(), hl7apy.get_default_validation_level(), repr(sorted(hl7apy.get_default_encoding_chars('2.5').items())),
                       repr(sorted(hl7apy.get_default_encoding_chars('2.7').items()))),
          'supported': repr(sorted(hl7apy.SUPPORTED_LIBRARIES.items()))}
    for v in VERSIONS:
        lib = hl7apy.load_library(v)
        for t in ('MESSAGES', 'SEGMENTS', 'FIELDS', 'DATATYPES', 'DATATYPES_STRUCTS', 'GROUPS', 'ELEMENTS'):
            d = getattr(lib, t)
            st['%s.%s' % (v, t)] = (id(d), len(d), hash(tuple(sorted(map(str, d)))))
        for t in ('SEGMENTS', 'FIELDS', 'DATATYPES'):
            d = getattr(lib, t)
            st['%s.%s.deep' % (v, t)] = hashlib.sha1(repr(sorted((k, repr(x)[:400]) for k, x in d.items())).encode()).hexdigest()
        st['%s.BASE' % v] = sorted((k, id(c)) for k, c in lib.BASE_DATATYPES.items())
    return st


def module_globals_state():
    """every module-level variable of every loaded hl7apy module that holds data (containers and plain values, not functions,
    classes or modules): a call that leaves any of them different has written shared state, whatever its name"""
    import sys, types
    st = {}
    for mn, mod in sorted(sys.modules.items()):
        if mod is None or not (mn == 'hl7apy' or mn.startswith('hl7apy.')):
            continue
        for k, v in sorted(vars(mod).items()):
            if isinstance(v, type) and getattr(v, '__module__', '').startswith('hl7apy'):
                # data kept on a class (scratch attributes, memos set through self.__class__) is shared state as well
                for k2, v2 in sorted(vars(v).items()):
                    if k2.startswith('__') or callable(v2) or isinstance(v2, (property, staticmethod, classmethod, types.FunctionType, types.MemberDescriptorType,
                                                                               types.GetSetDescriptorType)):
                        continue
                    if isinstance(v2, (dict, list, set)) and len(v2) <= 200:
                        # a container kept on a class: its content counts, not only its identity (a scratch dict refilled in place — seed C19-h)
                        def prim2(x):
                            return repr(x)[:120] if isinstance(x, (str, int, float, bool, type(None), bytes)) else id(x)
                        items2 = [(prim2(a), prim2(b)) for a, b in v2.items()] if isinstance(v2, dict) else [prim2(x) for x in v2]
                        st['%s.%s.%s' % (mn, k, k2)] = (id(v2), hashlib.sha1(repr(sorted(map(repr, items2))).encode()).hexdigest())
                        continue
                    st['%s.%s.%s' % (mn, k, k2)] = repr(v2)[:200] if isinstance(v2, (str, int, float, bool, type(None), bytes)) else (id(v2), type(v2).__name__)
                continue
            if k.startswith('__') or isinstance(v, (types.ModuleType, type, types.FunctionType, types.BuiltinFunctionType)) or callable(v):
                continue
            key = '%s.%s' % (mn, k)
            if isinstance(v, (dict, list, set)):
                if len(v) > 200:
                    st[key] = (id(v), len(v))
                else:
                    def prim(x):
                        # plain values by content, anything structured by identity (repr of a nested reference tuple is far too slow)
                        return repr(x)[:120] if isinstance(x, (str, int, float, bool, type(None), bytes)) else id(x)
                    items = [(prim(a), prim(b)) for a, b in v.items()] if isinstance(v, dict) else [prim(x) for x in v]
                    st[key] = (id(v), hashlib.sha1(repr(sorted(map(repr, items))).encode()).hexdigest())
            elif isinstance(v, (str, int, float, bool, type(None), tuple, frozenset, bytes)):
                st[key] = repr(v)[:300] if not isinstance(v, tuple) else (id(v), len(v))
    return st


def run(tier, seed):
    import hl7apy, sys
    chk = vlib.Check('C19', tier, seed)
    rng = chk.rng
    chk.proof(MODULES, THEOREMS)
    calls = corpus(rng, 500 if tier == 'quick' else 3000)
    # the call-by-call monitor below looks at the first 80 calls: one call of every kind and shape must be among them
    front, seen_kinds = [], set()
    for c in calls:
        kd = (c[0], c[1][1][:1] == 'Z' or c[1][1] in ('QPD', 'RDT')) if c[0] == 'setf' else (c[0],)
        if kd not in seen_kinds:
            seen_kinds.add(kd)
            front.append(c)
    calls = front + [c for c in calls if not any(c is f for f in front)]
    # ---- (1) write monitor: the hypothesis "the call writes no shared state", checked on the implementation
    libs = {v: hl7apy.load_library(v) for v in VERSIONS}
    orig = {v: libs[v].BASE_DATATYPES for v in VERSIONS}
    for v in VERSIONS:
        libs[v].BASE_DATATYPES = RecDict(orig[v])
    RecDict.log = []
    before = shallow_state()
    gbefore = module_globals_state()
    seq = []
    stepwise = []
    g0 = gbefore
    for i, c in enumerate(calls):
        seq.append(call(c))
        if i < 80:
            # a memo that is rewritten and happens to end where it started is only visible call by call
            g1 = module_globals_state()
            stepwise += ['global %s (after call %d: %s)' % (k, i, str(c)[:80]) for k in g0 if k in g1 and g0[k] != g1[k] and not k.endswith('.BASE_DATATYPES')]
            stepwise += ['new class attribute %s (after call %d: %s)' % (k, i, str(c)[:80]) for k in g1 if k not in g0 and k.count('.') >= 2 and
                         '.'.join(k.split('.')[:-2]) in sys.modules and any(kk.startswith('.'.join(k.split('.')[:-1]) + '.') for kk in g0)]
            g0 = g1
    after = shallow_state()
    gafter = module_globals_state()
    writes = list(RecDict.log)
    for v in VERSIONS:
        libs[v].BASE_DATATYPES = orig[v]
    chk.evals += len(calls)
    chk.dist['write_monitor'] = {'calls': len(calls), 'recorded_writes_to_BASE_DATATYPES': len(writes), 'state_keys_compared': len(before)}
    # correspondence: the model's write set is empty (C19_api_threads_readonly); the implementation's must be too
    chk.correspond('shared-state write set of the call corpus vs the model (empty)', ['corpus'], [json.dumps(writes[:5])], ['[]'])
    if writes:
        chk.fail(None, {'clause': 'calls-write-no-shared-state', 'writes': writes[:10]},
                 {'api': 'call corpus under a recording BASE_DATATYPES', 'first_calls': [str(c)[:200] for c in calls[:5]]})
    changed = [k for k in before if before[k] != after[k] and not k.endswith('.BASE')]
    changed += ['global ' + k for k in gbefore if k in gafter and gbefore[k] != gafter[k] and not k.endswith('.BASE_DATATYPES')]
    changed += stepwise[:10]
    chk.dist['write_monitor']['module_globals_compared'] = len(gbefore)
    if changed:
        chk.fail(None, {'clause': 'module-state-unchanged', 'changed': changed[:10]}, {'api': 'call corpus', 'changed': changed[:10]})
    # ---- (2) stress run (failing-input search, not proof): threads under a minimal switch interval
    nthreads = 8 if tier == 'quick' else 16
    rounds = 1 if tier == 'quick' else 6
    old = sys.getswitchinterval()
    sys.setswitchinterval(1e-6)
    mism = []
    try:
        for rd in range(rounds):
            results = {}
            order = list(range(len(calls)))

            def work(tid):
                mine = order[tid::nthreads] if rd % 2 == 0 else rng.sample(order, len(order) // 4)
                for i in mine:
                    try:
                        r = call(calls[i])
                    except Exception as e:  # noqa
                        r = 'harness-exc:' + type(e).__name__ + ':' + str(e)[:80]
                    results.setdefault((tid, i), r)
            ths = [threading.Thread(target=work, args=(t,)) for t in range(nthreads)]
            for t in ths:
                t.start()
            for t in ths:
                t.join()
            for (tid, i), r in results.items():
                chk.evals += 1
                if r != seq[i]:
                    mism.append((i, tid, r))
    finally:
        sys.setswitchinterval(old)
    # ---- (3) long-lived worker threads and a change of the process-wide defaults by another thread: a call that relies on a default gives,
    # in a worker that was already running, what the same call gives alone under the defaults now in force (seed C19-i: defaults snapshotted per thread)
    import queue
    from hl7apy.consts import VALIDATION_LEVEL as VL

    def dcall(c):
        from hl7apy.core import Message, Segment, Field
        from hl7apy.parser import parse_segment
        from hl7apy.factories import datatype_factory
        try:
            if c[0] == 'dseg':
                x = parse_segment(c[1])
                return '%s %s %s' % (x.version, x.validation_level, x.to_er7())
            if c[0] == 'dmsg':
                m = Message('ADT_A01')
                return '%s %s %s' % (m.version, m.validation_level, m.msh.msh_2.to_er7())
            if c[0] == 'dfac':
                return type(datatype_factory(c[1], c[2])).__name__
            if c[0] == 'dfld':
                f = Field('PID_5')
                f.value = c[1]
                return '%s %d %s' % (f.version, len(f.children), f.to_er7())
        except Exception as e:  # noqa
            return 'exc ' + type(e).__name__
    dcalls = [('dseg', 'PID|1||x^y'), ('dmsg',), ('dfac', 'SI', 'seven'), ('dfac', 'DT', '2020'), ('dfld', 'a^b$c'), ('dseg', 'PV1|1|I')]
    saved = (hl7apy.get_default_version(), hl7apy.get_default_validation_level(), dict(hl7apy.get_default_encoding_chars('2.5')))
    qs = [(queue.Queue(), queue.Queue()) for _ in range(4)]

    def worker(qin, qout):
        while True:
            job = qin.get()
            if job is None:
                return
            qout.put([dcall(c) for c in job])
    wths = [threading.Thread(target=worker, args=q, daemon=True) for q in qs]
    for t in wths:
        t.start()
    stale = []
    try:
        stages = [None, ('2.3', VL.STRICT, {'FIELD': '!', 'COMPONENT': '$', 'SUBCOMPONENT': '@', 'REPETITION': '~', 'ESCAPE': '%', 'GROUP': '\r', 'SEGMENT': '\r'}),
                  ('2.6', VL.TOLERANT, dict(saved[2]))]
        for stg in stages:
            if stg is not None:
                hl7apy.set_default_version(stg[0])
                hl7apy.set_default_validation_level(stg[1])
                hl7apy.set_default_encoding_chars(dict(stg[2]))
            alone = [dcall(c) for c in dcalls]
            for qin, qout in qs:
                qin.put(dcalls)
            for k, (qin, qout) in enumerate(qs):
                got = qout.get(timeout=60)
                chk.evals += len(dcalls)
                for c, a1, g1 in zip(dcalls, alone, got):
                    if a1 != g1:
                        stale.append((c, a1, g1, stg[0] if stg else 'library defaults'))
    finally:
        hl7apy.set_default_version(saved[0])
        hl7apy.set_default_validation_level(saved[1])
        hl7apy.set_default_encoding_chars(dict(saved[2]))
        for qin, qout in qs:
            qin.put(None)
    for c, a1, g1, stg in stale[:5]:
        chk.fail(None, {'clause': 'threaded-result-equals-solo-result (call relying on a process-wide default, worker thread started before the default was set)',
                        'call': list(c), 'solo': a1, 'in_a_long_lived_thread': g1, 'defaults_in_force': stg},
                 {'api': 'set_default_version / _validation_level / _encoding_chars in the main thread, the call in a worker thread started earlier', 'call': list(c)})
    chk.dist['long_lived_workers_after_defaults_change'] = len(dcalls) * len(qs) * 3
    for i, tid, r in mism[:20]:
        chk.fail(None, {'clause': 'threaded-result-equals-solo-result', 'call': str(calls[i])[:300], 'solo': seq[i][:200], 'threaded': r[:200]},
                 {'api': 'call run from %d threads with sys.setswitchinterval(1e-6)' % nthreads, 'call': calls[i]})
    for c, r in zip(calls, seq):
        if 'ok' in r[:6]:
            chk.nontrivial.add(str(c)[:200])
    chk.dist['threads'] = nthreads
    chk.dist['rounds'] = rounds
    chk.dist['kinds'] = {k: sum(1 for c in calls if c[0] == k) for k in CALLS}
    chk.rule = ('a corpus of parse_segment / parse_message+to_er7+validate / parse_field / build-through-the-API / datatype_factory / get_message_type calls over all 12 versions '
                'and both levels; (1) run once under a recording BASE_DATATYPES map per version and a before/after comparison of every module-level table and default; '
                '(2) run from N threads with a 1 microsecond switch interval and compared call by call with the sequential results. Non-trivial = distinct calls that succeed.')
    chk.samples = [{'call': str(c)[:160]} for c in calls[:8]]
    chk.assumptions = ['partial by nature: CPython bytecode interleaving, the import lock and the GIL are not modelled; the stress run is a search for a failing interleaving, not a proof']
    return chk.finish()


def replay(path):
    d = json.load(open(path))
    print(json.dumps(d['what'], indent=1))
    return 0
