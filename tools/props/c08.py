"""C08 — Group-finding is sound, order-preserving and deterministic."""
import json
import vlib, gen, impl
from props.c01 import VERSIONS, excluded

MODULES = ['Hl7.Props.C08', 'Hl7.Props.C08Enc']
THEOREMS = ['Hl7.Msg.C08_order', 'Hl7.Msg.C03_flat_keeps_all', 'Hl7.Msg.C08_deterministic', 'Hl7.Msg.place_flat', 'Hl7.Msg.finish_flat',
            'Hl7.Msg.foldl_place_sublist', 'Hl7.Msg.C03_witness_drop', 'Hl7.Msg.C08_sound', 'Hl7.Msg.place_ok', 'Hl7.Msg.findInRows_sound',
            'Hl7.Msg.finish_ok', 'Hl7.Msg.parseSegments_ne', 'Hl7.Msg.encKids_flat', 'Hl7.Msg.C08_on_equals_off',
            'Hl7.Msg.C08_on_differs_only_if_dropped']


def parse_tree(s):
    """'A,G(B,C),D' -> [('S','A'),('G','G',[...]),('S','D')]"""
    out, stack, cur, name = [], [], None, ''
    cur = out
    for ch in s + ',':
        if ch == '(':
            node = ('G', name, [])
            cur.append(node)
            stack.append(cur)
            cur = node[2]
            name = ''
        elif ch == ')':
            if name:
                cur.append(('S', name))
                name = ''
            cur = stack.pop()
        elif ch == ',':
            if name:
                cur.append(('S', name))
                name = ''
        else:
            name += ch
    return out


def struct_info(lib, ref):
    """(flat segment names, anchored?, has duplicate child names in one parent?)"""
    names, anchored, dup = [], True, False

    def walk(r, repeatable):
        nonlocal anchored, dup
        rows = r[1] if gen.is_seq(r) and len(r) >= 2 and gen.is_seq(r[1]) else []
        rn = [x[0] for x in rows if gen.is_seq(x) and len(x) == 4]
        if len(rn) != len(set(rn)):
            dup = True
        if repeatable:
            if not rows or rows[0][3] != 'SEG' or rows[0][2][0] < 1 or rows[0][2][1] != 1:
                anchored = False
        for x in rows:
            if not (gen.is_seq(x) and len(x) == 4):
                continue
            if x[3] == 'SEG':
                names.append(x[0])
            elif x[3] == 'GRP':
                walk(x[1], x[2][1] != 1)
    walk(ref, False)
    return names, anchored, dup


def declared(lib, parent_ref):
    rows = parent_ref[1] if gen.is_seq(parent_ref) and len(parent_ref) >= 2 and gen.is_seq(parent_ref[1]) else []
    return {x[0]: x for x in rows if gen.is_seq(x) and len(x) == 4}


def sound(lib, ref, nodes):
    d = declared(lib, ref)
    for n in nodes:
        if n[1] not in d:
            return False, n[1]
        if n[0] == 'G':
            ok, w = sound(lib, d[n[1]][1], n[2])
            if not ok:
                return ok, w
    return True, None


def run(tier, seed):
    import hl7apy
    chk = vlib.Check('C08', tier, seed)
    rng = chk.rng
    chk.proof(MODULES, THEOREMS)
    ex = excluded()
    cases = []
    per = 10 if tier == 'quick' else 10 ** 6
    for v in VERSIONS:
        g = gen.MsgGen(rng, version=v)
        mts = g.structures()
        # the most deeply nested structures of the version are always among them (a bound on the nesting — seed C08-i — bites only there)
        def nesting(ref, d=0):
            if not (gen.is_seq(ref) and len(ref) >= 2 and gen.is_seq(ref[1])) or d > 12:
                return d
            return max([d] + [nesting(r[1], d + 1) for r in ref[1] if gen.is_seq(r) and len(r) == 4 and r[3] == 'GRP'])
        deepest = sorted(mts, key=lambda k: -nesting(g.lib.MESSAGES[k]))[:2]
        for mt in sorted(set(rng.sample(mts, min(len(mts), per))) | set(deepest)):
            for style in ('required', 'all', 'random', 'random'):
                try:
                    t, der, names = g.message(mt, style, rich=False)
                except Exception:  # noqa
                    continue
                cases.append((v, mt, style, t, der, names))
    jobs = [(c[3], False, True) for c in cases] + [(c[3], False, False) for c in cases]
    full = vlib.pmap(impl.msg_full, jobs)
    mo = vlib.run_driver(['MSG T T 2.5 %d %s' % (1 if j[2] else 0, vlib.hexs(j[0])) for j in jobs])
    chk.correspond('parse_message(text, find_groups).to_er7() + group tree vs Hl7.Msg.parseMessage/encMessage', jobs, [f[0] for f in full], mo,
                   show=lambda j: {'text': j[0], 'find_groups': j[2]})
    n = len(cases)
    kinds = {}
    for i, (v, mt, style, t, der, names) in enumerate(cases):
        chk.evals += 1
        lib = hl7apy.load_library(v)
        on, off = full[i], full[n + i]
        agree = (on[0] == mo[i] or mo[i] == 'exc Unsupported') and (off[0] == mo[n + i] or mo[n + i] == 'exc Unsupported')
        rep = {'api': 'parse_message(text, TOLERANT, find_groups=True) vs find_groups=False', 'version': v, 'structure': mt, 'text': t}
        snames, anchored, dup = struct_info(lib, lib.MESSAGES[mt])
        unique = len(snames) == len(set(snames))
        k0 = on[0].split(' ')[0]
        kinds[k0] = kinds.get(k0, 0) + 1
        if not on[0].startswith('ok '):
            key = None
            if v == '2.1' and 'Crash:TypeError' in on[0] and agree:
                key = 'D2:2.1:group-none-ref'
            elif any(x in ex.get(v, []) for x in names) and agree:
                key = ['T:%s:%s' % (v, x) for x in names if x in ex.get(v, [])]
            chk.fail(key, {'clause': 'instance-parses', 'got': on[0][:80], **rep}, rep)
            continue
        _, er7h, tree = on[0].split(' ', 2)
        nodes = parse_tree(tree)
        ok, who = sound(lib, lib.MESSAGES[mt], nodes)
        if not ok:
            chk.fail(None, {'clause': 'sound', 'undeclared_child': who, 'tree': tree, **rep}, rep)
        flat = gen.MsgGen.flatten(nodes)
        if flat != names:
            key = 'D4:unplaceable-dropped' if agree and len(flat) < len(names) else None
            chk.fail(key, {'clause': 'flatten-is-input', 'tree': tree, 'input': names, **rep}, rep)
            continue
        if off[0].startswith('ok ') and off[0].split(' ')[1] != er7h:
            bad = [x for x in names if x in ex.get(v, [])]
            chk.fail(('T:%s:%s' % (v, bad[0])) if bad and agree else None,
                     {'clause': 'groups-on-encodes-as-groups-off', 'on': vlib.unhexs(er7h)[:300], 'off': vlib.unhexs(off[0].split(' ')[1])[:300], **rep}, rep)
        chk.nontrivial.add(t)
        if unique:
            want = gen.MsgGen.show(der)
            if tree != want:
                key = 'D16:not-anchored' if (not anchored and agree) else None
                chk.fail(key, {'clause': 'tree-is-the-prescribed-one', 'tree': tree, 'derivation': want, 'anchored': anchored, **rep}, rep)
            elif on[1] is not None and on[1].startswith('ok '):
                # the instance conforms to the message/group structure by construction: no *structural* error may be reported
                # (field-level content is minimal here; conformance of content is C04's)
                parents = set(lib.MESSAGES) | set(lib.GROUPS)
                st = [e for e in on[2].get('errors', []) if
                      (e.startswith(('Missing required child ', 'Child limit exceeded ')) and e.split(' ')[-1].rsplit('.', 1)[0] in parents) or
                      e.startswith(('Invalid children detected for <Message', 'Invalid children detected for <Group'))]
                if st:
                    key = 'D17:duplicate-rows' if (dup and agree) else None
                    if key is None and agree and all('ANYHL7SEGMENT' in e for e in st):
                        key = 'D2:%s:ANYHL7SEGMENT' % v      # the placeholder row of the tables: no instance can hold it
                    chk.fail(key, {'clause': 'instance-validates-structurally', 'errors': st[:5], **rep}, rep)
    # determinism across one process: the same structure NAME exists in several versions with different contents; instances of all its
    # versions parsed one after the other in ONE process (ascending, then descending versions) must give what each gives alone —
    # a memo of the group search keyed on names without the version (seed C08-h) shows here, and only here
    byname = {}

    def group_rows(ref, out, d=0):
        if not (gen.is_seq(ref) and len(ref) >= 2 and gen.is_seq(ref[1])) or d > 6:
            return
        for r in ref[1]:
            if gen.is_seq(r) and len(r) == 4 and r[3] == 'GRP':
                kids = tuple(x[0] for x in r[1][1] if gen.is_seq(x) and len(x) == 4) if gen.is_seq(r[1]) and len(r[1]) >= 2 and gen.is_seq(r[1][1]) else None
                out.setdefault(r[0], set()).add(kids)
                group_rows(r[1], out, d + 1)
    for v in VERSIONS:
        lib = hl7apy.load_library(v)
        for mt in gen.MsgGen(rng, version=v).structures():
            byname.setdefault(mt, {})[v] = lib.MESSAGES[mt]
    # names under which some group holds different children in different versions
    multi = []
    for mt, d in sorted(byname.items()):
        out = {}
        for v in d:
            group_rows(d[v], out)
        if len(d) > 1 and any(len(x) > 1 for x in out.values()):
            multi.append(mt)
    pick = multi
    dcases = []
    for mt in sorted(pick):
        for v in [x for x in VERSIONS if x in byname[mt]]:
            g = gen.MsgGen(rng, version=v)
            for style in (('all',) if tier == 'quick' else ('all', 'random')):
                try:
                    t, der, names = g.message(mt, style, rich=False)
                except Exception:  # noqa
                    continue
                dcases.append((mt, v, t))
    djobs = [(c[2], False, True) for c in dcases]
    alone = vlib.pmap(impl.msg_full, djobs, chunk=1)
    dmo = vlib.run_driver(['MSG T T 2.5 1 %s' % vlib.hexs(j[0]) for j in djobs])
    chk.correspond('same-named structures of several versions: parse_message(text).to_er7() + group tree vs the model', djobs, [f[0] for f in alone], dmo,
                   show=lambda j: {'text': j[0], 'find_groups': j[2]})
    order = list(range(len(dcases)))
    vkey = lambda i: (dcases[i][0], VERSIONS.index(dcases[i][1]))
    seq = sorted(order, key=vkey) + sorted(order, key=lambda i: (dcases[i][0], -VERSIONS.index(dcases[i][1])))
    for i in seq:
        chk.evals += 1
        got = impl.msg_full(djobs[i])
        if got[0] != alone[i][0]:
            mt, v, t = dcases[i]
            rep = {'api': 'parse_message(text, TOLERANT, find_groups=True) after instances of the same structure name in other versions were parsed in the same process',
                   'version': v, 'structure': mt, 'text': t,
                   'parsed_before': [{'version': dcases[k][1], 'text': dcases[k][2]} for k in seq[:seq.index(i)] if dcases[k][0] == mt][-6:]}
            chk.fail(None, {'clause': 'deterministic: the same text parsed again gives the same tree', 'alone': alone[i][0][-300:], 'in_sequence': got[0][-300:], **rep}, rep)
            break
    chk.dist['same_name_other_version_instances'] = len(dcases)
    chk.dist['result_kinds'] = kinds
    chk.dist['instances'] = n
    chk.exhaustive = tier != 'quick'
    chk.rule = ('instances derived from the message structures (quick: 10 structures per version by seed; thorough: every structure of every version), in styles '
                'required-only, all-children and two random derivations with repeated groups to depth 3; each parsed with find_groups on and off. Non-trivial = distinct '
                'instances whose tree flattens to the input.')
    chk.samples = [{'version': c[0], 'structure': c[1], 'derivation': gen.MsgGen.show(c[4])[:200]} for c in cases[::max(1, n // 8)]][:8]
    chk.assumptions = ['segment content is minimal (NAME|1): content is C01/C03', 'TOLERANT level']
    return chk.finish()


def replay(path):
    d = json.load(open(path))
    r = d['replay']
    print(json.dumps(d['what'], indent=1))
    print(impl.msg_full((r['text'], False, True)))
    print(impl.msg_full((r['text'], False, False)))
    return 0
