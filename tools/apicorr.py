"""API-level correspondence for C09 / C10 / C12: histories of *public API calls* on a Segment (fields as children) or a Message
(segments as children), executed on the real objects and translated call by call into the vocabulary of the Lean model
`Hl7.Heap` (driver op HEAP).

Every call that can bring a new element under the root gets one pre-declared node (name, validation level, version); the real
object behind it is identified after the call (the harness built it, or it is the one child of the root / the other parent
that was not there before).  After every call both sides report the outcome and, for the root and the second parent, the
child list as node numbers, plus the parent of every node identified so far.

Translation (model op ← API call):
  E.p.n.i  ← root.<name> = text | Element        (ElementList.set with index 0)     and   root.<name>[i] = …
  A.p.n    ← root.add(element)
  S.p.n    ← root.add_<child>(name)   (the constructor assigns `parent`)           and   element.parent = root
  U.n      ← element.parent = None
  D.p.NAME.0 ← del root.<name>
  R.p.n    ← del root.<name>[i]  /  root.children.remove(child)    (when the addressed child exists)
"""
import vlib

SEG_FIELDS = {'PID': [3, 5, 8, 11, 13, 1], 'NK1': [2, 4, 5, 1], 'OBX': [3, 5, 6, 1]}
MSG_SEGS = ['EVN', 'PID', 'NK1', 'PV1', 'OBX', 'AL1', 'DG1']
ERR = {'ChildNotValid': 'ChildNotValid', 'MaxChildLimitReached': 'MaxChildLimitReached', 'OperationNotAllowed': 'OperationNotAllowed',
       'ChildNotFound': 'ChildNotValid'}


def gen(rng, n):
    kind = rng.choice(['segment', 'segment', 'segment', 'message', 'message', 'field'])
    strict = rng.random() < .35
    if kind == 'segment':
        seg = rng.choice(sorted(SEG_FIELDS))
        names = ['%s_%d' % (seg, i) for i in SEG_FIELDS[seg]]
        root = seg
    elif kind == 'field':
        root = rng.choice(['PID_5', 'PID_3', 'PID_11'])
        dt = {'PID_5': 'XPN', 'PID_3': 'CX', 'PID_11': 'XAD'}[root]
        names = ['%s_%d' % (dt, i) for i in (1, 2, 3, 5)]
    else:
        names = MSG_SEGS
        root = 'ADT_A01'
    ops = []
    for _ in range(n):
        nm = rng.choice(names)
        k = rng.random()
        lvl = 'same' if rng.random() < .9 else 'other'
        ver = '2.5' if rng.random() < .93 else '2.4'
        if k < .2:
            ops.append(['set', nm, rng.choice(['1', '2', '3'])])
        elif k < .3:
            ops.append(['seti', nm, rng.choice([0, 1, 2, -1]), rng.choice(['1', '2'])])
        elif k < .4:
            ops.append(['setelem', nm, rng.choice([0, 0, 1]), lvl, ver, rng.random() < .4])      # last: attached to the other parent first
        elif k < .52:
            ops.append(['add', nm, lvl, ver, rng.random() < .3])
        elif k < .6:
            ops.append(['addnew', nm])
        elif k < .68:
            ops.append(['del', nm])
        elif k < .76:
            ops.append(['deli', nm, rng.choice([0, 1, 2])])
        elif k < .82:
            ops.append(['remove', rng.randrange(0, 5)])
        elif k < .88:
            ops.append(['setparent', nm, lvl, rng.random() < .5])
        elif k < .92:
            ops.append(['unsetparent', rng.randrange(0, 5)])
        elif k < .96:
            ops.append(['move', nm, rng.choice([0, 1, 2]), rng.choice([0, 1, 2])])
        else:
            ops.append(['add_again', rng.randrange(0, 5)])
    return {'kind': kind, 'root': root, 'strict': strict, 'ops': ops}


def run(h):
    """returns (impl lines, model ops, node specs, maxreps)"""
    from hl7apy.core import Segment, Field, Message, Component
    from hl7apy.consts import VALIDATION_LEVEL as VL
    from hl7apy.exceptions import HL7apyException
    lvl = 1 if h['strict'] else 2
    olvl = 3 - lvl
    seglevel = h['kind'] in ('segment', 'field')       # (no MSH child to keep, values are plain texts)
    fieldlevel = h['kind'] == 'field'
    mk_root = (lambda: Field(h['root'], version='2.5', validation_level=lvl)) if fieldlevel else \
              (lambda: Segment(h['root'], version='2.5', validation_level=lvl)) if seglevel else \
              (lambda: Message(h['root'], version='2.5', validation_level=lvl))
    root, other = mk_root(), mk_root()
    objs = [root, other]                      # node number -> real object (None until identified)
    nodes = [(h['root'], lvl, 25), (h['root'], lvl, 25)]
    init = []
    if not seglevel:
        # the MSH segment a Message creates for itself: a node of the history, attached before the first call
        for i, r in enumerate((root, other)):
            objs.append(r.children[0])
            nodes.append(('MSH', lvl, 25))
            init.append('A.%d.%d.1' % (i, len(objs) - 1))
    child_cls = Component if fieldlevel else Field if seglevel else Segment

    def new_node(name, level, ver, obj=None):
        nodes.append((name, level, int(ver.replace('.', ''))))
        objs.append(obj)
        return len(objs) - 1

    def idx_of(o):
        for i, x in enumerate(objs):
            if x is o:
                return i
        return None

    def valid(p, child):
        try:
            return 1 if p._is_valid_child(child) else 0
        except HL7apyException:
            return 0

    def make(name, level, ver):
        return child_cls(name, version=ver, validation_level=level)

    def attach_other(f):
        """the preparatory step 'the element is a child of the other parent': skipped when the other parent refuses it"""
        try:
            other.add(f)
            return True
        except HL7apyException:
            return False

    def text_for(name, v):
        return v if seglevel else '%s|%s' % (name, v)

    def dump():
        out = []
        for p in (root, other):
            out.append(','.join(str(idx_of(c)) if idx_of(c) is not None else '?' for c in p.children))
        pars = []
        for i, o in enumerate(objs):
            if i < 2 or o is None:
                pars.append('.')
            else:
                pars.append('-' if o.parent is None else str(idx_of(o.parent)) if idx_of(o.parent) is not None else '?')
        return '/'.join(out) + '#' + ','.join(pars)
    impl, mops = [], []
    off = 0 if seglevel else 1          # a message keeps its MSH: removing it makes every later text assignment fail (no delimiters), which is C15's business
    for op in h['ops']:
        before = [c for c in root.children] + [c for c in other.children]
        pending = None            # node number whose object the library creates during this call
        mop, pre = 'N', list(init)
        del init[:]
        try:
            k = op[0]
            if k == 'set':
                pending = new_node(op[1], lvl, '2.5')
                mop = 'E.0.%d.0.1' % pending
                setattr(root, op[1].lower(), text_for(op[1], op[2]))
            elif k == 'seti':
                pending = new_node(op[1], lvl, '2.5')
                mop = 'E.0.%d.%d.1' % (pending, op[2])
                getattr(root, op[1].lower())[op[2]] = text_for(op[1], op[3])
            elif k == 'setelem':
                f = make(op[1], lvl if op[3] == 'same' else olvl, op[4])
                n = new_node(op[1], f.validation_level, op[4], f)
                if op[5] and f.validation_level == lvl and op[4] == '2.5' and attach_other(f):
                    pre.append('A.1.%d.1' % n)
                mop = 'E.0.%d.%d.%d' % (n, op[2], valid(root, f))
                getattr(root, op[1].lower())[op[2]] = f
            elif k == 'add':
                f = make(op[1], lvl if op[2] == 'same' else olvl, op[3])
                n = new_node(op[1], f.validation_level, op[3], f)
                if op[4] and f.validation_level == lvl and op[3] == '2.5' and attach_other(f):
                    pre.append('A.1.%d.1' % n)
                mop = 'A.0.%d.%d' % (n, valid(root, f))
                root.add(f)
            elif k == 'addnew':
                pending = new_node(op[1], lvl, '2.5')
                mop = 'S.0.%d.1' % pending
                (root.add_component if fieldlevel else root.add_field if seglevel else root.add_segment)(op[1])
            elif k == 'del':
                mop = 'D.0.%s.0' % op[1]
                delattr(root, op[1].lower())
            elif k == 'deli':
                p = getattr(root, op[1].lower())
                if len(p) > op[2]:
                    mop = 'R.0.%d' % idx_of(p[op[2]])
                    del p[op[2]]
            elif k == 'remove':
                if len(root.children) > op[1] + off:
                    c = root.children[op[1] + off]
                    mop = 'R.0.%d' % idx_of(c)
                    root.children.remove(c)
            elif k == 'setparent':
                f = make(op[1], lvl if op[2] == 'same' else olvl, '2.5')
                n = new_node(op[1], f.validation_level, '2.5', f)
                if op[3] and f.validation_level == lvl and attach_other(f):
                    pre.append('A.1.%d.1' % n)
                mop = 'S.0.%d.%d' % (n, valid(root, f))
                f.parent = root
            elif k == 'unsetparent':
                if len(root.children) > op[1] + off:
                    c = root.children[op[1] + off]
                    mop = 'U.%d' % idx_of(c)
                    c.parent = None
            elif k == 'move':
                p = getattr(root, op[1].lower())
                if len(p) > max(op[2], op[3]) and op[2] != op[3]:
                    mop = 'E.0.%d.%d.1' % (idx_of(p[op[3]]), op[2])
                    p[op[2]] = p[op[3]]
            elif k == 'add_again':
                if len(root.children) > op[1] + off:
                    c = root.children[op[1] + off]
                    mop = 'A.0.%d.1' % idx_of(c)
                    root.add(c)
            tag = 'ok'
        except Exception as e:  # noqa
            nme = vlib.exc_name(e)
            tag = ERR.get(nme, 'crash' if nme.startswith('Crash') or nme in ('ValueError',) else nme)
        if pending is not None:
            fresh = [c for c in list(root.children) + list(other.children) if not any(c is b for b in before) and idx_of(c) is None]
            if len(fresh) == 1:
                objs[pending] = fresh[0]
            elif len(fresh) > 1:
                tag = 'HARNESS-ambiguous-new-children'
        mops.extend(pre)
        impl.extend(['ok ' + '?'] * 0)
        mops.append(mop)
        impl.append((len(pre), tag, dump()))
    reps = {}
    for k_, (mn, mx) in root.repetitions.items():
        if int(mx) > -1:
            reps['%s/%s' % (root.name, k_)] = int(mx)
    return impl, mops, nodes, reps


def job(h):
    try:
        return run(h)
    except Exception as e:  # noqa
        import traceback
        return ([(0, 'HARNESS ' + traceback.format_exc()[-400:], '')], [], [], {})


def model_line(nodes, reps, mops):
    ns = ','.join('%s:%d:%d' % n for n in nodes)
    mr = ','.join('%s=%d' % kv for kv in sorted(reps.items())) or '-'
    return 'HEAP %s %s %s' % (ns, mr, ';'.join(mops))


def model_view(out, nnodes, known):
    """project one model step 'tag dump' onto what the harness observes: lists of nodes 0 and 1, parents of identified nodes"""
    tag, d = out.split(' ', 1)
    ns = d.split(';')
    lists = [ns[0].split('/')[0], ns[1].split('/')[0]]
    pars = []
    for i in range(nnodes):
        if i < 2 or not known[i]:
            pars.append('.')
        else:
            pars.append(ns[i].split('/')[1])
    return tag, '/'.join(lists) + '#' + ','.join(pars)


def collect(rng, nhist, nops=10):
    hs = [gen(rng, rng.randrange(2, nops + 1)) for _ in range(nhist)]
    res = vlib.pmap(job, hs)
    lines = [model_line(nodes, reps, mops) if mops else 'HEAP X:2:25 - N' for impl, mops, nodes, reps in res]
    mod = vlib.run_driver(lines)
    runs = []
    for h, (impl, mops, nodes, reps), m, line in zip(hs, res, mod, lines):
        if impl and str(impl[0][1]).startswith('HARNESS'):
            runs.append({'history': h, 'harness': impl[0][1]})
            continue
        mo = m.split('|')
        # identification of library-created objects happens after the call: a node counts as known from the step that produced it
        a, b = [], []
        pos = 0
        known = [True, True] + [False] * (len(nodes) - 2)
        for (npre, tag, dmp) in impl:
            pos += npre
            step = mo[pos] if pos < len(mo) else 'missing -'
            pos += 1
            # nodes identified so far on the real side = those whose parent entry is not '.'
            real_pars = dmp.split('#')[1].split(',') if '#' in dmp else []
            known = [i < 2 or (i < len(real_pars) and real_pars[i] != '.') for i in range(len(nodes))]
            real_pars += ['.'] * (len(nodes) - len(real_pars))
            mt, mv = model_view(step, len(nodes), known)
            a.append('%s %s' % (tag, dmp.split('#')[0] + '#' + ','.join(real_pars)))
            b.append('%s %s' % (mt, mv))
        runs.append({'history': h, 'line': line, 'impl': a, 'model': b, 'mops': mops})
    return runs


if __name__ == '__main__':
    import sys, random, json
    runs = collect(random.Random(int(sys.argv[1])), int(sys.argv[2]))
    bad = [r for r in runs if 'harness' in r or r['impl'] != r['model']]
    tags = {}
    for r in runs:
        for x in r.get('impl', []):
            tags[x.split(' ')[0]] = tags.get(x.split(' ')[0], 0) + 1
    print(len(runs), 'histories', len(bad), 'disagreements', tags)
    for r in bad[:4]:
        if 'harness' in r:
            print(r['harness'][:500])
            continue
        k = next(i for i in range(len(r['impl'])) if r['impl'][i] != r['model'][i])
        print(json.dumps(r['history'])[:400])
        print(' step', k, r['history']['ops'][k], '\n  impl ', r['impl'][k], '\n  model', r['model'][k], '\n ', r['line'][:300])
