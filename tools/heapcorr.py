"""Correspondence for the element-graph core: real ElementList operations vs Hl7.Heap (lean/Hl7/Model/Heap.lean)."""
import vlib, hist

NAMES = ['PID_3', 'PID_3', 'PID_3', 'PID_8', 'PID_8', 'PID_1', 'NK1_2', 'PID_5', 'PID_5']
MAXREPS = {'PID_8': 1, 'PID_1': 1}
ERR = {'ChildNotValid': 'ChildNotValid', 'MaxChildLimitReached': 'MaxChildLimitReached', 'OperationNotAllowed': 'OperationNotAllowed',
       'ValueError': 'crash', 'Crash:IndexError': 'crash', 'Crash:AttributeError': 'crash', 'ChildNotFound': 'ChildNotValid'}


def gen(rng, n):
    """a history: node specs + ops in the core vocabulary"""
    plevel = rng.choice([1, 2])
    nodes = [('PID', plevel, 25), ('PID', plevel, 25)]
    for nm in NAMES:
        lvl = plevel if rng.random() < .85 else 3 - plevel
        ver = 25 if rng.random() < .9 else 24
        nodes.append((nm, lvl, ver))
    ops = []
    for _ in range(n):
        p = rng.randrange(2)
        c = rng.randrange(2, len(nodes))
        k = rng.random()
        if k < .4:
            ops.append(('A', p, c))
        elif k < .55:
            ops.append(('I', p, c, rng.randrange(0, 4)))
        elif k < .7:
            ops.append(('R', p, c))
        else:
            ops.append(('X', p, rng.randrange(2, len(nodes)), c))
    return {'nodes': nodes, 'ops': ops}


def dump(objs):
    ids = {id(o): i for i, o in enumerate(objs)}
    out = []
    for o in objs:
        kids = ','.join(str(ids.get(id(c), '?')) for c in o.children) if hasattr(o, 'children') and o.classname == 'Segment' else ''
        par = ids.get(id(o.parent), '?') if o.parent is not None else '-'
        tp = ids.get(id(o.traversal_parent), '?') if o.traversal_parent is not None else '-'
        out.append('%s/%s/%s' % (kids, par, tp))
    return ';'.join(out)


def run_real(h):
    """execute on real objects; returns (per-op 'tag dump' list, model op strings with the observed validity flags, invariant violations)"""
    from hl7apy.core import Segment, Field
    from hl7apy.exceptions import HL7apyException
    objs = []
    for nm, lvl, ver in h['nodes']:
        v = '2.%d' % (ver % 10)
        if nm == 'PID':
            objs.append(Segment('PID', version=v, validation_level=lvl))
        else:
            objs.append(Field(nm, version=v, validation_level=lvl))
    out, mops, inv = [], [], []
    for op in h['ops']:
        p = objs[op[1]]
        try:
            child = objs[op[-1] if op[0] in ('A', 'R', 'X') else op[2]]
            try:
                valid = 1 if p._is_valid_child(child) else 0
            except HL7apyException:
                valid = 0
            if op[0] == 'A':
                mops.append('A.%d.%d.%d' % (op[1], op[2], valid))
                p.children.append(child)
            elif op[0] == 'I':
                li = min(op[3], len(p.children))
                mops.append('I.%d.%d.%d.%d' % (op[1], op[2], li, valid))
                p.children.insert(li, child)
            elif op[0] == 'R':
                mops.append('R.%d.%d' % (op[1], op[2]))
                p.children.remove(child)
            else:
                mops.append('X.%d.%d.%d.%d' % (op[1], op[2], op[3], valid))
                p.children.replace_child(objs[op[2]], child)
            tag = 'ok'
        except Exception as e:  # noqa
            n = vlib.exc_name(e)
            tag = ERR.get(n, n)
        out.append('%s %s' % (tag, dump(objs)))
        bad = []
        for r in objs[:2]:
            bad += hist.invariants(r)
        inv.append(bad)
    return out, mops, inv


def job(h):
    try:
        return run_real(h)
    except Exception as e:  # noqa
        import traceback
        return (['HARNESS ' + traceback.format_exc()[-300:]], [], [])


def model_line(h, mops):
    nodes = ','.join('%s:%d:%d' % n for n in h['nodes'])
    mr = ','.join('%s=%d' % kv for kv in MAXREPS.items())
    return 'HEAP %s %s %s' % (nodes, mr, ';'.join(mops))
