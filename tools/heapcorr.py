"""Correspondence for the element-graph core: real ElementList operations vs Hl7.Heap (lean/Hl7/Model/Heap.lean)."""
import vlib, hist

# node kinds: S = Segment, F = Field, M = Message, G = Group
BASE = [('S', 'PID'), ('S', 'PID')]
EXTRA = [('F', n) for n in ['PID_3', 'PID_3', 'PID_3', 'PID_8', 'PID_8', 'PID_1', 'NK1_2', 'PID_5', 'PID_5']] + \
        [('M', 'ADT_A01'), ('G', 'ADT_A01_INSURANCE'), ('S', 'IN1'), ('S', 'IN1'), ('S', 'EVN'), ('F', 'IN1_2'), ('G', 'ADT_A01_PROCEDURE'), ('S', 'PR1')]
ERR = {'ChildNotValid': 'ChildNotValid', 'MaxChildLimitReached': 'MaxChildLimitReached', 'OperationNotAllowed': 'OperationNotAllowed',
       'ValueError': 'crash', 'Crash:IndexError': 'crash', 'Crash:AttributeError': 'crash', 'Crash:KeyError': 'crash', 'ChildNotFound': 'ChildNotValid'}


def gen(rng, n):
    """a history: node specs + ops in the core vocabulary"""
    plevel = rng.choice([1, 2])
    nodes = [(k, nm, plevel, 25) for k, nm in BASE]
    for k, nm in EXTRA:
        lvl = plevel if rng.random() < .88 else 3 - plevel
        ver = 25 if rng.random() < .92 else 24
        nodes.append((k, nm, lvl, ver))
    containers = [i for i, nd in enumerate(nodes) if nd[0] != 'F']
    kids = [i for i, nd in enumerate(nodes) if nd[0] != 'M']
    rich = rng.random() < .5

    def par():
        return rng.randrange(2) if not rich or rng.random() < .4 else rng.choice(containers)

    def kid():
        return rng.randrange(2, 11) if not rich or rng.random() < .5 else rng.choice(kids)
    ops = []
    guess = {}          # parent -> children it probably lists (only to aim R / X at existing children; the ops stay a fixed list)

    def listed(p):
        g = guess.get(p)
        return rng.choice(g) if g and rng.random() < .75 else kid()
    if rng.random() < .5:
        # start from a populated parent whose same-named children are interleaved with others (replacement must keep every position)
        p0 = rng.randrange(2)
        for c in rng.sample(range(2, 11), rng.randrange(3, 8)):
            ops.append(('A', p0, c))
            guess.setdefault(p0, []).append(c)
    for _ in range(n):
        p, c, k = par(), kid(), rng.random()
        if k < .3:
            ops.append(('A', p, c))
            guess.setdefault(p, []).append(c)
        elif k < .42:
            ops.append(('I', p, c, rng.randrange(0, 4)))
            guess.setdefault(p, []).append(c)
        elif k < .54:
            c = listed(p)
            ops.append(('R', p, c))
            if c in guess.get(p, []):
                guess[p].remove(c)
        elif k < .72:
            old = listed(p)
            ops.append(('X', p, old, c))
            if old in guess.get(p, []):
                guess[p].remove(old)
                guess[p].append(c)
        elif k < .82:
            ops.append(('S', p, c))
            guess.setdefault(p, []).append(c)
        elif k < .86:
            ops.append(('U', c))
        elif k < .90:
            # assignment / deletion addressed by name and index (ElementList.set with an Element value, remove_by_name)
            if rng.random() < .6:
                ops.append(('E', p, c, rng.choice([0, 0, 1, 2, -1, -2])))
                guess.setdefault(p, []).append(c)
            else:
                ops.append(('D', p, nodes[listed(p)][1], rng.choice([0, 0, 1, -1, 2])))
        elif k < .94:
            ops.append(('T', p, c))
        else:
            ops.append(('P', c))
    return {'nodes': nodes, 'ops': ops}


def dump(objs):
    ids = {id(o): i for i, o in enumerate(objs)}
    out = []
    for o in objs:
        cont = o.classname != 'Field'
        kids = ','.join(str(ids.get(id(c), '?')) for c in o.children) if cont else ''
        par = ids.get(id(o.parent), '?') if o.parent is not None else '-'
        tp = ids.get(id(o.traversal_parent), '?') if o.traversal_parent is not None else '-'
        tidx = ','.join(str(i) for i in sorted(ids.get(id(c), -1) for l in o.children.traversal_indexes.values() for c in l)) if cont else ''
        out.append('%s/%s/%s/%s' % (kids, par, tp, tidx))
    return ';'.join(out)


def make(h):
    from hl7apy.core import Segment, Field, Message, Group
    cls = {'S': Segment, 'F': Field, 'M': Message, 'G': Group}
    objs = [cls[k](nm, version='2.%d' % (ver % 10), validation_level=lvl) for k, nm, lvl, ver in h['nodes']]
    for o in objs:
        if o.classname == 'Message':
            for c in list(o.children.list):     # the MSH segment a Message creates for itself is not a node of the history
                o.children.remove(c)
    return objs


def maxreps(h, objs):
    mr = {}
    for o in objs:
        if o.classname == 'Field':
            continue
        for k, nm, _, _ in h['nodes']:
            mx = o.repetitions.get(nm, (0, -1))[1]
            if int(mx) > -1:
                mr['%s/%s' % (o.name, nm)] = int(mx)
    return mr


def run_real(h):
    """execute on real objects; returns (per-op 'tag dump' list, model op strings with the observed validity flags, invariant violations)"""
    from hl7apy.exceptions import HL7apyException
    objs = make(h)
    h['maxreps'] = maxreps(h, objs)
    out, mops, inv, tainted = [], [], [], set()

    def validity(p, child):
        try:
            return 1 if p._is_valid_child(child) else 0
        except HL7apyException:
            return 0
    for op in h['ops']:
        try:
            k = op[0]
            if k in ('A', 'I', 'R', 'X', 'S', 'T'):
                p = objs[op[1]]
                child = objs[op[3] if k == 'X' else op[2]]
                valid = validity(p, child)
            if k == 'A':
                mops.append('A.%d.%d.%d' % (op[1], op[2], valid))
                p.children.append(child)
            elif k == 'I':
                li = min(op[3], len(p.children))
                mops.append('I.%d.%d.%d.%d' % (op[1], op[2], li, valid))
                p.children.insert(li, child)
            elif k == 'R':
                mops.append('R.%d.%d' % (op[1], op[2]))
                p.children.remove(child)
            elif k == 'X':
                mops.append('X.%d.%d.%d.%d' % (op[1], op[2], op[3], valid))
                if objs[op[2]].name != child.name:
                    tainted.add(id(p))      # replace_child(old, new) with different names: never done by the API (set() looks `old` up by new's name)
                p.children.replace_child(objs[op[2]], child)
            elif k == 'S':
                mops.append('S.%d.%d.%d' % (op[1], op[2], valid))
                child.parent = p
            elif k == 'U':
                mops.append('U.%d' % op[1])
                objs[op[1]].parent = None
            elif k == 'E':
                p, child = objs[op[1]], objs[op[2]]
                valid = validity(p, child)
                if id(p) in tainted:
                    # after a replace_child(old, new) with different names (never issued by the API) the by-name index of this element is not the
                    # list filtered by name any more: operations addressed by name and index have no defined meaning on it
                    mops.append('N')
                else:
                    mops.append('E.%d.%d.%d.%d' % (op[1], op[2], op[3], valid))
                    p.children.set(child.name, child, op[3])
            elif k == 'D':
                try:
                    objs[op[1]].children._find_name(op[2])
                    resolvable = True
                except HL7apyException:
                    resolvable = False          # a name the element does not know: refused before any child is looked at
                if resolvable and id(objs[op[1]]) not in tainted:
                    mops.append('D.%d.%s.%d' % (op[1], op[2], op[3]))
                    objs[op[1]].children.remove_by_name(op[2], op[3])
                else:
                    mops.append('N')
            elif k == 'T':
                # the library sets a traversal parent only on an element it has just created (create_element)
                if child.parent is None and child.traversal_parent is None and valid == 1 and child is not p:     # (create_element only creates children the structure allows)
                    mops.append('T.%d.%d.%d' % (op[1], op[2], valid))
                    child.traversal_parent = p
                else:
                    mops.append('N')
            elif k == 'P':
                c = objs[op[1]]
                tp = c.traversal_parent
                valid = validity(tp, c) if tp is not None else 1
                mops.append('P.%d.%d' % (op[1], valid))
                c.set_parent_to_traversal()
            tag = 'ok'
        except Exception as e:  # noqa
            n = vlib.exc_name(e)
            tag = ERR.get(n, n)
        out.append('%s %s' % (tag, dump(objs)))
        inv.append(graph_invariants(objs, tainted))
    return out, mops, inv, h['maxreps']


def graph_invariants(objs, tainted=()):
    """C10 on the low-level graph: listed ⇒ points back, listed once, by one element; the by-name index is the list filtered by name"""
    bad = []
    owner = {}
    for o in objs:
        if o.classname == 'Field':
            continue
        seen = set()
        for c in o.children.list:
            if id(c) in seen:
                bad.append('listed twice under %s: %s' % (o.name, c.name))
            seen.add(id(c))
            if c.parent is not o:
                bad.append('%s listed by %s but parent is %r' % (c.name, o.name, c.parent))
            if id(c) in owner and owner[id(c)] is not o:
                bad.append('%s listed by two elements' % c.name)
            owner[id(c)] = o
            if c.version != o.version or c.validation_level != o.validation_level:
                bad.append('%s under %s: version/level differ' % (c.name, o.name))
        names = []
        for c in o.children.list:
            if c.name not in names:
                names.append(c.name)
        for nm in (set(list(o.children.indexes.keys()) + names) if id(o) not in tainted else ()):
            want = [id(c) for c in o.children.list if c.name == nm]
            got = [id(c) for c in o.children.indexes.get(nm, [])]
            if want != got:
                bad.append('by-name index of %s under %s differs from the list' % (nm, o.name))
    return bad


def job(h):
    try:
        return run_real(h)
    except Exception as e:  # noqa
        import traceback
        return (['HARNESS ' + traceback.format_exc()[-300:]], [], [], {})


def model_line(h, mops):
    nodes = ','.join('%s:%d:%d' % n[1:] for n in h['nodes'])
    mr = ','.join('%s=%d' % kv for kv in sorted(h.get('maxreps', {}).items())) or '-'
    return 'HEAP %s %s %s' % (nodes, mr, ';'.join(mops))


def collect(rng, nhist, nops=12):
    """run `nhist` random histories on the real code and on the model.
    returns a list of dicts {history, line, impl: [per-op 'tag dump'], model: [...], mops, inv: [per-op violations]}"""
    hs = [gen(rng, rng.randrange(2, nops + 1)) for _ in range(nhist)]
    res = vlib.pmap(job, hs)
    lines = []
    for h, (out, mops, inv, mr) in zip(hs, res):
        h['maxreps'] = mr
        lines.append(model_line(h, mops))
    mod = vlib.run_driver(lines)
    return [{'history': h, 'line': line, 'impl': out, 'model': m.split('|'), 'mops': mops, 'inv': inv}
            for h, (out, mops, inv, mr), m, line in zip(hs, res, mod, lines)]


def parse_dump(d):
    """'kids/par/tp/tidx;...' -> list of (kids, parent, tparent, tidx)"""
    out = []
    for n in d.split(';'):
        k, p, t, x = n.split('/')
        out.append(([int(i) for i in k.split(',') if i], None if p == '-' else int(p), None if t == '-' else int(t),
                    [int(i) for i in x.split(',') if i]))
    return out


def compare(seed, nhist, nops=12):
    import random
    runs = collect(random.Random(seed), nhist, nops)
    dis, bad, stats = [], [], {'histories': nhist, 'ops': 0, 'tags': {}, 'kinds': {}}
    for r in runs:
        h, out, mo, mops = r['history'], r['impl'], r['model'], r['mops']
        if out and out[0].startswith('HARNESS'):
            dis.append({'history': h, 'harness_error': out[0]})
            continue
        for i, o in enumerate(out):
            stats['ops'] += 1
            stats['tags'][o.split(' ')[0]] = stats['tags'].get(o.split(' ')[0], 0) + 1
            stats['kinds'][h['ops'][i][0]] = stats['kinds'].get(h['ops'][i][0], 0) + 1
        if mo != out:
            k = next((i for i in range(min(len(mo), len(out))) if mo[i] != out[i]), min(len(mo), len(out)))
            dis.append({'history': h, 'line': r['line'], 'step': k, 'op': mops[k] if k < len(mops) else None,
                        'impl': out[k] if k < len(out) else None, 'model': mo[k] if k < len(mo) else None})
        for i, b in enumerate(r['inv']):
            if b:
                bad.append({'history': h, 'step': i, 'op': mops[i] if i < len(mops) else None, 'violations': b})
                break
    return stats, dis, bad


if __name__ == '__main__':
    import sys, json
    st, dis, bad = compare(int(sys.argv[1]), int(sys.argv[2]))
    print(json.dumps(st))
    print(len(dis), 'disagreements', len(bad), 'invariant violations')
    for d in dis[:4]:
        print(json.dumps({k: v for k, v in d.items() if k != 'history'})[:900])
    for d in bad[:4]:
        print(json.dumps({k: v for k, v in d.items() if k != 'history'})[:600], d['history']['ops'][:d['step'] + 1])
