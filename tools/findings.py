"""Decidable descriptions of the listed table findings (D1 D2 D3), shared by several checks.
The *lists* live in known_findings.json; this module only computes the key of an observed failure."""

V27 = ('2.7', '2.8', '2.8.1', '2.8.2')
ANY = ('2.2', '2.3', '2.3.1', '2.4', '2.5', '2.5.1', '2.6') + V27


def d2_key(version, seg_names):
    """key of the malformed table entry (finding D2) that a crash can be attributed to, if any"""
    for n in seg_names:
        n = (n or '').upper()
        if version in V27 and n in ('QRD', 'QRF', 'URD', 'URS'):
            return 'D2:%s:%s' % (version, n)
        if version == '2.1' and n in ('ORO', 'RX1'):
            return 'D2:2.1:%s' % n
        if version in ANY and n == 'ANYHL7SEGMENT':
            return 'D2:%s:ANYHL7SEGMENT' % version
    return None


def msg_version(text, default='2.5'):
    t = text.lstrip()
    if len(t) < 4:
        return default
    first = t.split('\r', 1)[0]
    f = first.split(t[3])
    if len(f) > 11:
        comp = f[1][0] if f[1] else '^'
        return f[11].strip().split(comp)[0]
    return default
