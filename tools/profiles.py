"""Message profiles synthesised from the standard tables by constraint edits (C18).

An edit is applied uniformly by name — every occurrence of the edited parent inside the profile carries it — so that the profile
equals the model's `Prof.applyAll edits T` (lean/Hl7/Model/Profile.lean).  Edit syntax = the driver's:
  ('C', tab, parent, child, min, max) | ('F', tab, parent, child) | ('R', segment, field, 'L'|'S', datatype)     tab in m g s d
"""
import gen


def edit_str(e):
    return '.'.join(str(x) for x in e)


class Synth:
    def __init__(self, lib, edits):
        self.lib, self.edits = lib, list(edits)
        self.memo = {}

    def _row_edits(self, tab, parent, child):
        card = forbid = None
        for e in self.edits:
            if e[0] == 'C' and e[1:4] == (tab, parent, child):
                card = (e[4], e[5])
            if e[0] == 'F' and e[1:4] == (tab, parent, child):
                forbid = True
        return card, forbid

    def rows(self, tab, parent, rows, child_ref):
        out, changed = [], False
        for row in rows:
            if not (gen.is_seq(row) and len(row) == 4):
                out.append(row)
                continue
            name, cref, card, cls = row
            ncard, forbid = self._row_edits(tab, parent, name)
            if forbid:
                changed = True
                continue
            nref = child_ref(parent, name, cref, cls)
            if ncard is not None or nref is not cref:
                changed = True
                out.append((name, nref, ncard if ncard is not None else card, cls))
            else:
                out.append(row)
        return tuple(out) if changed else rows

    def container(self, tab, name, ref):
        key = (tab, name)
        if key in self.memo:
            return self.memo[key]
        res = ref
        if gen.is_seq(ref) and len(ref) == 2 and gen.is_seq(ref[1]):
            def child(parent, cname, cref, cls):
                if cls == 'SEG' and cref is self.lib.SEGMENTS.get(cname):
                    return self.segment(cname, cref)
                if cls == 'GRP' and cref is self.lib.GROUPS.get(cname):
                    return self.container('g', cname, cref)
                return cref
            nrows = self.rows(tab, name, ref[1], child)
            if nrows is not ref[1]:
                res = (ref[0], nrows)
        self.memo[key] = res
        return res

    def segment(self, name, ref):
        key = ('s', name)
        if key in self.memo:
            return self.memo[key]
        res = ref
        if gen.is_seq(ref) and len(ref) == 2 and gen.is_seq(ref[1]):
            def child(parent, fname, fref, cls):
                for e in self.edits:
                    if e[0] == 'R' and e[1] == parent and e[2] == fname and gen.well_formed_ref(fref) and len(fref) == 6:
                        if e[3] == 'L':
                            return ('leaf', None, e[4], fref[3], fref[4], fref[5])
                        return ('sequence', self.struct(e[4]), e[4], fref[3], fref[4], fref[5])
                return self.typed(fref)
            nrows = self.rows('s', name, ref[1], child)
            if nrows is not ref[1]:
                res = (ref[0], nrows)
        self.memo[key] = res
        return res

    def struct(self, dt):
        key = ('d', dt)
        if key in self.memo:
            return self.memo[key]
        rows = self.lib.DATATYPES_STRUCTS.get(dt)
        res = rows
        if gen.is_seq(rows):
            self.memo[key] = rows      # recursion guard
            res = self.rows('d', dt, rows, lambda parent, cname, cref, cls: self.typed(cref))
        self.memo[key] = res
        return res

    def typed(self, ref):
        """a field / component reference ('sequence', struct rows, dt, long, table, maxlen): rebuild only if its struct changed"""
        if gen.well_formed_ref(ref) and len(ref) == 6 and ref[0] == 'sequence' and ref[1] is self.lib.DATATYPES_STRUCTS.get(ref[2]):
            nrows = self.struct(ref[2])
            if nrows is not ref[1]:
                return (ref[0], nrows) + tuple(ref[2:])
        return ref


def make_profile(lib, structure, edits):
    """{structure: nested reference}; with no edits the entry IS lib.MESSAGES[structure]"""
    return {structure: Synth(lib, edits).container('m', structure, lib.MESSAGES[structure])}
