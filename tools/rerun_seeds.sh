#!/bin/bash
# re-runs the seeded changes of shard $1 of $2 against a private copy of the repository (vp run --with-repo): prints one line per check run
# usage: vp run --with-repo -- tools/rerun_seeds.sh <shard> <nshards>
cd "$(dirname "$0")/.."
export HL7APY_REPO=${VP_RUN_REPO:-/repo}
/venv/bin/python tools/gen_tables.py > /dev/null && (cd lean && lake build > /dev/null 2>&1)
i=0
for d in seeded/*/; do
  n=$(basename $d)
  i=$((i+1))
  [ $((i % $2)) -eq $1 ] || continue
  python3 -c "import json,sys; sys.exit(0 if json.load(open('seeded/$n/meta.json')).get('kept', True) else 1)" || { echo "== $n retired"; continue; }
  checks=$(python3 -c "
import json;m=json.load(open('seeded/$n/meta.json'));s=set(m.get('detected_by') or [])|{m['property']};print(' '.join(sorted(s)))")
  echo "== $n [$checks]"
  python3 tools/seed.py run $n $checks 2>&1 | grep -E "rc=|not clean|does not apply" | cut -c1-200
  cp seeded/$n/meta.json /var/tmp/seedmeta_$n.json
done
echo ALLDONE
