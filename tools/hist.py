"""API histories on the real element graph, with the ordered-list reference model the properties C09-C12 speak of.

A history is a list of ops on a root element (a Segment or a Message) plus helper elements; it is executed
against the real hl7apy objects, observing after every op:
  * the encoding of the root and the ordered-list spec's encoding (C09),
  * the structural invariants of the whole reachable graph (C10),
  * on an exception: that the observation is what it was before the call (C12).
"""
import json
import vlib

EC = {'FIELD': '|', 'COMPONENT': '^', 'SUBCOMPONENT': '&', 'REPETITION': '~', 'ESCAPE': '\\', 'GROUP': '\r', 'SEGMENT': '\r'}
SEG_FIELDS = {'PID': [3, 5, 8, 11, 13], 'NK1': [2, 4, 5], 'OBX': [3, 5, 6],
              # open-ended segments (a Z segment; QPD ends in a `varies` field): any index is a field, the encoder pads up to the highest one in use
              'ZIN': [2, 3, 5, 9, 12], 'QPD': [1, 2, 4, 6, 11]}
VALUES = ['A', 'B', 'C^D', 'E^F&G', 'H', 'I^^J', 'K']
MSG_SEGS = ['EVN', 'PID', 'NK1', 'PV1', 'OBX', 'AL1', 'DG1', 'ZZ1']


# ---------------------------------------------------------------- generation
def gen_segment_history(rng, n, strict=False, reject=False):
    seg = rng.choice(sorted(SEG_FIELDS))
    idxs = SEG_FIELDS[seg]
    ops = []
    for _ in range(n):
        i = rng.choice(idxs)
        name = '%s_%d' % (seg, i)
        val = rng.choice(VALUES)
        k = rng.randrange(12)
        if k < 3:
            ops.append(['set', name.lower(), val])
        elif k == 3:
            ops.append(['seti', name.lower(), rng.randrange(0, 3), val])
        elif k == 4:
            ops.append(['add', name, val])
        elif k == 5:
            ops.append(['addnew', name, val])
        elif k == 6:
            ops.append(['del', name.lower()])
        elif k == 7:
            ops.append(['deli', name.lower(), rng.randrange(0, 3)])
        elif k == 8:
            ops.append(['remove', rng.randrange(0, 4)] if rng.random() < .6 else ['setpos', rng.randrange(0, 4), val])
        elif k == 9:
            ops.append(rng.choice([['copy', name.lower(), val], ['copy', name.lower(), val], ['reattach', name, val], ['add_twice', name, val], ['setelem_attached', name, val],
                                   ['setparent', name, val], ['setparent_none', rng.randrange(0, 4)], ['settrav_replace', name, val],
                                   ['move_sibling', name.lower(), rng.randrange(0, 3), rng.randrange(0, 3)]]))
        elif k == 10:
            ops.append(['setlong', name, val] if rng.random() < .6 else
                       ['copyi', name.lower(), rng.choice([0, 1, 1, 2, -1]), rng.sample(VALUES, 3)])
        else:
            ops.append(['read', name.lower()])
        if reject and rng.random() < .35:
            ops.append(rng.choice([
                ['add_wrongclass'], ['set_wrongname', 'nk1_2' if seg != 'NK1' else 'pid_3', 'X'], ['add_otherlevel', name, val],
                ['ctor_refused', name, rng.choice(['FOO', 'XYZ', 'Q1'])], ['set_basedt_foreign', name.lower()], ['datatype_empty_children', name], ['children_assign_zfield', name, val],
                ['add_otherversion', name, val], ['del', '%s_%d' % (seg.lower(), 19)], ['set', 'foo_1', 'X'], ['set_elem_wrongname', name.lower()],
                ['replace_otherlevel', name.lower(), val], ['add_overflow', '%s_1' % seg, '1'], ['set_invalid_strict', name.lower()],
                ['datatype_populated', name.lower()], ['deli', name.lower(), 7], ['setparent_otherlevel', name, val], ['set_basedt_refused', name.lower()], ['set_basedt_refused', name.lower(), 'long'], ['children_assign_refused', name, val]]))
    if reject and rng.random() < .35:
        # a refused replacement of a repetition that is NOT the last of its name and has children of another name before it: the
        # rollback must put the old child back at its place in the list AND in the per-name order (seed C12-h)
        i, j = rng.sample(idxs, 2) if len(idxs) > 1 else (idxs[0], idxs[0])
        a, b = '%s_%d' % (seg, i), '%s_%d' % (seg, j)
        pre = [['set', b.lower(), 'Q']] + [['add', a, x] for x in rng.sample(['A', 'B', 'C', 'H', 'K'], 3)]
        pre.append(rng.choice([['replace_otherlevel_i', a.lower(), rng.choice([0, 1]), 'Z'], ['replace_otherlevel', a.lower(), 'Z']]))
        ops = pre + ops
    return {'root': 'segment', 'segment': seg, 'version': '2.5', 'strict': strict, 'ops': ops}


FIELD_COMPS = {'PID_5': ('XPN', [2, 3, 5, 7]), 'PID_3': ('CX', [1, 2, 3, 5]), 'PID_11': ('XAD', [3, 4, 5, 6])}


def gen_field_history(rng, n, strict=False, reject=False):
    """the same vocabulary one level down: a Field of a complex datatype as root, its (leaf) components as children"""
    fld = rng.choice(sorted(FIELD_COMPS))
    dt, idxs = FIELD_COMPS[fld]
    ops = []
    for _ in range(n):
        name = '%s_%d' % (dt, rng.choice(idxs))
        val = rng.choice(['A', 'B', 'C', 'H', 'K'])
        k = rng.randrange(10)
        if k < 4:
            ops.append(['set', name.lower(), val])
        elif k == 4:
            ops.append(['setpresent', name, val])
        elif k == 5:
            ops.append(['del', name.lower()])
        elif k == 6:
            ops.append(['remove', rng.randrange(0, 4)])
        elif k == 7:
            ops.append(rng.choice([['setelem_attached', name, val], ['setparent_none', rng.randrange(0, 4)], ['copy', name.lower(), val],
                                   ['ctor_component', rng.choice(['ST', 'ID', 'varies', name])]]))
        elif k == 8:
            ops.append(['seti', name.lower(), 0, val])
        else:
            ops.append(['deli', name.lower(), 0])
        if reject and rng.random() < .35:
            ops.append(rng.choice([['add_otherlevel', name, val], ['add_otherversion', name, val], ['replace_otherlevel', name.lower(), val],
                                   ['del', '%s_%d' % (dt.lower(), 19)], ['set', 'foo_1', 'X'], ['setparent_otherlevel', name, val], ['deli', name.lower(), 5],
                                   ['children_assign_refused', name, val]]))
    return {'root': 'field', 'field': fld, 'version': '2.5', 'strict': strict, 'ops': ops}


def gen_message_history(rng, n, strict=False, reject=False):
    ops = []
    if rng.random() < .5:
        # repetitions of one segment interleaved with other segments, then replacements by index: sibling order must not change
        for _ in range(rng.randrange(3, 7)):
            s = rng.choice(['NK1', 'OBX', 'AL1', 'NK1', 'OBX', 'DG1'])
            ops.append(['madd', s, '%s|%s' % (s, rng.choice(['1', '2', 'x']))])
        s = rng.choice(['NK1', 'OBX'])
        ops.append(['mseti', s.lower(), rng.randrange(0, 3), '%s|%s' % (s, 'R')])
    for _ in range(n):
        s = rng.choice(MSG_SEGS)
        txt = '%s|%s' % (s, rng.choice(['1', '2', 'x']))
        k = rng.randrange(9)
        if k < 3:
            ops.append(['mset', s.lower(), txt])
        elif k == 3:
            ops.append(['mseti', s.lower(), rng.randrange(0, 3), txt] if rng.random() < .7 else
                       ['mcopyi', s.lower(), rng.choice([0, 1, 1, 2, -1]), ['%s|%s' % (s, x) for x in rng.sample(['p', 'q', 'r', 's'], 3)]])
        elif k == 4:
            ops.append(['madd', s, txt])
        elif k == 5:
            ops.append(['maddnew', s, txt])
        elif k == 6:
            ops.append(['mdel', s.lower()])
        elif k == 7:
            ops.append(['mdeli', s.lower(), rng.randrange(0, 3)])
        else:
            ops.append(['mpath', s.lower(), '%s_1' % s.lower(), rng.choice(['7', '8'])] if rng.random() < .7 or s in ('ZZ1',) else
                       ['mpath_basedt_refused', s.lower(), {'EVN': 'evn_5', 'PID': 'pid_3', 'NK1': 'nk1_2', 'PV1': 'pv1_3', 'OBX': 'obx_3', 'AL1': 'al1_3', 'DG1': 'dg1_3'}[s]])
        if rng.random() < .25:
            # one level of groups: segments reached, added and deleted through a group of the message
            g, gs = rng.choice([('ADT_A01_INSURANCE', ['IN1', 'IN2', 'IN3']), ('ADT_A01_PROCEDURE', ['PR1', 'ROL'])])
            sg = rng.choice(gs)
            ops.append(rng.choice([['gset', g, sg, '%s|%s' % (sg, rng.choice(['1', '2']))], ['gset', g, sg, '%s|%s' % (sg, rng.choice(['1', '2']))],
                                   ['gadd', g, sg, '%s|%s' % (sg, rng.choice(['1', '2']))], ['gdel', g, sg], ['gdelgroup', g]]))
        if reject and rng.random() < .3:
            ops.append(rng.choice([['mset', 'pid', 'NK1|1'], ['mdel', 'al1'], ['madd_otherlevel', s, txt], ['mset', 'foo', 'FOO|1'], ['madd_field']]))
    return {'root': 'message', 'structure': 'ADT_A01', 'version': '2.5', 'strict': strict, 'ops': ops}


# ---------------------------------------------------------------- the ordered-list reference model (C09)
class Spec:
    """per root: an ordered list of (child name, text); assignment replaces the addressed repetition in place
    (or appends), addition appends, deletion removes exactly the addressed one"""

    def __init__(self):
        self.items = []
        self.groups = {}          # group name -> (Spec of its segments, structure order of the group or None)

    def reps(self, name):
        return [i for i, (n, _) in enumerate(self.items) if n == name]

    def set(self, name, text, k=0):
        r = self.reps(name)
        if -len(r) <= k < len(r):
            self.items[r[k]] = (name, text)
        else:
            self.items.append((name, text))

    def add(self, name, text):
        self.items.append((name, text))

    def delete(self, name, k=0):
        r = self.reps(name)
        del self.items[r[k]]

    def remove_at(self, pos):
        del self.items[pos]

    def enc_segment(self, seg):
        by = {}
        for n, t in self.items:
            by.setdefault(int(n.split('_')[1]), []).append(t)
        if not by:
            return seg
        out = [seg]
        for i in range(1, max(by) + 1):
            out.append('~'.join(by.get(i, [])))
        return '|'.join(out)

    def enc_field(self):
        """a field of a complex datatype: components by position, `^`-separated, trailing empty positions trimmed (a component
        holds one value here, so there is at most one per position)"""
        by = {}
        for n, t in self.items:
            by.setdefault(int(n.split('_')[1]), []).append(t)
        if not by:
            return ''
        return '^'.join('~'.join(by.get(i, [])) for i in range(1, max(by) + 1))

    def enc_message(self, order=None):
        """TOLERANT: insertion order.  STRICT (`order` = the structure's child names): the per-name lists of repetitions
        in structure order, then the children the structure does not name, in insertion order"""
        def text(n, t):
            if n in self.groups:
                sub, sub_order = self.groups[n]
                return sub.enc_message(sub_order)
            return t
        if order is None:
            return '\r'.join(x for x in (text(n, t) for n, t in self.items) if x != '' or True)
        out = []
        for nm in order:
            out += [text(n, t) for n, t in self.items if n == nm]
        out += [text(n, t) for n, t in self.items if n not in order]
        return '\r'.join(out)


# ---------------------------------------------------------------- invariants of the reachable graph (C10)
def invariants(root):
    """list of violated clauses over every element reachable from `root` through children"""
    bad = []
    seen = {}

    def walk(el):
        kids = list(el.children)
        # lookup by name / positional lookup / iteration / len / containment agree
        if len(el.children) != len(kids):
            bad.append('len-vs-iteration:%s' % el.name)
        for i, c in enumerate(kids):
            if el.children[i] is not c:
                bad.append('index-vs-iteration:%s' % el.name)
            if c not in el.children:
                bad.append('containment:%s' % el.name)
            if c.parent is not el:
                bad.append('child-parent-pointer:%s.%s' % (el.name, c.name))
            if id(c) in seen and seen[id(c)] is not el:
                bad.append('listed-by-two-parents:%s' % c.name)
            if sum(1 for x in kids if x is c) > 1:
                bad.append('listed-twice:%s.%s' % (el.name, c.name))
            seen[id(c)] = el
            if c.version != root.version:
                bad.append('version:%s' % c.name)
            if c.validation_level != root.validation_level:
                bad.append('level:%s' % c.name)
        names = []
        for c in kids:
            if c.name not in names:
                names.append(c.name)
        for n in names:
            if n is None:
                continue
            try:
                by_name = list(el.children.indexes.get(n, []))
            except Exception:  # noqa
                by_name = None
            want = [c for c in kids if c.name == n]
            if by_name is not None and (len(by_name) != len(want) or any(a is not b for a, b in zip(by_name, want))):
                bad.append('lookup-by-name-vs-list:%s.%s' % (el.name, n))
            # ... and the public view of the same thing: the proxy returned for that name (cached per name by the library)
            try:
                px = el.children.get(n)
                via = [x for x in px] if px is not None else None
                if via is not None and (len(px) != len(want) or len(via) != len(want) or any(a is not b for a, b in zip(via, want))):
                    bad.append('proxy-vs-list:%s.%s' % (el.name, n))
            except Exception as e:  # noqa
                bad.append('proxy-raises:%s.%s:%s' % (el.name, n, type(e).__name__))
        for n, lst in el.children.indexes.items():
            for c in lst:
                if not any(c is x for x in kids):
                    bad.append('index-lists-a-non-child:%s.%s' % (el.name, n))
        for c in kids:
            if hasattr(c, 'children') and c.classname != 'SubComponent':
                walk(c)
    walk(root)
    return sorted(set(bad))


def observe(root):
    try:
        enc = root.to_er7(EC) if root.classname != 'Message' else root.to_er7()
    except Exception as e:  # noqa
        enc = 'ENC-EXC:' + vlib.exc_name(e)
    return enc, [c.name for c in root.children]


# ---------------------------------------------------------------- execution on the real objects
def run_history(h):
    """returns a list of per-op records: {op, outcome, enc, spec, inv, atomic}"""
    from hl7apy.core import Segment, Field, Message, Component
    from hl7apy.consts import VALIDATION_LEVEL as VL
    from hl7apy.core import is_base_datatype
    lvl = VL.STRICT if h['strict'] else VL.TOLERANT
    other_lvl = VL.TOLERANT if h['strict'] else VL.STRICT
    v = h['version']
    spec = Spec()
    Child = Field
    if h['root'] == 'segment':
        root = Segment(h['segment'], version=v, validation_level=lvl)
        other = Segment(h['segment'], version=v, validation_level=lvl)
    elif h['root'] == 'field':
        # a field of a complex datatype: its components are the children
        root = Field(h['field'], version=v, validation_level=lvl)
        other = Field(h['field'], version=v, validation_level=lvl)
        Child = Component
    else:
        root = Message(h['structure'], version=v, validation_level=lvl)
        root.msh.msh_7 = '20200101'
        root.msh.msh_9 = 'ADT^A01^ADT_A01'
        root.msh.msh_10 = '1'
        spec.add('MSH', root.msh.to_er7())
        other = None
    recs = []
    for op in h['ops']:
        before = observe(root)
        before_inv = invariants(root)
        sp_before = list(spec.items)
        kind = op[0]
        exc = None
        extra = []
        mark = {'before': before, 'spec': sp_before}
        groups_before = {k: (list(v[0].items), v[1]) for k, v in spec.groups.items()}

        def substep():
            # a composite op: the API call made so far succeeded; atomicity is judged for the call that follows
            mark['before'] = observe(root)
            mark['spec'] = list(spec.items)
        try:
            if kind == 'set':
                setattr(root, op[1], op[2])
                spec.set(op[1].upper(), op[2])
            elif kind == 'setlong':
                f = Child(op[1], version=v, validation_level=lvl)
                ln = f.long_name
                if ln is None or ln.lower() in Segment.cls_attrs:
                    setattr(root, op[1].lower(), op[2])
                else:
                    setattr(root, ln.lower(), op[2])
                spec.set(op[1], op[2])
            elif kind == 'seti':
                getattr(root, op[1])[op[2]] = op[3]
                spec.set(op[1].upper(), op[3], op[2])
            elif kind == 'copyi':
                # `dst.x[i] = src.x` where the source holds several repetitions: the FIRST one is copied by value into repetition i
                src = Segment(h['segment'], version=v, validation_level=VL.TOLERANT)
                for t in op[3]:
                    f = Field(op[1].upper(), version=v, validation_level=VL.TOLERANT)
                    f.value = t
                    src.add(f)
                src_before = src.to_er7()
                substep()
                getattr(root, op[1])[op[2]] = getattr(src, op[1])
                spec.set(op[1].upper(), op[3][0], op[2])
                if src.to_er7() != src_before:
                    extra.append(('source-changed', '%r -> %r' % (src_before, src.to_er7())))
            elif kind == 'add':
                f = Child(op[1], version=v, validation_level=lvl)
                f.value = op[2]
                extra.append(f)
                root.add(f)
                spec.add(op[1], op[2])
            elif kind == 'setpresent':
                f = Child(op[1], version=v, validation_level=lvl)
                f.value = op[2]
                extra.append(f)
                if spec.reps(op[1]):
                    setattr(root, op[1].lower(), f)
                    spec.set(op[1], op[2])
                else:
                    root.add(f)
                    spec.add(op[1], op[2])
            elif kind == 'addnew':
                f = root.add_field(op[1]) if h['root'] == 'segment' else root.add_component(op[1])
                spec.add(op[1], '')
                substep()
                f.value = op[2]
                spec.items[-1] = (op[1], op[2])
            elif kind == 'reattach':
                # add to `root` a field that is already attached to another segment
                f = Child(op[1], version=v, validation_level=lvl)
                f.value = op[2]
                other.add(f)
                extra.append(('other', other))
                root.add(f)
                spec.add(op[1], op[2])
            elif kind == 'setelem_attached':
                # assign, by name, a field object that is currently a child of another segment
                f = Child(op[1], version=v, validation_level=lvl)
                f.value = op[2]
                other.add(f)
                extra.append(('other', other))
                setattr(root, op[1].lower(), f)
                spec.set(op[1], op[2])
            elif kind == 'setparent':
                # the public `parent` setter on a field that is a child of another segment (finding D26)
                f = Child(op[1], version=v, validation_level=lvl)
                f.value = op[2]
                other.add(f)
                extra.append(('other', other))
                f.parent = root
                spec.add(op[1], op[2])
            elif kind == 'setparent_none':
                c = root.children[op[1]]
                extra.append(('detached', c))
                c.parent = None
                spec.remove_at(op[1])
            elif kind == 'setparent_otherlevel':
                f = Child(op[1], version=v, validation_level=other_lvl)
                f.value = op[2]
                extra.append(f)
                f.parent = root
            elif kind == 'settrav_replace':
                # a not-yet-materialised (traversal) field replaces an existing repetition (finding D25)
                nm = op[1].lower()
                if len(getattr(root, nm)) == 0:
                    fld = getattr(getattr(root, nm), nm + '_1').traversal_parent
                    g = root.add_field(op[1])
                    spec.add(op[1], '')
                    substep()
                    g.value = op[2]
                    spec.items[-1] = (op[1], op[2])
                    substep()
                    getattr(root, nm)[0] = fld
                    spec.set(op[1], '', 0)
                    extra.append(('listed', fld))
            elif kind == 'move_sibling':
                # assign, by index, a repetition the element already lists (a move inside the element; finding D31).
                # What a move should yield is not specified by C09: the reference model is re-read from the element afterwards.
                p = getattr(root, op[1])
                if len(p) > max(op[2], op[3]) and op[2] != op[3]:
                    p[op[2]] = p[op[3]]
                    spec.items = [(c.name, c.to_er7(EC)) for c in root.children]
            elif kind == 'add_twice':
                f = Child(op[1], version=v, validation_level=lvl)
                f.value = op[2]
                root.add(f)
                spec.add(op[1], op[2])
                substep()
                root.add(f)          # the same object again: must be refused or be a no-op, never listed twice
            elif kind == 'del':
                delattr(root, op[1])
                spec.delete(op[1].upper(), 0)
            elif kind == 'deli':
                del getattr(root, op[1])[op[2]]
                spec.delete(op[1].upper(), op[2])
            elif kind == 'remove':
                c = root.children[op[1]]
                root.children.remove(c)
                spec.remove_at(op[1])
            elif kind == 'setpos':
                # `element.children[i] = value`: the list edit proper — the child at position i is replaced in place (defect D38)
                root.children[op[1]] = op[2]
                spec.items[op[1]] = (spec.items[op[1]][0], op[2])
            elif kind == 'copy':
                setattr(other, op[1], op[2])
                src_before = observe(other)
                setattr(root, op[1], getattr(other, op[1]))
                spec.set(op[1].upper(), op[2])
                # a child taken from another element is copied by value: the source keeps it
                if observe(other) != src_before:
                    extra.append(('source-changed', '%r -> %r' % (src_before[0], observe(other)[0])))
            elif kind == 'read':
                p = getattr(root, op[1])
                len(p)
                [x for x in p]
                repr(p)
                if len(p):
                    p[0].to_er7()
                getattr(getattr(root, op[1]), op[1] + '_1')      # a deeper chain through a (possibly) absent child
                root.to_er7()
                root.validate(return_errors=True) if not h['strict'] else None
            # ---- operations that must be rejected
            elif kind == 'ctor_refused':
                # an addition spelled as a constructor call, `Child(name, datatype=<one it cannot take>, parent=root)`: when the constructor
                # raises, root lists what it listed before (an unknown datatype, a datatype STRICT does not let override, ...)
                Child(op[1], datatype=op[2], parent=root, version=v, validation_level=lvl)
            elif kind == 'ctor_component':
                # an addition spelled as a constructor call: `Component(<name> | datatype=<dt>, parent=root)`. While it is listed, every
                # lookup agrees with the list (an unnamed component takes its datatype as name: the parent must index it under THAT name);
                # it is then taken out again, so the reference model is not concerned
                try:
                    c = Component(op[1], parent=root, version=v, validation_level=lvl) if '_' in op[1] else \
                        Component(datatype=op[1], parent=root, version=v, validation_level=lvl)
                except Exception:  # noqa
                    c = None
                    raise
                mid = invariants(root)
                nm = c.name
                if nm is not None and not any(x is c for x in root.children.indexes.get(nm, [])):
                    mid = mid + ['constructed-child-not-indexed-under-its-name:%s (keys %r)' % (nm, sorted(map(str, root.children.indexes)))]
                if mid:
                    extra.append(('mid-invariant', 'while the constructed child is listed: ' + ';'.join(mid[:4])))
                substep()
                root.children.remove(c)
            elif kind == 'add_wrongclass':
                root.add(Component('CX_1', version=v, validation_level=lvl))
            elif kind == 'set_wrongname':
                setattr(root, op[1], op[2])
            elif kind == 'add_otherlevel':
                f = Child(op[1], version=v, validation_level=other_lvl)
                extra.append(f)
                root.add(f)
            elif kind == 'add_otherversion':
                f = Child(op[1], version='2.4', validation_level=lvl)
                extra.append(f)
                root.add(f)
            elif kind == 'set_elem_wrongname':
                setattr(root, op[1], Field('PV1_2', version=v, validation_level=lvl))
            elif kind == 'replace_otherlevel':
                f = Child(op[1].upper(), version=v, validation_level=other_lvl)
                extra.append(f)
                setattr(root, op[1], f)
            elif kind == 'replace_otherlevel_i':
                f = Child(op[1].upper(), version=v, validation_level=other_lvl)
                extra.append(f)
                getattr(root, op[1])[op[2]] = f
            elif kind == 'add_overflow':
                f = Child(op[1], version=v, validation_level=lvl)
                f.value = op[2]
                root.add(f)
                spec.add(op[1], op[2])
                substep()
                f2 = Child(op[1], version=v, validation_level=lvl)
                f2.value = op[2]
                extra.append(f2)
                root.add(f2)
                spec.add(op[1], op[2])
            elif kind == 'set_invalid_strict':
                setattr(root, op[1], 'x' * 2000)
                spec.set(op[1].upper(), 'x' * 2000)
            elif kind == 'children_assign_refused':
                # root.children = [good, bad]: refused at the second element (finding D32: the first one was left pointing at root)
                good = Child(op[1], version=v, validation_level=lvl)
                good.value = op[2]
                bad = Child(op[1], version=v, validation_level=other_lvl)
                extra.extend([good, bad])
                root.children = [good, bad]
            elif kind == 'set_basedt_foreign':
                # a base-datatype OBJECT whose class is no base datatype of the element's version (TN: 2.1-2.4) — the refusal is a ChildNotFound
                # raised while the reference of the new child is looked up: whatever its class, a refusal leaves no empty child behind (seed C12-i)
                import hl7apy as _h
                TN = _h.load_library('2.4').BASE_DATATYPES['TN']
                setattr(root, op[1], TN('5551234'))
            elif kind == 'children_assign_zfield':
                # root.children = [good, <a Z field>]: on a segment that is no Z segment the second element is refused with ChildNotFound
                good = Child(op[1], version=v, validation_level=lvl)
                good.value = op[2]
                bad = Field('ZPD_3', version=v, validation_level=lvl)
                extra.extend([good, bad])
                root.children = [good, bad]
            elif kind == 'set_basedt_refused':
                # a base-datatype object assigned to a child of a complex datatype is refused (finding D30)
                from hl7apy.v2_5 import ST
                ft = Field(op[1].upper(), version=v, validation_level=lvl)
                if not is_base_datatype(ft.datatype, v):
                    # (by HL7 name or, when asked, by the child's long name: the refusal must clean up whatever the spelling, seed C12-g)
                    attr = ft.long_name.lower() if len(op) > 2 and getattr(ft, 'long_name', None) else op[1]
                    if attr in ('name', 'value', 'version', 'parent', 'children', 'datatype', 'reference', 'classname', 'validation_level', 'encoding_chars', 'structure_by_name'):
                        attr = op[1]      # (NK1_2's long name is NAME: `segment.name = ...` is the element's own attribute, not a child)
                    setattr(root, attr, ST('x'))
            elif kind == 'datatype_empty_children':
                # a field of a complex datatype holding only components without content (added, never valued), one of them not the first;
                # a change to another complex datatype is refused and leaves the field — and the root — encoding as before (seed C12-j)
                ft = Field(op[1], version=v, validation_level=lvl)
                if not is_base_datatype(ft.datatype, v) and ft.datatype not in (None, 'varies') and not h['strict']:
                    f = root.add_field(op[1])
                    f.add_component('%s_2' % f.datatype)
                    spec.add(op[1], '^')
                    substep()
                    f.datatype = 'XPN' if f.datatype != 'XPN' else 'CX'
            elif kind == 'datatype_populated':
                p = getattr(root, op[1])
                # only where the change must be refused: a populated element of a complex datatype (on a base datatype
                # the library allows it, and the old value is then not encoded any more - outside C09/C12)
                if len(p) and not is_base_datatype(p[0].datatype, v):
                    p[0].datatype = 'XPN' if p[0].datatype != 'XPN' else 'CX'
            # ---- message-level
            elif kind == 'mset':
                setattr(root, op[1], op[2])
                spec.set(op[1].upper(), op[2])
            elif kind == 'mseti':
                getattr(root, op[1])[op[2]] = op[3]
                spec.set(op[1].upper(), op[3], op[2])
            elif kind == 'mcopyi':
                src = Message(h.get('structure', 'ADT_A01'), version=v, validation_level=VL.TOLERANT)
                for t in op[3]:
                    sg = Segment(op[1].upper(), version=v, validation_level=VL.TOLERANT)
                    sg.value = t
                    src.add(sg)
                src_before = src.to_er7()
                substep()
                getattr(root, op[1])[op[2]] = getattr(src, op[1])
                spec.set(op[1].upper(), op[3][0], op[2])
                if src.to_er7() != src_before:
                    extra.append(('source-changed', '%r -> %r' % (src_before, src.to_er7())))
            elif kind == 'madd':
                s = Segment(op[1], version=v, validation_level=lvl)
                s.value = op[2]
                root.add(s)
                spec.add(op[1], op[2])
            elif kind == 'maddnew':
                s = root.add_segment(op[1])
                spec.add(op[1], op[1])
                substep()
                s.value = op[2]
                spec.items[-1] = (op[1], op[2])
            elif kind == 'mdel':
                delattr(root, op[1])
                spec.delete(op[1].upper(), 0)
            elif kind == 'mdeli':
                del getattr(root, op[1])[op[2]]
                spec.delete(op[1].upper(), op[2])
            elif kind == 'mpath_basedt_refused':
                # `message.<segment>.<complex field> = ST('x')`: refused (a base-datatype object for a child of a complex datatype) — and when the segment
                # was only reached by traversal, it is NOT left behind in the message (defect D47)
                from hl7apy.v2_5 import ST
                setattr(getattr(root, op[1]), op[2], ST('x'))
            elif kind == 'mpath':
                # assignment at the end of a chain through a possibly absent segment: materialises exactly that chain
                had = len(getattr(root, op[1]))
                setattr(getattr(root, op[1]), op[2], op[3])
                seg = op[1].upper()
                if had:
                    i = spec.reps(seg)[0]
                    old = spec.items[i][1].split('|')
                    while len(old) < 2:
                        old.append('')
                    old[1] = op[3]
                    spec.items[i] = (seg, '|'.join(old))
                else:
                    spec.add(seg, '%s|%s' % (seg, op[3]))
            elif kind in ('gset', 'gadd', 'gdel', 'gdelgroup'):
                g = op[1]
                had_group = any(n == g for n, _ in spec.items)
                if kind == 'gdelgroup':
                    delattr(root, g.lower())
                    spec.delete(g, 0)
                    spec.groups.pop(g, None)
                elif kind == 'gdel':
                    if had_group:
                        delattr(getattr(root, g.lower()), op[2].lower())
                        spec.groups[g][0].delete(op[2], 0)
                    else:
                        raise KeyError('no such group in this history')
                else:
                    grp = getattr(root, g.lower())
                    if kind == 'gset':
                        setattr(grp, op[2].lower(), op[3])
                    else:
                        sgm = Segment(op[2], version=v, validation_level=lvl)
                        sgm.value = op[3]
                        grp.add(sgm)
                    if not had_group:
                        spec.add(g, '')
                        gobj = [c for c in root.children if c.name == g][0]
                        spec.groups[g] = (Spec(), list(gobj.ordered_children) if h['strict'] else None)
                    if kind == 'gset':
                        spec.groups[g][0].set(op[2], op[3])
                    else:
                        spec.groups[g][0].add(op[2], op[3])
            elif kind == 'madd_otherlevel':
                s = Segment(op[1], version=v, validation_level=other_lvl)
                extra.append(s)
                root.add(s)
            elif kind == 'madd_field':
                root.add(Field('PID_3', version=v, validation_level=lvl))
            else:
                raise ValueError('unknown op ' + kind)
        except Exception as e:  # noqa
            exc = vlib.exc_name(e)
            spec.items = mark['spec']
            spec.groups = {}
            for k, (its, o) in groups_before.items():
                sp = Spec()
                sp.items = list(its)
                spec.groups[k] = (sp, o)
        before = mark['before']
        after = observe(root)
        inv = invariants(root)
        half = []
        for x in extra:
            if isinstance(x, tuple) and x[0] == 'source-changed':
                inv = inv + ['copy-changed-its-source:' + x[1][:120]]
                continue
            if isinstance(x, tuple) and x[0] == 'mid-invariant':
                inv = inv + [x[1][:300]]
                continue
            if isinstance(x, tuple) and x[0] == 'detached':
                if x[1].parent is not None or any(x[1] is y for y in root.children):
                    inv = inv + ['detached-child-still-listed:%s' % x[1].name]
                continue
            if isinstance(x, tuple) and x[0] == 'listed':
                if x[1].parent is not root or x[1].traversal_parent is not None or \
                        any(x[1] is y for l in root.children.traversal_indexes.values() for y in l):
                    inv = inv + ['promoted-child-half-attached:%s' % x[1].name]
                continue
            if isinstance(x, tuple):
                inv = inv + ['other-parent:' + b for b in invariants(x[1])]
                for c in x[1].children:
                    if any(c is y for y in root.children):
                        inv = inv + ['listed-by-two-parents:%s' % c.name]
                continue
            if x.parent is not None and not any(x is c for c in x.parent.children):
                half.append('half-attached:%s' % x.name)
        rec = {'op': op, 'exc': exc, 'enc': after[0], 'children': after[1], 'inv': inv + half,
               'spec': spec.enc_segment(h['segment']) if h['root'] == 'segment' else spec.enc_field() if h['root'] == 'field' else spec.enc_message(list(root.ordered_children) if h['strict'] else None),
               'atomic': (after == before and not half) if exc is not None else None,
               'read_noop': (after == before) if kind == 'read' else None}
        recs.append(rec)
    return recs


def run_history_job(h):
    try:
        return run_history(h)
    except Exception as e:  # noqa
        import traceback
        return [{'op': ['harness'], 'exc': 'HARNESS:' + type(e).__name__ + ':' + traceback.format_exc()[-300:], 'enc': '', 'children': [], 'inv': [], 'spec': '', 'atomic': None,
                 'read_noop': None}]
