"""Type-directed generators of ER7 text from /repo's own tables (used by the correspondence checks).

Every random choice comes from the `random.Random` passed in, so a seed replays exactly.
"""
import string

PUNCT = [c for c in '!"#$%&\'()*+,-./:;<=>?@[\\]^_`{|}~']
DEFAULT_EC = {'FIELD': '|', 'COMPONENT': '^', 'SUBCOMPONENT': '&', 'REPETITION': '~', 'ESCAPE': '\\', 'GROUP': '\r', 'SEGMENT': '\r'}


def mk_ec(chars):
    d = {'FIELD': chars[0], 'COMPONENT': chars[1], 'SUBCOMPONENT': chars[2], 'REPETITION': chars[3], 'ESCAPE': chars[4],
         'GROUP': '\r', 'SEGMENT': '\r'}
    if len(chars) > 5:
        d['TRUNCATION'] = chars[5]
    return d


def is_seq(x):
    return isinstance(x, (tuple, list))


def well_formed_ref(ref):
    return is_seq(ref) and len(ref) in (2, 6) and ref[0] in ('leaf', 'sequence', 'choice')


VALID = {
    'DT': ['2020', '202002', '20200229', '19991231', '1000', '99991231'],
    'TM': ['12', '1200', '120000', '235959', '120000.1', '120000.1234', '1200+0100', '12-0500', '000000.0001+1400'],
    'DTM': ['2020', '202002', '20200229', '2020022912', '202002291200', '20200229120000', '20200229120000.1234', '202002291200+0100', '2020-0500'],
    'NM': ['0', '1', '10', '-1', '1.5', '-0.25', '123456789', '0.001', '99.990'],
    'SI': ['0', '1', '2', '10', '999', '9999'],
    'TN': ['(555)123-4567', '123-4567', '12 (555)123-4567X12', '5551234'],
}
SAFE = {'DT': '2020', 'TM': '12', 'DTM': '2020', 'NM': '10', 'SI': '1', 'TN': '5551234'}
INVALID = {
    'DT': ['20201301', '2020023', 'abcd', '20200230', '2020 ', '20-02'],
    'TM': ['25', '1261', '12000', '12:00', 'noon', '120000.12345', '120000.123456', '235959.99999+0100', '1200.5'],
    'DTM': ['20201301', '2020022925', '202002291', 'yesterday', '20200229120000.123456', '20200229123059.12345', '20200229120000.123456-0500', '2020022912.5'],
    'NM': ['abc', '1,5', '1.2.3', '--1', '12345678901234567'],
    'SI': ['abc', '1.5', '10000', '99999'],
    'TN': ['abc', '-', 'X12'],
}
WORDS = ['A', 'B', 'x', 'Smith', 'JOHN', 'a b', 'St. Mary', '12', 'A1', 'MR', 'zz9', 'Q', 'Dr', 'L', 'M', 'F', '2.5', 'P', 'ABC123']


class Gen:
    def __init__(self, rng, ec=None, version='2.5'):
        import hl7apy
        self.rng = rng
        self.ec = ec or dict(DEFAULT_EC)
        self.version = version
        self.lib = hl7apy.load_library(version)
        self.base = self.lib.BASE_DATATYPES
        self.delims = set(v for k, v in self.ec.items())
        self.stats = {}

    def note(self, k):
        self.stats[k] = self.stats.get(k, 0) + 1

    # ---- leaves
    def text_value(self, escapes=True):
        r = self.rng
        w = r.choice(WORDS)
        if r.random() < .3:
            w = ''.join(r.choice(string.ascii_letters + string.digits + ' .-_') for _ in range(r.randint(1, 9))).strip() or 'v'
        if 'TRUNCATION' not in self.ec and '#' not in self.delims and r.random() < .12:
            # '#' is ordinary text wherever no truncation character is declared — in a 2.7+ message with a four-character MSH-2 too (seed C01-j)
            w = r.choice(['A#1', 'No. #4', '#', 'x#'])
        w = ''.join(c for c in w if c not in self.delims)
        if escapes and r.random() < .15:
            e = self.ec['ESCAPE']
            w = (w or 'v') + e + r.choice('FSTRE') + e + r.choice(['', 'z'])
        return w or 'v'

    def leaf(self, dt, mode='canon'):
        """mode canon: a value the datatype layer reproduces; wild: anything"""
        r = self.rng
        if mode == 'wild' and r.random() < .35:
            pool = INVALID.get(dt)
            if pool and r.random() < .6:
                self.note('leaf-invalid')
                v = r.choice(pool)
            elif r.random() < .5:
                self.note('leaf-long')
                v = 'L' * r.choice([21, 200, 250, 1000])
            else:
                self.note('leaf-blank-edge')
                v = r.choice([' x', 'x ', ' ', '  y  '])
            return ''.join(c for c in v if c not in self.delims)
        if mode == 'canon+' and dt in INVALID and r.random() < .15:
            # canonical text (no blank edge, no delimiter) that is NOT a value of its datatype: under TOLERANT the leaf keeps it verbatim
            # (too many fraction digits, month 13, letters in a number...) — seed C01-h truncated over-precise times
            pool = [x for x in INVALID[dt] if x.strip() == x and not any(c in self.delims for c in x)]
            if pool:
                self.note('leaf-invalid-verbatim')
                return r.choice(pool)
        if dt in VALID:
            self.note('leaf-' + dt)
            v = r.choice(VALID[dt])
            if any(c in self.delims for c in v):
                v = SAFE[dt]
            return v
        self.note('leaf-text')
        return self.text_value()

    # ---- component / field text following a reference
    def by_ref(self, ref, level, mode, overflow):
        """text for an element whose reference is `ref`; level 0 = field (components), 1 = component (subcomponents), 2 = subcomponent"""
        r = self.rng
        sep = [self.ec['COMPONENT'], self.ec['SUBCOMPONENT'], None][level] if level < 3 else None
        if not well_formed_ref(ref) or len(ref) != 6:
            self.note('ref-malformed')
            return self.text_value()
        kind, rows, dt = ref[0], ref[1], ref[2]
        if kind == 'leaf' or level >= 2:
            if dt == 'varies' or dt is None:
                self.note('varies')
                if level < 2 and r.random() < .4:
                    # (now and then ten components and more: VARIES_10 sorts before VARIES_9 as a string — seed C01-i)
                    return sep.join(self.text_value() for _ in range(r.randint(2, 3) if r.random() < .7 else r.randint(10, 14)))
                return self.text_value()
            if dt in self.base:
                return self.leaf(dt, mode)
            # complex datatype declared as leaf (finding D3) or at subcomponent level
            self.note('leaf-complex')
            return self.text_value()
        # sequence: children by position
        n = len(rows)
        if n == 0:
            return self.text_value()
        k = r.choice([1, 1, 2, 3, n, r.randint(1, n)])
        k = min(k, n)
        parts = []
        for i in range(k):
            if i < k - 1 and r.random() < .45:
                parts.append('')
                continue
            row = rows[i]
            cref = row[1] if is_seq(row) and len(row) == 4 else None
            parts.append(self.by_ref(cref, level + 1, mode, overflow) if cref is not None else self.text_value())
        if overflow and r.random() < .1:
            self.note('overflow-%d' % level)
            parts += [''] * (n - k) + [self.text_value()]
        return sep.join(parts)

    def field(self, ref, card, mode='canon', overflow=False):
        r = self.rng
        mx = card[1] if is_seq(card) and len(card) == 2 else 1
        reps = 1
        if (mx == -1 or mx > 1) and r.random() < .3:
            reps = r.randint(2, 3)
            if mx == -1 and r.random() < .08:
                self.note('rep-many')
                reps = r.randint(10, 12)        # ten repetitions and more: anything that orders repetitions as strings shows here
        elif overflow and r.random() < .05:
            self.note('rep-overflow')
            reps = 2
        parts = [self.by_ref(ref, 0, mode, overflow) for _ in range(reps)]
        if (mx == -1 or mx > 2) and r.random() < .25:
            # an interior or leading empty repetition: still canonical (the last repetition is not empty)
            self.note('rep-interior-empty')
            parts.insert(r.randrange(len(parts)), '')
        return self.ec['REPETITION'].join(parts)

    def segment(self, name, mode='canon', overflow=False, fill=.35):
        """ER7 text of one segment of this version (not MSH)"""
        r = self.rng
        ref = self.lib.SEGMENTS[name]
        fs = self.ec['FIELD']
        if not (is_seq(ref) and len(ref) >= 2 and ref[0] in ('sequence', 'choice') and is_seq(ref[1])):
            self.note('segment-malformed')
            return name + fs + self.text_value()
        rows = ref[1]
        n = len(rows)
        if n == 0:
            return name
        last = r.choice([1, 2, 3, n, r.randint(1, n), r.randint(1, n)])
        last = min(last, n)
        fields = []
        for i in range(last):
            row = rows[i]
            if i < last - 1 and r.random() > fill:
                fields.append('')
                continue
            if is_seq(row) and len(row) == 4 and row[1] is not None:
                fields.append(self.field(row[1], row[2], mode, overflow))
            else:
                self.note('row-none-ref')
                fields.append(self.text_value())
        last_ref = rows[-1][1] if is_seq(rows[-1]) and len(rows[-1]) == 4 else None
        open_ended = well_formed_ref(last_ref) and len(last_ref) == 6 and last_ref[2] == 'varies'
        if open_ended and r.random() < .5:
            # varies-terminated segment: fields beyond the defined count, on both sides of index 10
            self.note('open-ended-extra')
            fields += [''] * (n - last)
            extra = r.randint(2, 14)
            fields += [self.text_value(False) if (i == extra - 1 or r.random() < .6) else '' for i in range(extra)]
        elif overflow and r.random() < .08:
            self.note('field-overflow')
            fields += [''] * (n - last) + [self.text_value()]
        return name + fs + fs.join(fields)

    def zsegment(self, name=None):
        r = self.rng
        name = name or ('Z' + r.choice(string.ascii_uppercase) + r.choice(string.ascii_uppercase + '123456789'))
        fs = self.ec['FIELD']
        n = r.choice([1, 2, 3, 4, 6, 9, 10, 11, 13, 15, 21])
        return name + fs + fs.join(self.text_value() if (i == n - 1 or r.random() < .6) else '' for i in range(n))

    def msh(self, mtype, ctrl='1'):
        ec = self.ec
        fs = ec['FIELD']
        m2 = ec['COMPONENT'] + ec['REPETITION'] + ec['ESCAPE'] + ec['SUBCOMPONENT'] + ec.get('TRUNCATION', '')
        parts = mtype.split('_')
        if len(parts) == 2:
            m9 = parts[0] + ec['COMPONENT'] + parts[1] + ec['COMPONENT'] + mtype
        else:
            # a structure named without an event (ACK): MSH-9 must still carry the structure component, or no structure can be looked up
            m9 = mtype + ec['COMPONENT'] + ec['COMPONENT'] + mtype
        return fs.join(['MSH', m2, 'SND', 'FAC', 'RCV', 'RFAC', '20200101120000', '', m9, ctrl, 'P', self.version])


def mutate(rng, text, ec=None):
    """one structural mutation of an ER7 text (non-canonical / malformed stream)"""
    ec = ec or DEFAULT_EC
    k = rng.randrange(10)
    if not text:
        return text
    i = rng.randrange(len(text))
    seps = [ec['FIELD'], ec['COMPONENT'], ec['SUBCOMPONENT'], ec['REPETITION'], ec['ESCAPE']]
    if k == 0:
        return text[:i]
    if k == 1:
        return text[:i] + text[i + 1:]
    if k == 2:
        return text[:i] + rng.choice(seps) + text[i:]
    if k == 3:
        return text + rng.choice(seps) * rng.randint(1, 3)
    if k == 4:
        return text[:i] + text[i] * 2 + text[i + 1:]
    if k == 5:
        return text[:i] + ' ' + text[i:]
    if k == 6:
        return text.lower()
    if k == 7:
        return text[:i] + rng.choice(['\r', '\n', '\t', '\x1c', '\x0b']) + text[i:]
    if k == 8:
        return ' ' + text + ' '
    return text[:i] + rng.choice('ZzÿΩ0') + text[i + 1:]


class MsgGen(Gen):
    """instances of message structures"""

    def structures(self):
        """addressable message structures: the tables also hold templates such as 'QBP_Qnn' whose key is not upper case
        and which therefore no MSH-9 can name (Element.__init__ upper-cases the name)"""
        return sorted(k for k in self.lib.MESSAGES if k == k.upper())

    def derive(self, ref, depth, style, maxdepth=3):
        """list of derivation nodes: ('S', name) | ('G', name, [children]) following the structure `ref`"""
        r = self.rng
        out = []
        if not (is_seq(ref) and len(ref) >= 2 and is_seq(ref[1])):
            return out
        for row in ref[1]:
            if not (is_seq(row) and len(row) == 4):
                continue
            name, cref, card, cls = row
            if name == 'ANYHL7SEGMENT':
                continue              # a placeholder row of the tables, not a segment
            mn, mx = card if is_seq(card) and len(card) == 2 else (0, 1)
            if style == 'required':
                n = mn
            elif style == 'all':
                n = max(mn, 1)
            else:
                n = mn if r.random() < .5 else max(mn, 1)
                if (mx == -1 or mx > 1) and r.random() < .35 and depth < maxdepth:
                    n = max(n, 1) + r.randint(1, 2)
                    if mx == -1 and depth <= 1 and r.random() < .06:
                        n = 11                      # eleven repetitions of one segment / group at the top levels
            if cls == 'GRP' and depth >= maxdepth and mn == 0:
                n = 0
            for _ in range(n):
                if cls == 'SEG':
                    out.append(('S', name))
                elif cls == 'GRP':
                    kids = self.derive(cref, depth + 1, style, maxdepth)
                    if not kids and mn >= 1:
                        # a required group whose members are all optional: an instance needs at least one member
                        kids = self.derive(cref, depth + 1, 'all', maxdepth)[:1]
                    if kids:
                        out.append(('G', name, kids))
        return out

    @staticmethod
    def flatten(nodes):
        out = []
        for n in nodes:
            if n[0] == 'S':
                out.append(n[1])
            else:
                out.extend(MsgGen.flatten(n[2]))
        return out

    @staticmethod
    def show(nodes):
        return ','.join(n[1] if n[0] == 'S' else '%s(%s)' % (n[1], MsgGen.show(n[2])) for n in nodes)

    def seg_line(self, name, mode='canon', rich=False):
        if name == 'MSH':
            raise ValueError
        if name in self.lib.SEGMENTS and rich:
            return self.segment(name, mode=mode, fill=.2)
        if name[:1].upper() == 'Z' and name not in self.lib.SEGMENTS:
            return self.zsegment(name)
        return name + self.ec['FIELD'] + self.rng.choice(['1', '', 'x'])

    def message(self, mtype, style='random', rich=False, perturb=False):
        """(text, derivation, segment names) for structure `mtype` of this version"""
        r = self.rng
        ref = self.lib.MESSAGES[mtype]
        der = self.derive(ref, 0, style, maxdepth=12 if style == 'all' else 3)      # an all-children instance goes as deep as the structure does (ORL_O40: 8 levels)
        names = self.flatten(der)
        if names and names[0] == 'MSH':
            names = names[1:]
        if perturb:
            k = r.randrange(5)
            allsegs = sorted(self.lib.SEGMENTS)
            if k == 0 and names:
                names.insert(r.randrange(len(names) + 1), r.choice(allsegs))
            elif k == 1:
                names.insert(r.randrange(len(names) + 1), 'Z' + r.choice('ABZ') + r.choice('12P'))
            elif k == 2 and names:
                i = r.randrange(len(names))
                names.insert(i, names[i])
            elif k == 3 and len(names) > 1:
                i, j = r.sample(range(len(names)), 2)
                names[i], names[j] = names[j], names[i]
            elif k == 4 and names:
                del names[r.randrange(len(names))]
        lines = [self.msh(mtype)] + [self.seg_line(n, rich=rich) for n in names if n != 'MSH']
        return '\r'.join(lines), der, ['MSH'] + [n for n in names if n != 'MSH']


class ConfGen(MsgGen):
    """instances meant to conform to the standard structure: every required row present, cardinalities respected"""

    def conf_ref(self, ref, level):
        r = self.rng
        sep = [self.ec['COMPONENT'], self.ec['SUBCOMPONENT'], None][level] if level < 3 else None
        if not well_formed_ref(ref) or len(ref) != 6:
            return 'x'
        kind, rows, dt = ref[0], ref[1], ref[2]
        if kind == 'leaf' or level >= 2:
            if dt in self.base:
                return self.leaf(dt, 'canon')
            return self.text_value(False)
        n = len(rows)
        req = [i for i, row in enumerate(rows) if is_seq(row) and len(row) == 4 and is_seq(row[2]) and row[2][0] >= 1]
        last = min(n - 1, max(req + [r.choice([0, 0, 1, n - 1, r.randrange(n)])]))
        parts = []
        for i in range(last + 1):
            row = rows[i]
            need = i in req or i == last
            if need or r.random() < .3:
                parts.append(self.conf_ref(row[1], level + 1) if row[1] is not None else 'x')
            else:
                parts.append('')
        return sep.join(parts)

    def conf_segment(self, name):
        r = self.rng
        ref = self.lib.SEGMENTS[name]
        fs = self.ec['FIELD']
        if not (is_seq(ref) and len(ref) >= 2 and is_seq(ref[1]) and ref[1]):
            return name + fs + 'x'
        rows = ref[1]
        n = len(rows)
        if not all(is_seq(row) and len(row) == 4 and is_seq(row[2]) and len(row[2]) == 2 for row in rows):
            return self.segment(name)
        req = [i for i, row in enumerate(rows) if is_seq(row) and len(row) == 4 and row[2][0] >= 1]
        last = min(n - 1, max(req + [r.choice([0, 1, 2, n - 1, r.randrange(n)])]))
        fields = []
        for i in range(last + 1):
            row = rows[i]
            if i in req or i == last or r.random() < .25:
                mx = row[2][1]
                k = 1 if mx == 1 or r.random() < .7 else 2
                fields.append(self.ec['REPETITION'].join(self.conf_ref(row[1], 0) if row[1] is not None else 'x' for _ in range(k)))
            else:
                fields.append('')
        return name + fs + fs.join(fields)

    def conf_message(self, mtype, style):
        ref = self.lib.MESSAGES[mtype]
        der = self.derive(ref, 0, style)
        names = self.flatten(der)
        lines = []
        for n in names:
            if n == 'MSH':
                lines.append(self.msh(mtype))
            elif n in self.lib.SEGMENTS:
                lines.append(self.conf_segment(n))
            else:
                lines.append(n + self.ec['FIELD'] + '1')
        return '\r'.join(lines), der, names
